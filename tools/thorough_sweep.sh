#!/bin/sh
# usage: tools/thorough_sweep.sh <seed> <ID>...   (meant for `vp run`): thorough tier of each check, one after another
SEED="$1"; shift
./setup.sh >/dev/null 2>&1
for ID in "$@"; do
  START=$(date +%s)
  VERIF_SEED=$SEED VERIF_EVIDENCE_DIR=$PWD/evidence-thorough VERIF_REPLAY_DIR=$PWD/replays-thorough ./check "$ID" --tier thorough > "thorough-$ID.log" 2>&1
  RC=$?
  echo "THOROUGH $ID seed=$SEED rc=$RC wall=$(( $(date +%s) - START ))s :: $(grep -E '^(HELD|VIOLATION|INCONCLUSIVE)' thorough-$ID.log | head -3 | cut -c1-200 | tr '\n' '|')"
done
