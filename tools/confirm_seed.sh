#!/bin/sh
# usage: tools/confirm_seed.sh <PROP> <N> [check ids...]
# Confirms a sub-agent's seeded change in ITS scratch worktree (/tmp/seed-<PROP>): existing tests pass with the change,
# the demonstration fails with it and passes without it; then stores it under /verif/seeded/<PROP>-<N>/ and runs the
# given checks (default: <PROP>) against a scratch copy with the change applied.
PROP="$1"; N="$2"; shift 2
WT="${SEED_WT:-/tmp/seed-$PROP}"; OUT="$WT/out"; DIFF="$OUT/change$N.diff"
[ -f "$DIFF" ] || { echo "no $DIFF"; exit 2; }
cd "$WT" || exit 2
git checkout -q -- . 
rebuild() { if grep -q "_fjcore.c" "$DIFF"; then /venv/bin/python build_fjcore.py build_ext --inplace >/dev/null 2>&1; rm -rf build; fi; }
[ -f flipjump/interpreter/_fjcore.abi3.so ] || { /venv/bin/python build_fjcore.py build_ext --inplace >/dev/null 2>&1; rm -rf build; }
git apply "$DIFF" || { echo "diff does not apply"; exit 2; }
rebuild
TESTS=$(PYTHONPATH="$WT" /venv/bin/python -m pytest -q -p no:cacheprovider --timeout=900 2>&1 | tail -1)
( cd "$OUT" && PYTHONPATH="$WT" timeout 600 /venv/bin/python "demo$N.py" >/tmp/seed-demo-with.txt 2>&1 ); WITH=$?
git checkout -q -- .
rebuild
( cd "$OUT" && PYTHONPATH="$WT" timeout 600 /venv/bin/python "demo$N.py" >/tmp/seed-demo-without.txt 2>&1 ); WITHOUT=$?
echo "tests-with-change: $TESTS"
echo "demo-with-change rc=$WITH ; demo-without-change rc=$WITHOUT"
DEST="/verif/seeded/$PROP-$N"
mkdir -p "$DEST"
cp "$DIFF" "$DEST/patch.diff"
for f in "$OUT"/demo$N*; do cp "$f" "$DEST/"; done
cp "$OUT/notes$N.md" "$DEST/notes.md" 2>/dev/null
CHECKS="${*:-$PROP}"
RESULTS=""
for C in $CHECKS; do
  R=$(/verif/tools/mutant.sh "$DEST/patch.diff" "$C" 2>&1 | tail -1)
  KEYS=$(/verif/tools/mutant.sh "$DEST/patch.diff" "$C" 2>&1 | grep "key=" | head -3 | sed 's/ what=.*//' | tr '\n' ';')
  echo "$R  $KEYS"
  RESULTS="$RESULTS$C: $R $KEYS | "
done
/venv/bin/python - "$PROP" "$N" "$TESTS" "$WITH" "$WITHOUT" "$RESULTS" <<'PY'
import json, sys
prop, n, tests, w, wo, results = sys.argv[1:7]
dest = f'/verif/seeded/{prop}-{n}'
notes = open(f'{dest}/notes.md').read() if __import__('os').path.exists(f'{dest}/notes.md') else ''
json.dump({'property': prop, 'seed_index': int(n), 'origin': 'independent sub-agent given only the property text and its own scratch worktree',
           'confirmed': {'existing_tests_with_change': tests, 'demo_exit_with_change': int(w), 'demo_exit_without_change': int(wo)},
           'kept': int(w) != 0 and int(wo) == 0 and 'passed' in tests and 'failed' not in tests,
           'needs_to_manifest': notes[:1200], 'checks_run': results}, open(f'{dest}/meta.json', 'w'), indent=1)
PY
