#!/venv/bin/python
"""Regenerates /verif/MANIFEST.json from the table below (kept in one place so it stays valid)."""
import json
import os
import sys

ROOT = os.path.dirname(os.path.dirname(os.path.abspath(__file__)))
sys.path.insert(0, ROOT)
from tools.manifest_table import CHECKS, NOT_APPLICABLE, HOOKS  # noqa: E402

BASELINE = ('cd /repo && /venv/bin/python -m pytest -ra -q -p no:cacheprovider --timeout=900 '
            '--continue-on-collection-errors')

manifest = {
    'version': 1,
    'setup_cmd': 'cd /verif && ./setup.sh',
    'hooks': {
        'guard': 'FLIPJUMP_VERIF',
        'enable': HOOKS['enable'],
        'baseline_off_cmd': BASELINE,
        'source_commits': HOOKS['source_commits'],
        'add_only': True,
    },
    'engines': [
        {'name': 'fjverif', 'path': 'fjverif/', 'serves_properties': [c['property_id'] for c in CHECKS],
         'kind_free_text': 'runtime monitors: reference-model oracles over observed executions of the real code, '
                           'sanitizer builds of the native engine, offline checkers over recorded IO/event logs'},
    ],
    'checks': [],
    'not_applicable': NOT_APPLICABLE,
    'notes': 'All checks: ./check <ID> [--tier quick|thorough]; exit 0 held, 1 VIOLATION, 2 INCONCLUSIVE. '
             'Known findings: known_findings.jsonl (mechanism-keyed). See DESIGN.md.',
}
for c in CHECKS:
    manifest['checks'].append({
        'property_id': c['property_id'],
        'quick_cmd': f'./check {c["property_id"]} --tier quick',
        'thorough_cmd': f'./check {c["property_id"]} --tier thorough',
        'evidence_file': f'/verif/evidence/{c["property_id"]}.json',
        'replay_cmd_template': f'./check {c["property_id"]} --replay {{path}}',
        'engine': 'fjverif',
        'level_claimed': {'category': c['level'], 'text': c['text'], 'design_ref': c['design_ref']},
        'level_note': c['note'],
        'technique': c['technique'],
    })
with open(os.path.join(ROOT, 'MANIFEST.json'), 'w') as f:
    json.dump(manifest, f, indent=1)
print('MANIFEST.json written:', len(manifest['checks']), 'checks,', len(NOT_APPLICABLE), 'not applicable')
