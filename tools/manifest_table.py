HOOKS = {
    'enable': 'no source hooks: every observation point is a public boundary (fjm_run.run results, IODevice/'
              'DeviceMemory callbacks, files written, stdin/stdout, sys.monitoring, compiler flags)',
    'source_commits': [],
}

CHECKS = [
    {
        'property_id': 'C01', 'level': 'exploration', 'design_ref': 'DESIGN.md 4 C01, 3.3-3.5',
        'technique': 'runtime monitoring: reference-machine oracle over observed engine runs (differential, generated images)',
        'text': 'Thousands of generated images (grown along their own execution on an independent reference machine, all '
                'four widths, aligned/unaligned/self-modifying ops, IO, every termination cause) are run on the featured, '
                'fast and native engines through fjm_run.run; cause, op count, fault address and the device-side IO call '
                'log must equal the reference. Held = no divergence on the executions observed, not a proof.',
        'note': 'trusts the 150-line reference machine, CPython, gcc; segments restricted to the 2^w-bit space',
    },
    {
        'property_id': 'C07', 'level': 'exploration', 'design_ref': 'DESIGN.md 4 C07, 3.4',
        'technique': 'runtime monitoring: cross-configuration differential with reference-machine arbiter, final memory read through DeviceMemory',
        'text': 'Generated sparse images (page edges, cache-slot aliases, flat-window cuts, far segments, top of address '
                'space, magic-valued words, many segments) are run under featured/fast and native flat/hybrid/paged storage, '
                'with/without last-ops ring and measurement loop; cause, ops, fault address, IO log, last-ops list and the '
                'final value of every touched/initialised in-segment word must equal the reference machine.',
        'note': 'trusts the reference machine; final memory observed through the DeviceMemory hook',
    },
]

_TODO = 'check not built yet in this session (work in progress; see DESIGN.md for the planned monitor)'
NOT_APPLICABLE = [{'property_id': f'C{i:02d}', 'reason': _TODO} for i in range(1, 21)
                  if f'C{i:02d}' not in {c['property_id'] for c in CHECKS}]
