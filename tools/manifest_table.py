HOOKS = {
    'enable': 'no source hooks: every observation point is a public boundary (fjm_run.run results, IODevice/'
              'DeviceMemory callbacks, files written, stdin/stdout, sys.monitoring, compiler flags)',
    'source_commits': [],
}

CHECKS = [
    {
        'property_id': 'C01', 'level': 'exploration', 'design_ref': 'DESIGN.md 4 C01, 3.3-3.5',
        'technique': 'runtime monitoring: reference-machine oracle over observed engine runs (differential, generated images)',
        'text': 'Thousands of generated images (grown along their own execution on an independent reference machine, all '
                'four widths, aligned/unaligned/self-modifying ops, IO, every termination cause) are run on the featured, '
                'fast and native engines through fjm_run.run; cause, op count, fault address and the device-side IO call '
                'log must equal the reference. Held = no divergence on the executions observed, not a proof. Includes images of 20-300 distinct 2^14-word pages walked several times (page-table growth) and 270 000-op chains (signal-poll cadence). Also runs the native engine with the last-ops ring of length 10 that the fj command uses, and far segments that share a page with a gap between them.',
        'note': 'trusts the 150-line reference machine, CPython, gcc; segments restricted to the 2^w-bit space',
    },
    {
        'property_id': 'C07', 'level': 'exploration', 'design_ref': 'DESIGN.md 4 C07, 3.4',
        'technique': 'runtime monitoring: cross-configuration differential with reference-machine arbiter, final memory read through DeviceMemory',
        'text': 'Generated sparse images (page edges, cache-slot aliases, flat-window cuts, far segments, top of address '
                'space, magic-valued words, many segments) are run under featured/fast and native flat/hybrid/paged storage, '
                'with/without last-ops ring and measurement loop; cause, ops, fault address, IO log, last-ops list and the '
                'final value of every touched/initialised in-segment word must equal the reference machine. Includes many-page walks (20-300 pages, low and far) that make the page table grow while loading.',
        'note': 'trusts the reference machine; final memory observed through the DeviceMemory hook',
    },
    {
        'property_id': 'C06', 'level': 'exploration', 'design_ref': 'DESIGN.md 4 C06',
        'technique': 'runtime monitoring: model-based oracle over observed writer->reader round trips (random call sequences, all versions); icontract postconditions/invariants on Reader, Writer and devices under the repository tests and the generated workload as a second oracle',
        'text': 'Random writer call sequences (segments from 0 to the top of the address space, zero tails around the dense/lazy '
                'threshold, shared data, boundary word values, deliberate flaws) are replayed on versions 0-3 and lzma presets; '
                'the reader result must equal a 30-line model of what the calls mean (segments, words, invalidity outside), a '
                'writer rejection must be the library write error, and corpus programs assembled at the four versions must load '
                'identically. A third of the sequences are driven by a caller that catches a rejected call and goes on (model = the accepted calls); dedicated shards write 9-65 MiB pools with far repeats at every lzma preset (beyond the compressor window). The caller may also scribble on the lists it passed; reserve-only-segment programs are assembled at the four versions; every 4th shard runs under python -O.',
        'note': 'trusts the call-sequence model; over-rejection by the writer is counted, not flagged (acceptance floor enforced)',
    },
    {
        'property_id': 'C10', 'level': 'fault_enumeration', 'design_ref': 'DESIGN.md 4 C10',
        'technique': 'runtime monitoring: fault enumeration (every torn-write prefix, single-field corruptions) with exception-type and independent consistency-predicate oracles',
        'text': 'Every strict prefix of sampled writer-produced files (each crash offset of write_to_file), every header/segment '
                'field set to boundary and neighbouring values, payload damage incl. inside the lzma stream, random and '
                'structure-aware files: Reader must raise only FlipJumpReadFjmException, accepted prefixes must load the '
                'original image, accepted files must satisfy an independently coded consistency predicate, and fjm_run.run '
                'on accepted files must end in a termination or library exception (RLIMIT_AS + watchdog). A mutation kind builds well-formed files whose only contradiction is the relation between 2-5 segments (empty, nested, overlapping, any table order). Every 4th shard runs under python -O.',
        'note': 'never-hangs restated as bounded progress (30 s per Reader call on files < 64 KiB); non-canonical but '
                'consistent files are observations only',
    },
    {
        'property_id': 'C11', 'level': 'exploration', 'design_ref': 'DESIGN.md 4 C11, 3.2',
        'technique': 'compiler sanitizers (ASan+UBSan build of the current _fjcore.c) + allocation-fault injection + refcount/RSS monitors, llvm-cov coverage as evidence',
        'text': 'The current _fjcore.c is rebuilt with clang -fsanitize=address,undefined (no recover) and driven with generated '
                'images in every geometry x storage/loop configuration, a direct API fuzz of _fjcore.Memory (hostile segment '
                'tables, any 64-bit address, accessors interleaved with run, callbacks that raise/return non-bools/re-enter '
                'through get_word/set_word), reader-accepted corrupted files, and the N-th allocation failing; any sanitizer '
                'report or dead worker is a violation with the journalled case. Held = zero reports on the observed runs with '
                '>= 80% line coverage of _fjcore.c measured by llvm-cov on the same workloads. C18\'s device-fault enumeration also runs on the ASan build (freed blocks are filled, so dangling Python objects handed out by an exception path kill the worker), with 33 000-140 000-op chains and many-page walks under the measure/ring/paged knobs, and rejected re-initialisations in the API fuzz.',
        'note': 'a clean sanitizer run is not memory safety (red zones miss far OOB into live allocations); MSan/TSan do not apply; '
                're-entrant __init__/add_segment/run from a device callback is outside the property and not generated',
    },
    {
        'property_id': 'C17', 'level': 'exploration', 'design_ref': 'DESIGN.md 4 C17',
        'technique': 'runtime monitoring: exhaustive small-space enumeration + model oracle (bit packing, keyboard polling protocol), StandardIO through real pipes',
        'text': 'All 131071 bit sequences of length <= 16 are written to FixedIO, StandardIO and KeyboardIO and all 65793 input '
                'byte strings of length <= 2 are read from FixedIO (exhaustive), plus random sequences to 4096 bits with '
                'interleaved reads, keyboard event scripts x read counts against a polling-protocol model, and StandardIO in a '
                'subprocess through real pipes under latin-1 and UTF-8 stdin. The collected output is also looked at mid-stream. Outputs of 4095-12289 bytes are written to every device.',
        'note': 'interactive terminals and the pygame window are out of reach; StandardIO under UTF-8 stdin is a recorded known finding',
    },
    {
        'property_id': 'C18', 'level': 'fault_enumeration', 'design_ref': 'DESIGN.md 4 C18',
        'technique': 'runtime monitoring: fault injection at every IO call index + real asynchronous signals, judged by the reference machine stopped at the same point',
        'text': 'For generated programs every IO call index k is faulted with a library IO error, IOReadOnEOF (from read and '
                'from write), a foreign exception, KeyboardInterrupt and a non-bool reply whose __bool__ raises, on featured, '
                'fast and native flat/hybrid/paged/measure with and without the ring; what leaves run() (identity of the '
                'exception, wrapping, cause, statistics) and the device-side record, op count, last-ops list and memory must '
                'equal the reference machine stopped at that call. Real setitimer/SIGINT interrupts on endless loops check the '
                'asynchronous case: the stopped state must be a sub-step state of the next op at the reported count. The foreign failure is drawn from 22 built-in exception families; a worker killed by a fatal signal is a verdict. Rings of length 0 are configurations too. One long-run shard interrupts a 16384-op loop after more than 2^32 executed ops and checks the reported count against the loop\'s period.',
        'note': 'native signals are polled every 2^18 ops, so native async stops are observed only there; for exceptions that '
                'leave run() no statistics object exists to inspect',
    },
    {
        'property_id': 'C19', 'level': 'exploration', 'design_ref': 'DESIGN.md 4 C19',
        'technique': 'runtime monitoring: scripted device accesses inside IO callbacks judged by the reference machine; independent decoder model for the screen command stream',
        'text': 'Generated programs whose IO calls trigger scripted DeviceMemory reads/writes (words and packed bytes, code about '
                'to run, lazy zeros, far segments, magic values) run on featured/fast/native flat/hybrid/paged; every value the '
                'device reads, the effect of its writes on later ops and the final memory must equal the reference machine '
                'executing the same script. The headless screen is fed random and structure-aware command streams and must '
                'agree with an independently written decoder of the documented layout (frames, pixels, palette, rejection '
                'point, device-error type); generated screen-driving programs must present the same frame hashes on all engines. Devices also read and patch memory inside attach_memory. Packed bytes at any word-aligned address; palette sizes around 2^bpp. Geometry big-first puts whole loaded pages inside the flat window next to page-backed segments at round and arbitrary page numbers.',
        'note': 'interactive pygame devices cannot be exercised (pygame absent); device writes outside segments are unspecified',
    },
    {
        'property_id': 'C12', 'level': 'exploration', 'design_ref': 'DESIGN.md 4 C12',
        'technique': 'runtime monitoring: table-driven oracle (frozen operator table + unbounded integers) over assembled words; exhaustive operator pairs, random trees x folding stages',
        'text': 'Every ordered pair of the 19 binary operators x 343 operand triples (incl. negatives and a >64-bit value), every '
                'unary x binary shape, ?: nests and every literal notation are assembled unparenthesised and the words observed '
                'through 180 bits + sign + overflow must equal the value the frozen operator table (spec/operators.json) gives; '
                'random trees to depth 6 are unparsed with minimal/random/full parentheses with every identifier bound as a '
                'parse-time constant, a macro parameter or a label expression, so that all three folding stages must agree. Decimal literals of 3999-12345 digits are observed through a modulus, a shift and a difference.',
        'note': 'the operator table is my transcription of the grammar at the pinned commit and the documented examples; '
                'expressions without a value (x/0, negative shifts) are C14 material',
    },
    {
        'property_id': 'C14', 'level': 'exploration', 'design_ref': 'DESIGN.md 4 C14',
        'technique': 'runtime monitoring: grammar-derived fault classes + token/byte mutation, exception-classification oracle at the assemble() boundary, output-path post-condition',
        'text': 'One generator per error class named in the property (lexing, syntax, unknown/duplicate macro and label, arity, '
                'alignment, overlap, out-of-range words, division by zero / negative shift / negative exponent at each of the '
                'three evaluation stages, recursion, deep expressions, bad pad/rep/segment/reserve operands, invalid UTF-8, '
                'missing/repeated files) plus token-, byte- and line-level mutations of generated valid programs and stl '
                'programs, at all widths and versions: assemble() must succeed or raise a FlipJumpException that is not the '
                'generic "unknown exception" wrapper, whose message names the construct where the generator knows it, within the '
                'watchdog, leaving no loadable output file. Classes added by the seeding rounds: constants and literals of thousands of digits in 20+ positions, invisible and Python-only white-space characters, depth limit reached without recursion, reps/pads beyond a small memory (bounded work, CPU-time hang verdict), internal-name collisions; every third assembly also writes the debugging file, every seventh the statistics. Valid literals in every accepted notation, and reps/pads beyond a small memory, complete the classes; every 5th shard runs under python -O. A label in front of every statement kind (top level, namespace, macro body) is a valid class that must never reach the catch-all.',
        'note': 'never-hangs is bounded progress (30 s / 120 s with stl); astronomically large constants and unbounded rep counts '
                'are unbounded-work programs, confined to a reported-only class',
    },
    {
        'property_id': 'C13', 'level': 'exploration', 'design_ref': 'DESIGN.md 4 C13',
        'technique': 'runtime monitoring: history-vs-fresh-process differential on output bytes (sha256 of .fjm and .fjd)',
        'text': 'Histories of 1-13 assemble() calls in one process (corpus and generated programs at w=16/32/64, stl on/off, both '
                'warning modes, failing inputs of every C14 error class, recursion depths 5..5000, the stl at widths where it does '
                'not fit, the probe itself twice) are followed by a probe assembly whose .fjm and .fjd bytes must equal those '
                'of the probe assembled in a fresh process, under several PYTHONHASHSEED values, another working directory and a '
                'copy of the sources elsewhere. Probes a fresh process rejects must be rejected identically after every history; the corpus includes layout-shifted stl programs, a warning-only source, a deep-expression source and >2^16-word images, with targeted shapes (last-stage failure / small recursion depth / bigger image / tolerant warning mode right before the probe). 30 % of histories write every output over the same two paths; targeted shapes also cover the constants of the first stl program, a many-segment program under other hash seeds, the same file under another short name, and relative paths after a change of directory. Targeted histories: a too-deep probe right after a failing call that asked for a large depth; a user file named like a library file after the library was cached.',
        'note': 'observed at the files only; the parse cache is exercised cold, warm, warm for another width and warm for the other warning mode',
    },
    {
        'property_id': 'C20', 'level': 'exploration', 'design_ref': 'DESIGN.md 4 C20',
        'technique': 'runtime monitoring: three-route differential (fj one-step / fj --asm + --run / Python API) on file bytes, stdout and termination; audit-hook capture of the temporary out.fjm',
        'text': 'Corpus programs with their stdin files and generated primitive programs (also split over two files) are pushed '
                'through the fj one-step flow (with -o and, captured by a sys.addaudithook wrapper around the real main(), '
                'without -o), the fj --asm -o / --run two-step flow and flipjump.assemble/run under random option '
                'combinations; .fjm and .fjd bytes, program stdout and termination cause/op count must agree, and the defaults '
                '(width 64, version 3 with -o, 1 without, stl included) are read from the produced headers. The API is also used as a library: sessions of 3-6 assemblies in one process (good, failing, repeated, the stl given explicitly) each compared with a fresh fj process; the one-call assemble_and_run is a fourth route; a warning-bearing program runs through every route in both warning modes; -o with a preset and no -v must equal the same command with -v 3. Output paths may already hold longer files; refusals must agree on every route including the temporary-file flow with its own default version; deep expressions with the API hosted under a raised recursion limit; a source path through a symbolic link; many long file names. Also: sources whose names are 251-255 bytes long, and programs whose output looks like escape sequences or holds bytes above 127.',
        'note': 'the API has no lzma-preset parameter, so version-3 bytes are compared with the API only at the default preset',
    },
    {
        'property_id': 'C02', 'level': 'exploration', 'design_ref': 'DESIGN.md 4 C02, 3.6',
        'technique': 'runtime monitoring: denotational oracle (independent address/value model) over assembled images; wflip chains judged by executing the loaded image',
        'text': 'Random primitive programs (the four f;j forms, labels, constants, wflip with/without return address, pad, '
                'segment, reserve; every number rendered as an expression over literals, constants, labels and $) at all widths '
                'and versions are assembled and read back; every statement word, every label and every reserved word must equal '
                'an independently computed denotation, each wflip is followed in the loaded image (exact set bits, popcount ops, '
                'return address, auxiliary ops off user space), and layouts the model proves impossible must be rejected. Includes parity-only impossible layouts (odd start / odd span / both) and literals of 4000+ digits. Every 4th shard runs under python -O; flaws include words outside [0,2^w) and negative reserves; expressions include logical operators over labels and floor divisions. Conditionals are also chained without parentheses.',
        'note': 'one-sided on layout: model-impossible-but-assembled is a violation, model-possible-but-rejected is counted '
                '(the appended wflip area may legitimately collide); pad-hole contents are unspecified',
    },
    {
        'property_id': 'C15', 'level': 'exploration', 'design_ref': 'DESIGN.md 4 C15',
        'technique': 'runtime monitoring: trace-specification checker - a debugger model layered on the reference machine is compared with the pause/read events parsed from the real debugger output',
        'text': 'Generated images run under flipjump.debug with breakpoints by address, exact label and substring over synthetic '
                'label tables and scripted command sessions (step, skip N, continue, continue-all, quit, EOF, reads of addresses, '
                'labels and :bN:/:hN:/:BN:/:f:/:j: variables with indices, help, unknown and malformed lines); every printed pause '
                '(kind, address, ops executed) and read result, the final termination, the device-side output and the memory '
                'after the session must equal a debugger model on the reference machine, which without quit equals the '
                'undebugged run. The same model judges sessions driven through the fj command itself (run-only with -d FILE, one-step with -d FILE, bare -d or none; -b/-B on labels and macro-start names; silent or not).',
        'note': 'the command grammar is transcribed from DEBUGGER_HELP; only the featured loop can be debugged',
    },
    {
        'property_id': 'C05', 'level': 'exploration', 'design_ref': 'DESIGN.md 4 C04/C05, 3.7',
        'technique': 'runtime monitoring: SYNC-point monitor reading every declared variable through the DeviceMemory hook, judged by a spec table transcribed from the macro documentation',
        'text': 'The real bit library runs on the real interpreter; at a SYNC op between macro applications the monitor device reads '
                'every cell of every declared variable (destinations, sources, cells beyond [:n], bystanders) and the branch '
                'marker and compares them with a spec table transcribed from the doc comments, then pokes the next operand '
                'values. Single-macro programs enumerate all operand values when the macro reads <= 16 bits (all 65536 pairs of '
                '8-bit operands) and sample boundary-biased values above; sequence programs of 4-40 random applications over '
                'shared variables check composition; widths 16/32/64; a slice of every program is re-run on the pure-Python loop. Every variable has a second label; an operand pair bound to one variable is spelled with both names.',
        'note': 'the spec table is my transcription of the doc comments; undocumented operand aliasing is not generated; '
                'bit.address_and_variable_xor and internal helper macros are not covered',
    },
    {
        'property_id': 'C03', 'level': 'exploration', 'design_ref': 'DESIGN.md 4 C03, 3.6, Appendix B',
        'technique': 'runtime monitoring: differential of assembled images - macro program vs the hand-inlined program produced from the same binding-explicit AST',
        'text': 'Macro programs are generated from an AST in which every identifier occurrence carries the binding it is meant to '
                'denote (parameter, @ local, global, rep iterator, constant); spellings come from a six-name pool so caller and '
                'callee identifiers collide at every depth. The macro rendering (call DAGs, arity overloading, nested namespaces '
                'with dotted/relative names, reps with counts 0..5, 1-3 files) and the hand-inlined rendering (arguments '
                'substituted in parentheses, locals renamed apart, reps unrolled) must assemble to identical segments and words. Namespaces up to four deep with k-dot relative names; continuation lines and CRLF files. Every 6th program is assembled behind a cached stl prefix; macros that pad by a parameter; namespace constants and late constants spelled like parameters; one guarded compile-time recursion (120-850 levels) per shard. Call chains exactly on a configured max_recursion_depth, and globals of enclosing namespaces spelled like a macro\'s own names, are generated too.',
        'note': 'relies on the scoping rules of DESIGN Appendix B; extern (>) labels and label-valued parameters are not generated; '
                'the inlined side is itself judged by C02',
    },
    {
        'property_id': 'C16', 'level': 'exploration', 'design_ref': 'DESIGN.md 4 C16',
        'technique': 'runtime monitoring: model-predicted label names and addresses compared with the saved debug table; set-model oracle for breakpoint resolution; save/load round trip',
        'text': 'For generated macro and primitive programs every source label (top-level, namespaced, macro-local in every '
                'expansion incl. rep iterations) must appear in the saved table under its expansion-path name with the address of '
                'the statement it precedes (taken from the hand-inlined program), and no undeclared user-level name may appear; '
                'random label dictionaries must survive save/load unchanged and in order; breakpoints by address, exact label '
                'and substring must resolve to exactly the model set. Generated sources include backslash-newline continuations, CRLF files, namespaces four deep and k-dot relative names; a 10-70 MiB label table goes through save/load and breakpoint resolution. Every 3rd program is assembled twice (whole tables must agree), every 5th over the output files of the same sources at another width; the address where each expansion starts must carry a label; the stl prefix runs under alternating short names and every path tag must be a file of the current assembly.',
        'note': 'assembler bookkeeping names (:start:, :wflips:, wflip-area markers) are ignored',
    },
    {
        'property_id': 'C08', 'level': 'exploration', 'design_ref': 'DESIGN.md 4 C08, 3.7',
        'technique': 'runtime monitoring: SYNC-point monitor with a word-level model of buffer cells, pointer variables, sp, stack and predicted control-flow ids, read through the DeviceMemory hook',
        'text': 'The real pointer/stack/call library runs on the real interpreter; three sub-buffers (next to the code, a middle '
                'segment, a segment near the top of the address space) make cell addresses differ in nearly every hex digit. At '
                'every SYNC the monitor compares the flip and jump word of EVERY buffer cell, stack cell, variable, pointer '
                'variable and sp with a model transcribed from the `like: *ptr = src` doc formulas, and the 10-bit id each SYNC '
                'spells with the predicted next sync point (call/return, fcall/fret, ptr_jump). Pair programs walk all ordered '
                'pairs of target cells through two pointers, sequence programs mix 10-40 applications with balanced push/pop, '
                'call nests go to depth 6; hex at w=32/64, bit pointers at w=16/32/64; slices re-run on the pure-Python loop. Before the first push every cell of the initialised stack must be an empty data cell (documented capacity). The quick tier takes an odd and an even length per vector macro; variables exactly as long as the macro uses are followed by cells holding code addresses.',
        'note': 'documented-as-assumed-away usage (empty-stack pops, unaligned pointers, overlapping operands) is never generated; '
                'library scratch registers and the return-register content after fcall/fret are not compared',
    },
    {
        'property_id': 'C04', 'level': 'exploration', 'design_ref': 'DESIGN.md 4 C04/C05, 3.7',
        'technique': 'runtime monitoring: SYNC-point monitor reading every declared variable AND the library shared state (carries, table registers) through the DeviceMemory hook, judged by a spec table transcribed from the macro documentation',
        'text': 'The real hex library runs on the real interpreter (w=32/64, after hex.init); at a SYNC op between macro '
                'applications the monitor reads every cell of every declared variable and the library state the macros share '
                '(add/sub carry, mul registers, table result/return registers) and compares them and the branch marker with a '
                '79-entry spec table transcribed from the doc comments (memory, logics, math_basic, math incl. shifted/constant '
                'forms, shifts, cond_jumps, mul, div/idiv with every rem_opt). Single-macro programs enumerate every operand '
                'value when the macro reads <= 16 bits (all 65536 digit pairs for n=2) and sample boundary-biased values above; '
                'sequence programs of random applications over shared variables check that no carry or table state leaks; '
                'slices are re-run on the pure-Python loop. Also with the documented standalone inits (hex.tables.init_shared + the required table) at drawn positions incl. w=16, and with a carry left set by an earlier documented macro (every other macro must still compute its formula). Sequence programs have reserved space between applications and define user constants spelled like the library\'s parameters. Loop-based macros (hex.mul, hex.div) also run at lengths 7-17.',
        'note': 'spec table built by a sub-agent under the rule "transcribe the documentation, never the body", reviewed; '
                'inputs the documentation leaves open (dirty undeclared state for table-using macros, overflowing idiv) are '
                'counted as unspecified; w=16 is not exercised (hex.init does not fit)',
    },
    {
        'property_id': 'C09', 'level': 'exploration', 'design_ref': 'DESIGN.md 4 C09, 3.7',
        'technique': 'runtime monitoring: model-driven IO device (knows the next application, predicts its exact output bit string and input consumption) + SYNC-point variable monitor; reference renderers/parsers transcribed from the documentation',
        'text': 'The real input/print/cast/string library runs on the real interpreter (w=32/64). The device is model-driven: at each '
                'SYNC it derives from the spec the exact output bits, the input the application may consume, the operand updates and '
                'the branch, compares every output bit as it arrives, counts marker bits, checks the input-bit count and every cell '
                'of every variable and byte buffer; a witness flip before each SYNC exposes surplus output. Values are exhaustive up '
                'to 12 read bits (16 thorough) and boundary-biased above (0, 10^k+-1, 2^k+-1, most negative), sizes to 16 hexes / '
                '64 bits; inputs cover numerals of every length, invalid bytes at every position, empty input, missing terminators '
                'and EOF in mid-token (re-runs with truncated input must end with cause EOF inside that application). Buffers of 36 bytes (lengths around 16/32), decimal printing up to 200 bits / 49 hexes.',
        'note': 'monitor and spec built by a sub-agent under the rule "transcribe the documentation, never the body", reviewed; where '
                'the documentation is silent (destination on the error branch, digit-less numerals) the aspect is unspecified',
    },
]

_TODO = 'check not built yet in this session (work in progress; see DESIGN.md for the planned monitor)'
NOT_APPLICABLE = [{'property_id': f'C{i:02d}', 'reason': _TODO} for i in range(1, 21)
                  if f'C{i:02d}' not in {c['property_id'] for c in CHECKS}]
