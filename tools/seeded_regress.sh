#!/bin/sh
# usage: tools/seeded_regress.sh [ID-n ...]   re-runs every stored seeded change (or the named ones) against the check of its
# property on a scratch copy of /repo; prints one line per change. rc=1 = reported (wanted), rc=0 = MISSED, rc=3 = patch stale.
cd /verif
LIST="${*:-$(ls seeded)}"
for S in $LIST; do
  ID=$(echo "$S" | cut -d- -f1)
  R=$(tools/mutant.sh "seeded/$S/patch.diff" "$ID" 2>&1 | tail -1)
  echo "SEEDED $S :: $R"
done
