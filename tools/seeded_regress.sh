#!/bin/sh
# usage: tools/seeded_regress.sh [ID-n ...]   re-runs every stored seeded change (or the named ones) against the check of its
# property on a scratch copy of /repo; prints one line per change. rc=1 = reported (wanted), rc=0 = MISSED, rc=3 = patch stale.
# seeded/<ID-n>/regress.conf may set PATCH= (a rebased patch), TIER=, ONLY_KIND= (partial thorough run of one shard kind) and
# CHECK= (the sibling check whose property the change really violates, see DESIGN 10.2 round D).
cd /verif
LIST="${*:-$(ls -d seeded/*/ | xargs -n1 basename)}"
for S in $LIST; do
  ID=$(echo "$S" | cut -d- -f1)
  PATCH=patch.diff; TIER=quick; ONLY_KIND=; CHECK=$ID
  [ -f "seeded/$S/regress.conf" ] && . "seeded/$S/regress.conf"
  R=$(VERIF_ONLY_KIND="$ONLY_KIND" tools/mutant.sh "seeded/$S/$PATCH" "$CHECK" "$TIER" 2>&1 | tail -1)
  echo "SEEDED $S :: $R"
done
