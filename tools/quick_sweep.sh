#!/bin/sh
# usage: tools/quick_sweep.sh <seed>...   quick tier of every check in MANIFEST.json at each seed (evidence redirected)
./setup.sh >/dev/null 2>&1
IDS=$(/venv/bin/python -c "import json;print(' '.join(c['property_id'] for c in json.load(open('MANIFEST.json'))['checks']))")
for SEED in "$@"; do
  for ID in $IDS; do
    START=$(date +%s)
    VERIF_SEED=$SEED VERIF_EVIDENCE_DIR=$PWD/evidence-sweep VERIF_REPLAY_DIR=$PWD/replays-sweep ./check "$ID" --tier quick > "quick-$ID-$SEED.log" 2>&1
    RC=$?
    echo "QUICK $ID seed=$SEED rc=$RC wall=$(( $(date +%s) - START ))s :: $(grep -E '^(VIOLATION|INCONCLUSIVE)|^  key=' quick-$ID-$SEED.log | head -3 | cut -c1-220 | tr '\n' '|')"
  done
done
