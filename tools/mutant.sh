#!/bin/sh
# usage: tools/mutant.sh <patch.diff> <CHECK-ID> [tier]
# Applies a property-breaking patch to a SCRATCH COPY of /repo (never /repo itself), runs the check against the
# copy, prints the verdict line and removes the copy. Evidence/replays of the mutant run go to a scratch dir.
set -e
PATCH="$(readlink -f "$1")"; ID="$2"; TIER="${3:-quick}"
SCRATCH="$(mktemp -d /var/tmp/fjmut.XXXXXX)"
trap 'rm -rf "$SCRATCH"' EXIT
rsync -a --exclude .git --exclude '*.so' --exclude build --exclude tests/compiled /repo/ "$SCRATCH/repo/"
( cd "$SCRATCH/repo" && git init -q . >/dev/null 2>&1 && git apply --whitespace=nowarn "$PATCH" ) || { echo "PATCH-DOES-NOT-APPLY $PATCH"; exit 3; }
cd /verif
set +e
VERIF_REPO="$SCRATCH/repo" VERIF_EVIDENCE_DIR="$SCRATCH/evidence" VERIF_REPLAY_DIR="$SCRATCH/replays" ./check "$ID" --tier "$TIER" > "$SCRATCH/out.txt" 2>&1
RC=$?
set -e
grep -E "^(VIOLATION|HELD|INCONCLUSIVE|KNOWN-FINDING)|^  key=" "$SCRATCH/out.txt" | cut -c1-260 | head -8
echo "MUTANT-RESULT check=$ID patch=$(basename "$PATCH") rc=$RC"
