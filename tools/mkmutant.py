#!/venv/bin/python
"""tools/mkmutant.py <name> <repo-relative-file> <old-text> <new-text>  -> mutants/<name>.diff (a proper unified diff against /repo)."""
import difflib
import sys

name, rel, old, new = sys.argv[1:5]
text = open(f'/repo/{rel}').read()
assert text.count(old) >= 1, 'old text not found'
mutated = text.replace(old, new, 1)
diff = difflib.unified_diff(text.splitlines(True), mutated.splitlines(True), f'a/{rel}', f'b/{rel}')
open(f'/verif/mutants/{name}.diff', 'w').write(''.join(diff))
print('written', name)
