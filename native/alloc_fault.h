/*
 * Force-included (-include) in front of _fjcore.c for the `allocfault` build variant.
 * Routes the extension's own malloc/calloc/realloc through counting wrappers that return
 * NULL on the N-th call, N taken from the environment variable FJVERIF_ALLOC_FAIL_AT
 * (1-based; unset or 0 = never fail).  FJVERIF_ALLOC_FAIL_EVERY=1 keeps failing from the
 * N-th call on.  The counter is readable/resettable through fjverif_alloc_calls (exported).
 * No source edit of the repository is involved.
 */
#ifndef FJVERIF_ALLOC_FAULT_H
#define FJVERIF_ALLOC_FAULT_H
#include <stdlib.h>
#include <string.h>

__attribute__((visibility("default"))) unsigned long long fjverif_alloc_calls = 0;
__attribute__((visibility("default"))) unsigned long long fjverif_alloc_failures = 0;

static int fjverif_should_fail(void)
{
    const char* at = getenv("FJVERIF_ALLOC_FAIL_AT");
    unsigned long long n;
    fjverif_alloc_calls++;
    if (!at || !at[0]) {
        return 0;
    }
    n = strtoull(at, NULL, 10);
    if (n == 0) {
        return 0;
    }
    if (fjverif_alloc_calls == n) {
        fjverif_alloc_failures++;
        return 1;
    }
    {
        const char* every = getenv("FJVERIF_ALLOC_FAIL_EVERY");
        if (every && every[0] == '1' && fjverif_alloc_calls > n) {
            fjverif_alloc_failures++;
            return 1;
        }
    }
    return 0;
}

static void* fjverif_malloc(size_t size)
{
    return fjverif_should_fail() ? NULL : malloc(size);
}
static void* fjverif_calloc(size_t n, size_t size)
{
    return fjverif_should_fail() ? NULL : calloc(n, size);
}
static void* fjverif_realloc(void* p, size_t size)
{
    return fjverif_should_fail() ? NULL : realloc(p, size);
}

#define malloc(s) fjverif_malloc(s)
#define calloc(n, s) fjverif_calloc((n), (s))
#define realloc(p, s) fjverif_realloc((p), (s))
#endif
