"""
Run one image on one engine configuration through the PUBLIC boundary (fjm_run.run) and
return the observation tuple (DESIGN 3.5).  Used by C01 C07 C11 C18 C19.

Engine configuration = {'engine': 'featured'|'fast'|'native', 'flat_max_words': int|None,
'flat_env': int|None, 'no_flat': bool, 'alloc_fail': bool, 'measure': bool, 'ring': int|None,
'version': 0..3}
"""

from __future__ import annotations

import os
import signal
import tempfile
from pathlib import Path
from typing import Any, Callable, Dict, Iterable, List, Optional, Tuple

_ENV_KEYS = ('FLIPJUMP_NO_NATIVE', 'FLIPJUMP_NO_FLAT', 'FLIPJUMP_FLAT_MAX_WORDS', 'FLIPJUMP_MEASURE_SPECULATION',
             'FLIPJUMP_TEST_FLAT_ALLOC_FAIL')

_tmpdir: Optional[str] = None
_ASYNC_SIGNALS = {signal.SIGALRM, signal.SIGINT}


def tmpdir() -> Path:
    global _tmpdir
    if _tmpdir is None or not os.path.isdir(_tmpdir):
        _tmpdir = tempfile.mkdtemp(prefix='fjverif-')
    return Path(_tmpdir)


def cleanup_tmpdir() -> None:
    global _tmpdir
    if _tmpdir and os.path.isdir(_tmpdir):
        import shutil

        shutil.rmtree(_tmpdir, ignore_errors=True)
    _tmpdir = None


def segment_data(case: Dict[str, Any]) -> List[Tuple[int, int, List[int]]]:
    """(start, length, data words) per segment; data is trimmed to the last non-zero word,
    rounded up to an even count (the zero tail is represented by segment_length > data_length)."""
    mem = {int(k): int(v) for k, v in case['mem']}
    out = []
    keys = sorted(mem)
    import bisect

    for start, length in case['segments']:
        lo = bisect.bisect_left(keys, start)
        hi = bisect.bisect_left(keys, start + length)
        if lo == hi:
            out.append((start, length, []))
            continue
        last = keys[hi - 1]
        n = last - start + 1
        n += n % 2
        n = min(n, length)
        data = [0] * n
        for k in keys[lo:hi]:
            data[k - start] = mem[k]
        out.append((start, length, data))
    return out


def write_case(case: Dict[str, Any], path: Path, version: int = 1, lzma_preset: int = 0) -> None:
    from flipjump.fjm.fjm_consts import FJMVersion
    from flipjump.fjm.fjm_writer import Writer

    writer = Writer(path, case['w'], FJMVersion(version), lzma_preset=lzma_preset)
    pieces = segment_data(case)
    # the order of segments inside the file is not part of the image: shuffle it (deterministically per case), so that
    # readers/engines that silently rely on ascending order are exposed
    import hashlib
    import random as _random

    _random.Random(int(hashlib.sha256(repr(case['segments']).encode()).hexdigest()[:8], 16) + version).shuffle(pieces)
    for start, length, data in pieces:
        data_start = writer.add_data(list(data))
        writer.add_segment(start, length, data_start, len(data))
    writer.write_to_file()


class RunTimeout(Exception):
    pass


def make_recording_device():
    """built lazily so that flipjump is imported from the tree under test first."""
    from flipjump.interpreter.io_devices.IODevice import IODevice
    from flipjump.utils.exceptions import IOReadOnEOF

    class RecordingDevice(IODevice):
        """feeds input bits lsb-first, records every call (before acting and after returning),
        keeps the DeviceMemory handed over by the interpreter, and can run a scripted action
        (memory access / raise) at a chosen IO call index."""

        def __init__(self, input_bytes: bytes = b'', on_call: Optional[Callable[['RecordingDevice', str, int], None]] = None,
                     atomic: bool = False):
            # atomic=True: asynchronous signals are held off while the device updates its own record, so the
            # monitor's state cannot be torn by the interrupt it is observing (the monitor must not be the race)
            self._atomic = atomic
            self._in = input_bytes
            self._pos = 0
            self.log: List[Tuple[str, int]] = []
            self.memory = None
            self.calls = 0
            self.on_call = on_call
            self.attach_count = 0

        def attach_memory(self, device_memory) -> None:  # type: ignore[no-untyped-def]
            self.memory = device_memory
            self.attach_count += 1
            if self.on_call is not None and getattr(self, 'call_on_attach', False):
                self.on_call(self, 'a', -1)   # a device may already read and patch the program when it is attached

        def read_bit(self) -> bool:
            if self._atomic:
                signal.pthread_sigmask(signal.SIG_BLOCK, _ASYNC_SIGNALS)
                try:
                    return self._read_bit()
                finally:
                    signal.pthread_sigmask(signal.SIG_UNBLOCK, _ASYNC_SIGNALS)
            return self._read_bit()

        def write_bit(self, bit: bool) -> None:
            if self._atomic:
                signal.pthread_sigmask(signal.SIG_BLOCK, _ASYNC_SIGNALS)
                try:
                    return self._write_bit(bit)
                finally:
                    signal.pthread_sigmask(signal.SIG_UNBLOCK, _ASYNC_SIGNALS)
            return self._write_bit(bit)

        def _read_bit(self) -> bool:
            index = self.calls
            self.calls += 1
            if self.on_call is not None:
                forced = self.on_call(self, 'r', index)
                if forced is not None:
                    return forced  # a scripted (possibly non-bool) reply: not logged, the script knows it
            if self._pos >= 8 * len(self._in):
                self.log.append(('r', -1))
                raise IOReadOnEOF('recording device: end of input')
            bit = (self._in[self._pos >> 3] >> (self._pos & 7)) & 1
            self._pos += 1
            self.log.append(('r', bit))
            return bool(bit)

        def _write_bit(self, bit: bool) -> None:
            index = self.calls
            self.calls += 1
            if self.on_call is not None:
                self.on_call(self, 'w', index)
            self.log.append(('w', int(bool(bit))))

        def get_output(self, *, allow_incomplete_output: bool = False) -> bytes:
            bits = [b for k, b in self.log if k == 'w']
            return bytes(sum(bits[i + k] << k for k in range(8)) for i in range(0, len(bits) - len(bits) % 8, 8))

    return RecordingDevice


def apply_env(config: Dict[str, Any]) -> None:
    for key in _ENV_KEYS:
        os.environ.pop(key, None)
    engine = config.get('engine', 'native')
    if engine == 'fast':
        os.environ['FLIPJUMP_NO_NATIVE'] = '1'
    if config.get('no_flat'):
        os.environ['FLIPJUMP_NO_FLAT'] = '1'
    if config.get('flat_env') is not None:
        os.environ['FLIPJUMP_FLAT_MAX_WORDS'] = str(config['flat_env'])
    if config.get('measure'):
        os.environ['FLIPJUMP_MEASURE_SPECULATION'] = '1'
    if config.get('alloc_fail'):
        os.environ['FLIPJUMP_TEST_FLAT_ALLOC_FAIL'] = '1'


def clear_env() -> None:
    for key in _ENV_KEYS:
        os.environ.pop(key, None)


def _alarm_handler(signum, frame):  # type: ignore[no-untyped-def]
    raise KeyboardInterrupt('fjverif watchdog')


def run_engine(path: Path, config: Dict[str, Any], device: Any, watchdog_s: float = 20.0) -> Dict[str, Any]:
    """run through fjm_run.run; returns {'cause','ops','fault','ring','storage','exc',...}.
    a watchdog turns a non-terminating engine into a keyboard-interrupt termination whose
    op count can then be compared with the reference (a logical, not a wall-clock, verdict)."""
    from flipjump.interpreter import fjm_run

    apply_env(config)
    kwargs: Dict[str, Any] = {}
    if config.get('engine') == 'featured':
        kwargs['profile'] = True
    if config.get('ring') is not None:
        kwargs['last_ops_debugging_list_length'] = config['ring']
    if config.get('flat_max_words') is not None:
        kwargs['flat_max_words'] = config['flat_max_words']
    obs: Dict[str, Any] = {'exc': None}
    old = signal.signal(signal.SIGALRM, _alarm_handler)
    signal.setitimer(signal.ITIMER_REAL, watchdog_s)
    try:
        try:
            stats = fjm_run.run(path, io_device=device, **kwargs)
        finally:
            signal.setitimer(signal.ITIMER_REAL, 0)
            signal.signal(signal.SIGALRM, old)
            clear_env()
        obs.update(
            cause=str(stats.termination_cause),
            ops=int(stats.op_counter),
            fault=stats.memory_error_address,
            ring=None if stats.last_ops_addresses is None else [int(a) for a in stats.last_ops_addresses],
            storage=stats.storage_mode,
        )
    except KeyboardInterrupt:
        obs.update(cause='harness-interrupt', ops=-1, fault=None, ring=None, storage=None)
    except BaseException as exc:  # noqa: B902 - the exception IS the observation
        obs.update(cause='exception', ops=-1, fault=None, ring=None, storage=None,
                   exc={'type': type(exc).__name__, 'mro': [c.__name__ for c in type(exc).__mro__], 'text': str(exc)[:300],
                        'cause_type': type(exc.__cause__).__name__ if exc.__cause__ is not None else None})
        obs['exc_obj'] = exc
    return obs


def read_words(device: Any, words: Iterable[int]) -> Dict[int, int]:
    mem = device.memory
    return {int(wd): int(mem.read_word(int(wd))) for wd in words}


def config_label(config: Dict[str, Any]) -> str:
    parts = [config.get('engine', 'native')]
    for key in ('flat_max_words', 'flat_env', 'ring', 'version'):
        if config.get(key) is not None:
            parts.append(f'{key}={config[key]}')
    for key in ('no_flat', 'alloc_fail', 'measure'):
        if config.get(key):
            parts.append(key)
    return ','.join(parts)
