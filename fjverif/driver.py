"""
The check driver: plan shards -> run each in its own subprocess (never multiprocessing.Pool:
children may die, that is what C11 looks for) -> merge -> verdict + evidence.

Verdicts (DESIGN 2): exit 0 held / exit 1 VIOLATION / exit 2 INCONCLUSIVE.
"""

from __future__ import annotations

import argparse
import importlib
import json
import os
import shutil
import subprocess
import sys
import tempfile
import time
from concurrent.futures import ThreadPoolExecutor
from pathlib import Path
from typing import Any, Dict, List, Optional

from fjverif import findings
from fjverif.common import (EVIDENCE_DIR, PYTHON, REPLAY_DIR, REPO_ROOT, VERIF_ROOT, DEPS_DIR, jdump, seed_value)

MAX_PARALLEL = int(os.environ.get('VERIF_JOBS', '16'))
SHARD_RSS_LIMIT_MB = int(os.environ.get('VERIF_SHARD_RSS_MB', '12000'))


def load_check(prop: str):
    return importlib.import_module(f'fjverif.checks.{prop.lower()}')


def worker_env(extra: Optional[Dict[str, str]] = None) -> Dict[str, str]:
    env = dict(os.environ)
    env['PYTHONPATH'] = os.pathsep.join([str(REPO_ROOT), str(VERIF_ROOT), str(DEPS_DIR)])
    env.setdefault('PYTHONHASHSEED', '0')
    env['VERIF_REPO'] = str(REPO_ROOT)
    env['PYTHONDONTWRITEBYTECODE'] = '1'
    for key in ('FLIPJUMP_NO_NATIVE', 'FLIPJUMP_NO_FLAT', 'FLIPJUMP_FLAT_MAX_WORDS', 'FLIPJUMP_MEASURE_SPECULATION',
                'FLIPJUMP_TEST_FLAT_ALLOC_FAIL'):
        env.pop(key, None)
    if extra:
        env.update(extra)
    return env


def merge_counters(into: Dict[str, Any], other: Dict[str, Any]) -> None:
    for key, value in other.items():
        if isinstance(value, dict):
            merge_counters(into.setdefault(key, {}), value)
        elif isinstance(value, (int, float)) and not isinstance(value, bool):
            into[key] = into.get(key, 0) + value
        elif isinstance(value, list):
            into.setdefault(key, [])
            for item in value:
                if item not in into[key] and len(into[key]) < 64:
                    into[key].append(item)
        else:
            into[key] = value


def run_shard_subprocess(prop: str, spec: Dict[str, Any], workdir: Path, index: int) -> Dict[str, Any]:
    spec_path = workdir / f'shard{index}.spec.json'
    out_path = workdir / f'shard{index}.out.json'
    journal_path = workdir / f'shard{index}.journal.json'
    log_path = workdir / f'shard{index}.log'
    with open(spec_path, 'w') as f:
        json.dump(spec, f)
    extra = {k: str(v).replace('{workdir}', str(workdir)).replace('{shard}', str(index))
             for k, v in (spec.get('env') or {}).items()}
    env = worker_env(extra)
    env['FJVERIF_WORKDIR'] = str(workdir)
    env['FJVERIF_SHARD'] = str(index)
    timeout = spec.get('timeout_s', 1500)
    started = time.time()
    cmd = [PYTHON, '-m', 'fjverif.worker', prop, str(spec_path), str(out_path), str(journal_path)]
    # the worker runs under two budgets: wall-clock time and resident memory (a runaway allocation must end as an inconclusive
    # shard with its journal, not as the kernel's OOM killer picking processes)
    rc: Any = None
    peak_mb = 0
    with open(log_path, 'wb') as log:
        proc = subprocess.Popen(cmd, stdout=log, stderr=subprocess.STDOUT, env=env, cwd=str(VERIF_ROOT))
        while True:
            try:
                rc = proc.wait(timeout=0.5)
                break
            except subprocess.TimeoutExpired:
                pass
            if time.time() - started > timeout:
                proc.kill()
                proc.wait()
                rc = None
                break
            try:
                with open(f'/proc/{proc.pid}/status') as status:
                    rss_mb = next((int(line.split()[1]) // 1024 for line in status if line.startswith('VmRSS:')), 0)
            except OSError:
                rss_mb = 0
            peak_mb = max(peak_mb, rss_mb)
            if rss_mb > SHARD_RSS_LIMIT_MB:
                proc.kill()
                proc.wait()
                rc = 'memory'
                break
    result: Dict[str, Any] = {'shard': index, 'rc': rc, 'wall_s': time.time() - started, 'workdir': str(workdir), 'peak_rss_mb': peak_mb}
    if out_path.exists():
        with open(out_path) as f:
            result.update(json.load(f))
        result['completed'] = True
    else:
        result['completed'] = False
        result['journal'] = json.load(open(journal_path)) if journal_path.exists() else None
        try:
            result['log_tail'] = open(log_path, 'rb').read()[-3000:].decode('utf-8', 'replace')
        except OSError:
            result['log_tail'] = ''
    return result


def main(argv: Optional[List[str]] = None) -> int:
    parser = argparse.ArgumentParser(prog='check')
    parser.add_argument('property')
    parser.add_argument('--tier', default=os.environ.get('VERIF_TIER', 'quick'), choices=['quick', 'thorough'])
    parser.add_argument('--replay', default=None)
    parser.add_argument('--keep', action='store_true', help='keep the shard work directory')
    args = parser.parse_args(argv)
    prop = args.property.upper()
    check = load_check(prop)
    seed = seed_value()
    started = time.time()

    if args.replay:
        return replay(prop, check, Path(args.replay))

    try:
        specs = check.plan(args.tier, seed)
    except Exception as exc:  # planning failed -> the monitor cannot be applied
        print(f'INCONCLUSIVE property={prop} reason=plan failed: {exc!r}')
        return 2
    only = os.environ.get('VERIF_ONLY_KIND')
    if only:  # a PARTIAL run for debugging / seeded-change regression: it can report a violation, never "held"
        specs = [s for s in specs if s.get('kind', '') == only]
    workdir = Path(tempfile.mkdtemp(prefix=f'fjverif-{prop}-'))
    try:
        with ThreadPoolExecutor(max_workers=MAX_PARALLEL) as pool:
            results = list(pool.map(lambda item: run_shard_subprocess(prop, item[1], workdir, item[0]), enumerate(specs)))
        return conclude(prop, check, args.tier, seed, specs, results, started, workdir)
    finally:
        if not args.keep:
            shutil.rmtree(workdir, ignore_errors=True)
        else:
            print(f'work directory kept: {workdir}')


def conclude(prop: str, check: Any, tier: str, seed: int, specs: List[Dict[str, Any]], results: List[Dict[str, Any]],
             started: float, workdir: Optional[Path] = None) -> int:
    merged: Dict[str, Any] = {}
    violations: List[Dict[str, Any]] = []
    samples: List[Any] = []
    hashes = set()
    inconclusive: List[str] = []
    evaluations = 0
    distinct_extra = 0
    if os.environ.get('VERIF_VERBOSE'):
        for spec, res in zip(specs, results):
            print(f'  shard {res["shard"]} kind={spec.get("kind")} rc={res["rc"]} wall={res["wall_s"]:.1f}s peak_rss={res.get("peak_rss_mb")}MB')
    for spec, res in zip(specs, results):
        if not res.get('completed'):
            crash = getattr(check, 'shard_crash', None)
            handled = crash(spec, res) if crash else None
            if handled is not None:
                violations.append(handled)
            else:
                why = 'timed out' if res['rc'] is None else f'exceeded the memory budget of {SHARD_RSS_LIMIT_MB} MB and was stopped' \
                    if res['rc'] == 'memory' else f'exited {res["rc"]} without a result'
                inconclusive.append(f'shard {res["shard"]} {why}: {res.get("log_tail", "")[-400:]!r}')
            continue
        merge_counters(merged, res.get('counters', {}))
        violations.extend(res.get('violations', []))
        for s in res.get('samples', []):
            if len(samples) < 12:
                samples.append(s)
        hashes.update(res.get('hashes', []))
        evaluations += int(res.get('evaluations', 0))
        distinct_extra += int(res.get('distinct_extra', 0))  # distinct cases counted inside the shard (too many to ship as hashes)
        inconclusive.extend(res.get('inconclusive', []))

    post = getattr(check, 'post_process', None)
    if post is not None and workdir is not None:
        try:
            post(workdir, merged)
        except Exception as exc:  # noqa: B902
            inconclusive.append(f'post-processing failed: {exc!r}')
    final = check.finalize(tier, seed, merged, evaluations, len(hashes) + distinct_extra)
    inconclusive.extend(final.get('inconclusive', []))
    if os.environ.get('VERIF_ONLY_KIND'):
        inconclusive.append(f'partial run: only the {os.environ["VERIF_ONLY_KIND"]!r} shards were executed')

    known = findings.load()
    fresh: List[Dict[str, Any]] = []
    known_seen: Dict[str, Dict[str, Any]] = {}
    for v in violations:
        entry = findings.match(known, prop, v['key'])
        if entry is not None:
            known_seen.setdefault(v['key'], {'count': 0, 'what': v.get('what', ''), 'entry': entry})
            known_seen[v['key']]['count'] += 1
        else:
            fresh.append(v)

    coverage = dict(final.get('coverage', {}))
    coverage.setdefault('evaluations', evaluations)
    coverage.setdefault('distinct_nontrivial', len(hashes) + distinct_extra)
    coverage.setdefault('samples', samples or ['(no sample recorded)'])
    coverage['counters'] = merged
    coverage['known_findings_observed'] = {k: v['count'] for k, v in known_seen.items()}
    coverage['inconclusive'] = inconclusive
    coverage['shards'] = len(specs)
    evidence = {
        'property_id': prop,
        'tier': tier,
        'seed': seed,
        'level': getattr(check, 'LEVEL', 'exploration'),
        'coverage': coverage,
        'assumptions': final.get('assumptions', []),
        'wall_s': round(time.time() - started, 2),
        'violations': len(fresh),
    }
    jdump(evidence, EVIDENCE_DIR / f'{prop}.json')

    for key, info in sorted(known_seen.items()):
        print(f'KNOWN-FINDING: property={prop} {key} {info["entry"].get("what", info["what"])} (seen {info["count"]}x)')
    if fresh:
        REPLAY_DIR.mkdir(exist_ok=True)
        by_key: Dict[str, List[Dict[str, Any]]] = {}
        for v in fresh:
            by_key.setdefault(v['key'], []).append(v)
        for n, (key, group) in enumerate(sorted(by_key.items())):
            path = REPLAY_DIR / f'{prop}-{tier}-seed{seed}-{n}.json'
            jdump({'property': prop, 'key': key, 'what': group[0].get('what'), 'count': len(group),
                   'replay': group[0].get('replay'), 'more': [g.get('replay') for g in group[1:4]]}, path)
            print(f'VIOLATION property={prop} replay={path}')
            print(f'  key={key} count={len(group)} what={group[0].get("what")}')
        return 1
    if inconclusive:
        for reason in inconclusive[:10]:
            print(f'INCONCLUSIVE property={prop} reason={reason}')
        return 2
    print(f'HELD property={prop} tier={tier} seed={seed} evaluations={coverage["evaluations"]} '
          f'distinct_nontrivial={coverage["distinct_nontrivial"]} wall_s={evidence["wall_s"]}')
    return 0


def replay(prop: str, check: Any, path: Path) -> int:
    with open(path) as f:
        record = json.load(f)
    env = worker_env(getattr(check, 'REPLAY_ENV', None))
    spec = {'replay': record.get('replay'), 'key': record.get('key')}
    workdir = Path(tempfile.mkdtemp(prefix=f'fjverif-replay-{prop}-'))
    try:
        res = run_shard_subprocess(prop, {**spec, 'env': {k: v for k, v in env.items() if k not in os.environ}}, workdir, 0)
        if not res.get('completed'):
            print(f'replay crashed or timed out: rc={res["rc"]}\n{res.get("log_tail", "")}')
            print(f'VIOLATION property={prop} replay={path}')
            return 1
        if res.get('violations'):
            for v in res['violations']:
                print(f'  reproduced: key={v["key"]} what={v.get("what")}')
            print(f'VIOLATION property={prop} replay={path}')
            return 1
        print(f'replay of {path}: no violation reproduced')
        return 0
    finally:
        shutil.rmtree(workdir, ignore_errors=True)


if __name__ == '__main__':
    sys.exit(main())
