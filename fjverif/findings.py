"""
known_findings.jsonl: genuine defects recorded (not repaired), keyed by MECHANISM - never by
seed, hash or random values.  Read-only at run time.  A 'fixed' entry suppresses nothing.

line format: {"property": "C07", "key": "paged/stale-cache-bound", "status": "known"|"fixed",
              "what": "...", "commit": "<sha, for fixed>"}
"""

from __future__ import annotations

import json
from typing import Any, Dict, List, Optional

from fjverif.common import VERIF_ROOT

PATH = VERIF_ROOT / 'known_findings.jsonl'


def load() -> List[Dict[str, Any]]:
    entries: List[Dict[str, Any]] = []
    if PATH.exists():
        for line in PATH.read_text().splitlines():
            line = line.strip()
            if line and not line.startswith('#'):
                entries.append(json.loads(line))
    return entries


def match(entries: List[Dict[str, Any]], prop: str, key: str) -> Optional[Dict[str, Any]]:
    for entry in entries:
        if entry.get('status') == 'known' and entry.get('property') == prop and entry.get('key') == key:
            return entry
    return None
