"""
Image generator: grows a FlipJump program along its own execution (DESIGN 3.4).

A geometry (width + segment layout) is chosen first; then the reference machine runs in lazy
mode and every word it needs that has no value yet is chosen here from a weighted menu that
knows the machine state.  A program is kept only when the reference machine terminates on
it, so each kept case has a finite, model-derived outcome.
"""

from __future__ import annotations

import random
from typing import Any, Dict, List, Optional, Tuple

from fjverif.refmachine import CUT, RefMachine, Segments

MAGIC64 = 0xBB67AE8584CAA73B
PAGE = 1 << 14


def max_words(w: int) -> int:
    return (1 << w) // w


# ----------------------------------------------------------------------------- geometries
def _even(x: int) -> int:
    return x & ~1


def geom_compact(rng: random.Random, w: int) -> Dict[str, Any]:
    top = max_words(w)
    length = _even(min(top, rng.choice([6, 8, 16, 32, 64, 128, 400])))
    return {'segments': [(0, max(length, 4))], 'cuts': [rng.choice([1, 2, 3, 5, 8]), length - 1, length + 1]}


def geom_w8(rng: random.Random, w: int) -> Dict[str, Any]:
    segs = [(0, rng.choice([4, 6, 8, 12]))]
    if rng.random() < 0.7:
        start = _even(rng.randrange(segs[0][1] + 2, 30))
        length = _even(rng.randrange(2, 32 - start + 1))
        if length:
            segs.append((start, length))
    return {'segments': segs, 'cuts': [1, 2, 3, 5, segs[0][1], segs[0][1] + 1]}


def geom_gaps(rng: random.Random, w: int) -> Dict[str, Any]:
    top = max_words(w)
    segs = [(0, rng.choice([6, 8, 16, 40]))]
    cursor = segs[0][1]
    for _ in range(rng.randrange(1, 5)):
        gap = rng.choice([2, 2, 4, 10, 100, 998, 1000, 1002, 5000])
        length = rng.choice([2, 2, 4, 8, 20, 998, 1000, 1002, 1004, 3000])
        start = cursor + gap
        if start + length > min(top, 1 << 22):
            break
        segs.append((start, length))
        cursor = start + length
    cuts = [s + d for s, n in segs for d in (-1, 0, 1, n - 1, n, n + 1) if s + d > 0]
    return {'segments': segs, 'cuts': rng.sample(cuts, min(4, len(cuts)))}


def geom_page_edge(rng: random.Random, w: int) -> Dict[str, Any]:
    top = max_words(w)
    segs = [(0, rng.choice([8, 16, PAGE - 2, PAGE, PAGE + 2]))]
    for _ in range(rng.randrange(1, 4)):
        k = rng.randrange(1, 40)
        if k * PAGE + PAGE > top:
            continue
        kind = rng.randrange(4)
        if kind == 0:  # ends exactly at / around a page edge
            length = rng.choice([2, 4, 8, 20])
            start = k * PAGE + rng.choice([-2, 0, 2]) - length
        elif kind == 1:  # starts around a page edge
            start = k * PAGE + rng.choice([-2, 0, 2])
            length = rng.choice([2, 4, 8, 20])
        elif kind == 2:  # straddles the edge
            start = k * PAGE - rng.choice([2, 4, 6])
            length = rng.choice([4, 8, 12])
        else:  # two segments inside one page (only the first is in the fast valid range)
            start = k * PAGE + rng.choice([4, 100])
            length = rng.choice([2, 4, 8])
            segs.append((start + length + rng.choice([2, 4, 50]), rng.choice([2, 4, 8])))
        segs.append((start, length))
    segs = _dedupe(segs)
    return {'segments': segs, 'cuts': [PAGE - 1, PAGE, PAGE + 1, rng.choice([3, 5, 8])]}


def geom_cache_alias(rng: random.Random, w: int) -> Dict[str, Any]:
    """segments in pages p and p + 16*m (same direct-mapped cache slot), small, so that ops sit
    on the last words of a segment and flips land in the colliding page."""
    top_page = max_words(w) // PAGE
    segs = [(0, rng.choice([4, 6, 8, 16]))]
    base_pages = [0]
    for _ in range(rng.randrange(1, 4)):
        p = rng.choice(base_pages) + 16 * rng.randrange(1, 6)
        if p + 1 >= top_page:
            continue
        off = rng.choice([0, 2, 100, PAGE - 4, PAGE - 2])
        length = rng.choice([2, 4, 8])
        segs.append((p * PAGE + off, length))
        if rng.random() < 0.3:
            base_pages.append(p)
    if rng.random() < 0.5:  # another segment in page 0, outside its first valid range
        segs.append((segs[0][1] + rng.choice([2, 4, 20]), rng.choice([2, 4])))
    segs = _dedupe(segs)
    return {'segments': segs, 'cuts': [segs[0][1] - 1, segs[0][1] + 1, 5, 16 * PAGE + 1]}


def geom_window_cut(rng: random.Random, w: int) -> Dict[str, Any]:
    top = max_words(w)
    cut = rng.choice([3, 5, 7, 8, 9, 16, 37, 100, 1001, PAGE - 1, PAGE, PAGE + 1])
    cut = min(cut, top - 4)
    segs = [(0, _even(max(4, min(top, cut + rng.choice([-3, -1, 1, 3, 8])))))]
    cursor = segs[0][1]
    for _ in range(rng.randrange(0, 3)):
        start = cursor + rng.choice([2, 4, 10])
        length = rng.choice([2, 4, 8, 16])
        if start + length > top:
            break
        segs.append((start, length))
        cursor = start + length
    return {'segments': segs, 'cuts': [cut, cut - 1, cut + 1, cut + 2]}


def geom_far(rng: random.Random, w: int) -> Dict[str, Any]:
    top = max_words(w)
    segs = [(0, rng.choice([6, 8, 16, 32]))]
    for _ in range(rng.randrange(1, 4)):
        if w == 64:
            start = _even((1 << rng.randrange(23, 58)) + rng.choice([0, 2, PAGE - 2, rng.randrange(0, 1 << 20)]))
        else:
            start = _even(rng.randrange(1 << 14, top - 64))
        length = rng.choice([2, 4, 8, 16, 2000])
        if start + length <= top:
            segs.append((start, length))
            if rng.random() < 0.5:
                # a sibling in the same 2^14-word page with a gap in between (the gap is NOT memory)
                sib = start + length + rng.choice([2, 4, 10, 100])
                if sib + 4 <= top and sib // PAGE == start // PAGE:
                    segs.append((sib, rng.choice([2, 4, 8])))
    segs = _dedupe(segs)
    return {'segments': segs, 'cuts': [5, segs[0][1] + 1, 1 << 23, (1 << 23) + 2]}


def geom_top(rng: random.Random, w: int) -> Dict[str, Any]:
    top = max_words(w)
    segs = [(0, rng.choice([4, 6, 8, 16]) if top > 32 else rng.choice([4, 6, 8]))]
    length = rng.choice([2, 4, 6, 8])
    segs.append((top - length, length))
    segs = _dedupe(segs)
    return {'segments': segs, 'cuts': [5, segs[0][1] + 1]}


def geom_many(rng: random.Random, w: int) -> Dict[str, Any]:
    top = max_words(w)
    segs = [(0, 4)]
    cursor = 4
    for _ in range(rng.choice([30, 100, 300, 1200])):
        cursor += rng.choice([2, 2, 2, 4, 6])
        length = rng.choice([2, 2, 4])
        if cursor + length > top:
            break
        segs.append((cursor, length))
        cursor += length
    return {'segments': segs, 'cuts': [5, cursor // 2 + 1]}


def geom_many_pages(rng: random.Random, w: int) -> Dict[str, Any]:
    """tiny segments in MANY distinct 2^14-word pages (low ones, which are page-backed only when the flat window is off or
    small, and far ones): the engine's page table has to grow (several times) while the image loads, and the run comes back
    to pages inserted before a growth after they have left the small page cache."""
    top_page = max_words(w) // PAGE
    segs = [(0, rng.choice([4, 8, 16]))]
    pages = set()
    count = rng.choice([20, 33, 40, 70, 130, 260])
    far_base = (1 << rng.choice([30, 40, 50])) // PAGE if w == 64 else 0
    for k in range(count):
        if far_base and rng.random() < 0.6:
            p = far_base + rng.choice([k, 16 * k, rng.randrange(1, 1 << 16)])
        else:
            p = rng.choice([k + 1, 16 * (k + 1), rng.randrange(1, min(top_page - 1, 1 << 14))])
        if p in pages or p + 1 >= top_page:
            continue
        pages.add(p)
        off = rng.choice([0, 0, 2, 100, PAGE - 4, PAGE - 2])
        length = rng.choice([4, 6, 8]) if off < PAGE - 8 else PAGE - off
        segs.append((p * PAGE + off, length))
    return {'segments': segs, 'cuts': [5, 1000, 16 * PAGE + 1, PAGE]}


def geom_big_first(rng: random.Random, w: int) -> Dict[str, Any]:
    """a first segment of SEVERAL whole 2^14-word pages (code and data spread all over it: the kind of program that reserves a
    large table behind its code), and small segments at and above the default flat window (2^23 words): hybrid storage in which
    whole loaded pages lie inside the window, next to page-backed segments whose page numbers are round (multiples of 64 pages =
    2^20 words) or arbitrary."""
    top_page = max_words(w) // PAGE
    pages = rng.choice([1, 2, 3, 5, 9, 17, 30])
    segs = [(0, _even(pages * PAGE + rng.choice([0, 2, 100, PAGE // 2, PAGE - 2])))]
    window_page = (1 << 23) // PAGE
    chosen = set()
    for k in range(rng.choice([2, 5, 12, 30])):
        p = rng.choice([window_page + k, window_page + 64 * k, 64 * (k + 8), window_page, rng.randrange(window_page, min(top_page - 1, 1 << 13))])
        if p in chosen or p + 1 >= top_page:
            continue
        chosen.add(p)
        off = rng.choice([0, 0, 2, 100, PAGE - 4])
        segs.append((p * PAGE + off, rng.choice([4, 6, 8]) if off < PAGE - 8 else PAGE - off))
    return {'segments': segs, 'cuts': [segs[0][1], (pages + 1) * PAGE, 1 << 20, 5]}


def _dedupe(segs: List[Tuple[int, int]]) -> List[Tuple[int, int]]:
    """drop segments overlapping or touching out of range; keep (0, n) first."""
    out: List[Tuple[int, int]] = []
    for s, n in segs:
        if s < 0 or n <= 0 or s % 2 or n % 2:
            continue
        if any(s < s2 + n2 and s2 < s + n for s2, n2 in out):
            continue
        out.append((s, n))
    return out


GEOMETRIES = {
    'compact': (geom_compact, (8, 16, 32, 64)),
    'w8': (geom_w8, (8,)),
    'gaps': (geom_gaps, (16, 32, 64)),
    'page-edge': (geom_page_edge, (32, 64)),
    'cache-alias': (geom_cache_alias, (32, 64)),
    'window-cut': (geom_window_cut, (8, 16, 32, 64)),
    'far': (geom_far, (32, 64)),
    'top': (geom_top, (8, 16, 32, 64)),
    'magic': (geom_gaps, (64,)),
    'many': (geom_many, (16, 32, 64)),
    'many-pages': (geom_many_pages, (32, 64)),
    'big-first': (geom_big_first, (32, 64)),
}


# ----------------------------------------------------------------------------- the grower
class Grower:
    def __init__(self, rng: random.Random, w: int, geom_name: str, geom: Dict[str, Any], input_bytes: bytes,
                 target_ops: int):
        self.rng = rng
        self.w = w
        self.dw = 2 * w
        self.mask = (1 << w) - 1
        self.geom_name = geom_name
        self.seg = Segments(geom['segments'])
        self.initial: Dict[int, int] = {}
        self.target_ops = target_ops
        self.plan_key: Optional[Tuple[int, int]] = None
        self.plan_words: Dict[int, int] = {}
        self.executed: List[int] = []
        self.magic_bias = 0.25 if geom_name == 'magic' else (0.03 if w == 64 else 0.0)
        self.risk = rng.choice([1.0, 0.3, 0.08]) if geom_name != 'many-pages' else rng.choice([0.08, 0.02])
        self.machine = RefMachine(w, self.seg, {}, input_bytes, lazy=self._lazy, track=True)

    # -------------------------------------------------------- helpers
    def _in_seg_word(self) -> int:
        s, n = self.rng.choice(self.seg.list)
        r = self.rng.random()
        if r < 0.2:
            return s + n - 1
        if r < 0.3:
            return s
        if n > 64 and r < 0.8:  # stay near what is already populated
            return s + self.rng.randrange(0, 64)
        return s + self.rng.randrange(n)

    def _is_free(self, word: int, nwords: int = 2) -> bool:
        mem = self.machine.mem
        return word >= 2 and all((word + k) not in mem and self.seg.contains(word + k) for k in range(nwords))

    def _free_slot(self, tries: int = 12, segment: Optional[Tuple[int, int]] = None, nwords: int = 2) -> Optional[int]:
        """word address (even) of a slot whose nwords words are in-segment and still unassigned."""
        for _ in range(tries):
            s, n = segment if segment is not None else self.rng.choice(self.seg.list)
            if n < 2:
                continue
            r = self.rng.random()
            if r < 0.15:
                word = s + n - 2 * ((nwords + 1) // 2)
            elif r < 0.25:
                word = s
            elif n > 200 and r < 0.85:
                word = s + 2 * self.rng.randrange(0, 60)
            else:
                word = s + 2 * self.rng.randrange(n // 2)
            if self._is_free(word, nwords):
                return word
        return None

    def _outside_word(self) -> int:
        top = max_words(self.w)
        for _ in range(20):
            s, n = self.rng.choice(self.seg.list)
            cand = self.rng.choice([s + n, s + n + 1, s - 1, s - 2, self.rng.randrange(top)])
            if 0 <= cand < top and not self.seg.contains(cand):
                return cand
        return top - 1

    # -------------------------------------------------------- planning one op
    def _choose_flip(self, ip: int) -> int:
        rng, w, dw = self.rng, self.w, self.dw
        menu = [
            ('scratch', 30), ('out', 14 if self.seg.contains(2) else 0), ('own-flip', 4), ('own-jump', 8),
            ('code', 10), ('edge', 8), ('outside', 1 * self.risk), ('magic', 12 * self.magic_bias * self.risk), ('far', 8),
            ('executed', 8 * self.risk if self.executed else 0), ('input-word', 3 * self.risk),
        ]
        kind = rng.choices([k for k, _ in menu], [wt for _, wt in menu])[0]
        if self.geom_name == 'cache-alias' and rng.random() < 0.45:
            # a flip into a DIFFERENT page that maps to the same direct-mapped page-cache slot as the op's page
            own_page = (ip // w) // PAGE
            aliases = [(s, n) for s, n in self.seg.list if s // PAGE != own_page and (s // PAGE - own_page) % 16 == 0]
            if aliases:
                s, n = rng.choice(aliases)
                return (s + rng.randrange(n)) * w + rng.randrange(w)
        if kind == 'scratch':
            return self._in_seg_word() * w + rng.randrange(w)
        if kind == 'out':
            return dw + rng.randrange(2)
        if kind == 'own-flip':
            return (ip + rng.randrange(w)) & self.mask
        if kind == 'own-jump':
            return (ip + w + rng.randrange(w)) & self.mask
        if kind == 'code':
            slot = self._free_slot(4)
            if slot is not None:
                return (slot + rng.randrange(2)) * w + rng.randrange(w)
            return self._in_seg_word() * w + rng.randrange(w)
        if kind == 'executed':
            base = rng.choice(self.executed)
            return (base + rng.randrange(dw)) & self.mask
        if kind == 'edge':
            s, n = rng.choice(self.seg.list)
            return rng.choice([s, s + 1, s + n - 1, s + n - 2]) * w + rng.randrange(w)
        if kind == 'far':
            s, n = self.seg.list[-1] if rng.random() < 0.6 else rng.choice(self.seg.list)
            return (s + rng.randrange(min(n, 64))) * w + rng.randrange(w)
        if kind == 'outside':
            return self._outside_word() * w + rng.randrange(w)
        if kind == 'input-word':
            return 3 * w + rng.randrange(w)
        return MAGIC64 & self.mask  # 'magic'

    def _choose_jump(self, ip: int, f: int) -> int:
        rng, w, dw = self.rng, self.w, self.dw
        m = self.machine
        pressure = m.ops >= self.target_ops
        menu = [
            ('next', 40), ('unaligned', 9), ('odd-word', 6),
            ('straddle', 2.5 * self.risk if self.geom_name not in ('cache-alias', 'page-edge') else 7),
            ('revisit', 8 * self.risk if self.executed else 0),
            ('input', 9 * max(self.risk, 0.3) if self.seg.contains(3) else 0), ('far', 10),
            ('edge', 8), ('halt', 60 if pressure else 1 * self.risk), ('null', 12 if pressure else 0.5 * self.risk),
            ('outside', 12 if pressure else 0.4 * self.risk), ('magic', 8 * self.magic_bias * self.risk),
        ]
        kind = rng.choices([k for k, _ in menu], [wt for _, wt in menu])[0]
        target = self._jump_of_kind(kind, ip)
        if target is None and not pressure:
            for fallback in ('next', 'far', 'revisit'):
                target = self._jump_of_kind(fallback, ip)
                if target is not None:
                    break
        if target is None:
            target = ip  # halt (or a self-loop that flips itself)
        return target & self.mask

    def _jump_of_kind(self, kind: str, ip: int) -> Optional[int]:
        rng, w, dw = self.rng, self.w, self.dw
        if kind == 'next':
            slot = self._free_slot()
            return None if slot is None else slot * w
        if kind == 'far':
            slot = self._free_slot(6, segment=self.seg.list[-1] if rng.random() < 0.6 else rng.choice(self.seg.list))
            return None if slot is None else slot * w
        if kind == 'unaligned':
            slot = self._free_slot(nwords=3)
            return None if slot is None else slot * w + rng.choice([1, 1, w - 1, w // 2, rng.randrange(1, w)])
        if kind == 'odd-word':
            if rng.random() < 0.7:
                slot = self._free_slot(nwords=3)
                return None if slot is None else (slot + 1) * w
            slot = self._free_slot(nwords=4)
            return None if slot is None else (slot + 1) * w + rng.randrange(1, w)
        if kind == 'straddle':
            s, n = rng.choice(self.seg.list)
            choice = rng.randrange(4)
            if choice == 0:
                return (s + n - 1) * w  # flip word = last word, jump word = first word past the segment
            if choice == 1:
                return (s + n - 2) * w + rng.randrange(1, w)  # hi part of the jump word past the end
            if choice == 2:
                return (s + n - 1) * w + rng.randrange(1, w)
            edges = [e for seg_s, seg_n in self.seg.list
                     for e in range((seg_s // PAGE + 1) * PAGE, seg_s + seg_n, PAGE)][:8]
            if edges:  # an op whose two words straddle a page edge inside a segment
                edge = rng.choice(edges)
                return (edge - 1) * w + (rng.randrange(1, w) if rng.random() < 0.3 else 0)
            return (s + n - 1) * w
        if kind == 'edge':
            s, n = rng.choice(self.seg.list)
            for word in ([s + n - 2, s] if rng.random() < 0.6 else [s, s + n - 2]):
                if self._is_free(word):
                    return word * w
            return None
        if kind == 'revisit':
            cands = [a for a in self.executed if a != ip and a >= dw]
            return rng.choice(cands) if cands else None
        if kind == 'input':
            return rng.choice([dw, dw, 3 * w, dw + rng.randrange(1, w), 3 * w + w.bit_length(),
                               3 * w + rng.randrange(1, w.bit_length() + 1)])
        if kind == 'null':
            return rng.randrange(dw)
        if kind == 'outside':
            return self._outside_word() * w + (rng.randrange(w) if rng.random() < 0.3 else 0)
        if kind == 'magic':
            return MAGIC64
        return ip  # 'halt' / 'selfloop'

    def _plan(self, ip: int) -> None:
        w = self.w
        off = ip % w
        f = self._choose_flip(ip) & self.mask
        j = self._choose_jump(ip, f) & self.mask
        if j == (ip & self.mask) and ip <= f < ip + 2 * w:
            f = (self._in_seg_word() * w + self.rng.randrange(w)) & self.mask  # a plain halt
        if self.rng.random() < 0.012 * self.risk:  # a self-loop that flips its own words: must NOT halt
            f = (ip + self.rng.randrange(self.dw)) & self.mask
            j = ip & self.mask
        if ip + w <= f < ip + 2 * w:
            j ^= 1 << (f - ip - w)  # the op flips its own jump word: store the pre-flip value
        noise_lo = self.rng.getrandbits(off) if off else 0
        noise_hi = self.rng.getrandbits(w) if (off and self.rng.random() < 0.5) else 0
        combined = noise_lo | (f << off) | (j << (off + w)) | (noise_hi << (off + 2 * w))
        base = ip // w
        self.plan_words = {base + k: (combined >> (k * w)) & self.mask for k in range(3 if off else 2)}
        self.plan_key = (ip, self.machine.ops)

    def _data_value(self, word: int) -> int:
        """initial value of a word first touched as DATA (a flip target / the input word). it may be
        executed later, so most non-zero choices look like the matching half of an op."""
        r = self.rng.random()
        if r < self.magic_bias * 2:
            return MAGIC64 & self.mask
        low = word < 6
        if r < (0.1 if low else 0.4):
            return 0
        if r < (0.15 if low else 0.55):
            return self.rng.getrandbits(self.w)
        if word % 2 == 0:  # flip-word like: an in-segment bit address
            return (self._in_seg_word() * self.w + self.rng.randrange(self.w)) & self.mask
        slot = self._free_slot(3)
        if slot is None:
            return self.rng.getrandbits(self.w)
        return (slot * self.w) & self.mask & ~(1 << self.w.bit_length() if word == 3 else 0)

    # -------------------------------------------------------- the lazy callback
    def _lazy(self, m: RefMachine, word: int, role: str) -> int:
        ip = m.ip
        if self.plan_key != (ip, m.ops):
            self._plan(ip)
        if word in self.plan_words:
            value = self.plan_words[word]
        else:
            value = self._data_value(word)
            if role == 'flip' and self.rng.random() < 0.15:
                value ^= 1 << (m_flip_offset(m, word))
        value &= self.mask
        self.initial[word] = value
        return value

    # -------------------------------------------------------- grow
    def grow(self, max_ops: int) -> Optional[Dict[str, Any]]:
        m = self.machine
        while m.ops < max_ops:
            self.executed.append(m.ip)
            if len(self.executed) > 64:
                del self.executed[0]
            if m.step() is not None:
                break
        else:
            return None
        return {
            'w': self.w,
            'segments': [list(s) for s in self.seg.list],
            'mem': sorted([k, v] for k, v in self.initial.items() if v),
            'geom': self.geom_name,
        }


def m_flip_offset(m: RefMachine, word: int) -> int:
    """bit offset (inside `word`) the current op is about to flip. the machine is inside step();
    recompute the flip address the same way it did."""
    f = m.cur_f
    return f % m.w if f // m.w == word else 0


def generate_case(rng: random.Random, geom_name: Optional[str] = None, w: Optional[int] = None,
                  max_ops: int = 3000, tries: int = 30) -> Dict[str, Any]:
    """one kept case: {'w','segments','mem','input','geom','cuts'} (JSON-able)."""
    for _ in range(tries):
        name = geom_name or rng.choice(list(GEOMETRIES))
        fn, widths = GEOMETRIES[name]
        width = w if (w is not None and w in widths) else rng.choice(widths)
        geom = fn(rng, width)
        if not geom['segments'] or geom['segments'][0][0] != 0 or geom['segments'][0][1] < 2:
            continue
        input_bytes = bytes(rng.getrandbits(8) for _ in range(rng.choice([0, 0, 1, 1, 2, 3, 6])))
        target = rng.choice([1, 3, 8, 8, 20, 20, 50, 120, 400])
        if name == 'many-pages':
            target = rng.choice([50, 120, 400, 800])
        grower = Grower(rng, width, name, geom, input_bytes, target)
        case = grower.grow(max_ops)
        if case is None:
            continue
        case['input'] = input_bytes.hex()
        top = max_words(width)
        case['cuts'] = sorted({int(c) for c in geom.get('cuts', []) if 0 < int(c) < top + 2})
        return case
    raise RuntimeError('image generator could not produce a terminating program')


def reference_run(case: Dict[str, Any], ring_len: Optional[int] = None, max_ops: int = 1 << 22,
                  track: bool = True) -> RefMachine:
    m = RefMachine(case['w'], [tuple(s) for s in case['segments']], {int(k): int(v) for k, v in case['mem']},
                   bytes.fromhex(case['input']), ring_len=ring_len, track=track)
    m.run(max_ops)
    if m.cause == CUT:
        raise RuntimeError('reference machine did not terminate on a kept case')
    return m


def page_walk_case(rng: random.Random, w: int, n_pages: int, rounds: int) -> Dict[str, Any]:
    """a deterministic walk over MANY distinct 2^14-word pages, `rounds` times in different orders: every page holds one op
    per round plus two data words that ops in other pages flip. the engine's page table grows while the image loads, and the
    walk returns to pages inserted before each growth long after they left the page cache. built directly - the reference
    machine still supplies the expected outcome."""
    top_page = max_words(w) // PAGE
    pages: List[int] = []
    far_base = (1 << rng.choice([30, 40, 50])) // PAGE if w == 64 else 0
    while len(pages) < n_pages:
        if far_base and rng.random() < 0.6:
            p = far_base + rng.choice([len(pages), 16 * len(pages), rng.randrange(1, 1 << 16)])
        else:
            p = rng.choice([len(pages) + 1, 16 * (len(pages) + 1), rng.randrange(1, min(top_page - 1, 1 << 13))])
        if p not in pages and 0 < p < top_page - 1:
            pages.append(p)
    seg_len = 2 * rounds + 2
    starts = [p * PAGE + rng.choice([0, 0, 2, 100, PAGE - seg_len]) for p in pages]
    mem: Dict[int, int] = {}
    order = [(r, k) for r in range(rounds) for k in rng.sample(range(n_pages), n_pages)]
    mem[0] = (starts[0] + 2 * rounds) * w + 1                      # the first op flips a data bit ...
    mem[1] = (starts[order[0][1]] + 2 * order[0][0]) * w           # ... and enters the walk
    for i, (r, k) in enumerate(order):
        slot = starts[k] + 2 * r
        if rng.random() < 0.1:
            flip = 2 * w + rng.randrange(2)                           # an output bit
        else:
            flip = (starts[rng.randrange(n_pages)] + 2 * rounds + rng.randrange(2)) * w + rng.randrange(w)
        nxt = (starts[order[i + 1][1]] + 2 * order[i + 1][0]) * w if i + 1 < len(order) else slot * w
        mem[slot] = flip
        mem[slot + 1] = nxt
    for s in starts:
        if rng.random() < 0.5:
            mem[s + 2 * rounds] = rng.getrandbits(w)
    segments = [[0, 8]] + [[s, seg_len] for s in starts]
    rng.shuffle(segments)
    segments.sort(key=lambda seg: seg[0] != 0)   # (0, n) first, the others in load order = random
    return {'w': w, 'segments': segments, 'mem': sorted([k, v] for k, v in mem.items() if v), 'geom': 'page-walk',
            'input': '', 'cuts': [5, 1000, PAGE, 16 * PAGE + 1]}


def long_chain_case(rng: random.Random, w: int, n_ops: int) -> Dict[str, Any]:
    """a straight-line program of n_ops ops (each flips a scratch bit and jumps to the next slot; some emit
    output), ending in a halt: crosses the native engine's signal-poll cadence (2^18 ops) and grows the
    speculation shadow table. built directly - the reference machine still supplies the expected outcome."""
    words_needed = 2 * (n_ops + 2)
    assert words_needed + 8 <= max_words(w)
    mem = []
    scratch_word = words_needed + 2
    for i in range(n_ops):
        slot = 2 * i if i else 0
        flip = scratch_word * w + rng.randrange(w)
        if i % 5000 == 7:
            flip = 2 * w + (i // 5000) % 2
        nxt = 2 * (i + 1) * w if i + 1 < n_ops else slot * w
        if i == 1:
            continue_slot = None
            del continue_slot
        mem.append([slot, flip])
        mem.append([slot + 1, nxt])
    # slot 1 (words 2,3) is the IO op area: the chain above used slot index i -> words 2i, 2i+1, including words 2,3;
    # that is fine - they are ordinary ops here (flip targets never touch word 3's input bit because no op sits in the window
    # except the one at 2w itself, which consumes one input bit)
    segments = [[0, words_needed + 8]]
    return {'w': w, 'segments': segments, 'mem': sorted([k, v] for k, v in mem if v), 'geom': 'long-chain',
            'input': 'ff', 'cuts': [5, words_needed // 2 + 1]}
