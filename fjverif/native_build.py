"""
Build the native engine from the CURRENT $VERIF_REPO/flipjump/interpreter/_fjcore.c and
pre-register it as flipjump.interpreter._fjcore, so the stale/untracked prebuilt .so that
may sit in the repository is never what gets tested.  Variants differ by compiler flags only.
"""

from __future__ import annotations

import hashlib
import importlib.machinery
import importlib.util
import os
import subprocess
import sys
import sysconfig
from pathlib import Path
from typing import Dict, List, Optional

from fjverif.common import BUILD_DIR, REPO_ROOT, VERIF_ROOT, Inconclusive

MODULE_NAME = 'flipjump.interpreter._fjcore'


def source_path() -> Path:
    return REPO_ROOT / 'flipjump' / 'interpreter' / '_fjcore.c'


def _flags(variant: str) -> List[str]:
    include = sysconfig.get_paths()['include']
    base = ['-fPIC', '-shared', f'-I{include}', '-DPy_LIMITED_API=0x030A0000']
    if variant == 'opt':
        return ['gcc', '-O2', '-fno-strict-overflow', '-Wsign-compare', '-DNDEBUG', '-g0'] + base
    asan = [
        'clang', '-O1', '-g', '-fsanitize=address,undefined', '-fno-sanitize-recover=all',
        '-fno-omit-frame-pointer',
    ] + base
    if variant == 'asan':
        return asan
    if variant == 'allocfault':
        return asan + ['-include', str(VERIF_ROOT / 'native' / 'alloc_fault.h')]
    if variant == 'cov':
        return ['clang', '-O0', '-g', '-fprofile-instr-generate', '-fcoverage-mapping'] + base
    raise ValueError(variant)


def build(variant: str = 'opt') -> Path:
    """compile (cached by content hash of source+flags) and return the .so path."""
    src = source_path()
    if not src.exists():
        raise Inconclusive(f'{src} is missing - cannot build the native engine')
    flags = _flags(variant)
    h = hashlib.sha256()
    h.update(src.read_bytes())
    h.update('\0'.join(flags).encode())
    if variant == 'allocfault':
        h.update((VERIF_ROOT / 'native' / 'alloc_fault.h').read_bytes())
    out_dir = BUILD_DIR / f'{variant}-{h.hexdigest()[:20]}'
    so = out_dir / '_fjcore.abi3.so'
    if so.exists():
        return so
    out_dir.mkdir(parents=True, exist_ok=True)
    tmp = out_dir / f'_fjcore.{os.getpid()}.tmp.so'
    cmd = flags + [str(src), '-o', str(tmp)]
    proc = subprocess.run(cmd, capture_output=True, text=True, timeout=300)
    if proc.returncode != 0:
        raise Inconclusive(f'native build ({variant}) failed:\n{proc.stderr[-2000:]}')
    os.replace(tmp, so)
    return so


def asan_runtime() -> str:
    out = subprocess.run(['clang', '-print-file-name=libclang_rt.asan-x86_64.so'], capture_output=True, text=True)
    path = out.stdout.strip()
    if not path or not Path(path).exists():
        raise Inconclusive('asan runtime not found')
    return path


def asan_env(log_path: Optional[str] = None, halt: bool = True) -> Dict[str, str]:
    opts = ['detect_leaks=0', f'halt_on_error={1 if halt else 0}', 'abort_on_error=1', 'allocator_may_return_null=1',
            'handle_segv=1', 'symbolize=1',
            # freed blocks are overwritten: (uninstrumented) CPython code that follows a dangling pointer left behind by the
            # extension - a stolen reference released twice, say - dies on the spot instead of reading plausible stale data
            'max_free_fill_size=65536', 'free_fill_byte=189']
    if log_path:
        opts.append(f'log_path={log_path}')
    return {
        'LD_PRELOAD': asan_runtime(),
        'PYTHONMALLOC': 'malloc',
        'ASAN_OPTIONS': ':'.join(opts),
        'UBSAN_OPTIONS': 'print_stacktrace=1:halt_on_error=1' + (f':log_path={log_path}' if log_path else ''),
        'ASAN_SYMBOLIZER_PATH': '/usr/bin/llvm-symbolizer-14',
    }


def register(variant: str = 'opt'):
    """build + load + put in sys.modules under the package name, before flipjump is imported."""
    if MODULE_NAME in sys.modules:
        return sys.modules[MODULE_NAME]
    so = build(variant)
    loader = importlib.machinery.ExtensionFileLoader(MODULE_NAME, str(so))
    spec = importlib.util.spec_from_file_location(MODULE_NAME, str(so), loader=loader)
    assert spec is not None
    module = importlib.util.module_from_spec(spec)
    loader.exec_module(module)
    sys.modules[MODULE_NAME] = module
    return module


if __name__ == '__main__':
    for v in sys.argv[1:] or ['opt']:
        print(v, build(v))
