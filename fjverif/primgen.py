"""
Programs over the PRIMITIVE FlipJump language (no macros), generated from an explicit model so that
the generator knows every statement's intended address and every expression's intended value
(DESIGN 3.6, used by C02 C14 C16 C13 C20).

A program is built in two passes: pass 1 fixes the statement kinds and the NUMBERS (layout, word
values); pass 2 renders each number as an expression over literals, constants, labels and `$`
that evaluates to it.  The denotation (addresses, words, labels, wflip obligations, reserved
ranges, layout feasibility) is computed here, independently of the assembler.
"""

from __future__ import annotations

import random
from typing import Any, Dict, List, Optional, Tuple


class Model:
    def __init__(self, w: int):
        self.w = w
        self.words: Dict[int, int] = {}            # word address -> expected value (fj statements)
        self.word_owner: Dict[int, int] = {}        # word address -> statement index
        self.labels: Dict[str, int] = {}
        self.consts: Dict[str, int] = {}
        self.wflips: List[Dict[str, int]] = []      # {'addr','a','v','r','stmt'}
        self.reserved: List[Tuple[int, int]] = []   # (first word, count)
        self.pad_holes: List[Tuple[int, int]] = []  # (first word, count): contents unspecified
        self.segments_requested: List[int] = [0]    # bit addresses where a segment starts
        self.impossible: List[str] = []             # reasons the layout can not exist
        self.statement_addresses: List[int] = []    # bit address of each line (for labels / C16)
        self.used: Dict[int, int] = {}              # word -> stmt index (statements + reserved), for overlap detection


class Program:
    def __init__(self, w: int, lines: List[str], model: Model, meta: Dict[str, Any]):
        self.w, self.lines, self.model, self.meta = w, lines, model, meta

    def text(self) -> str:
        return '\n'.join(self.lines) + '\n'


def lit(rng: random.Random, v: int) -> str:
    if v < 0:
        return f'(0-{lit(rng, -v)})'
    r = rng.random()
    if r < 0.004 and v < 10 ** 23:
        # one literal of thousands of digits, reduced by a small modulus and added to the rest of the value: a mis-read literal
        # moves the word by less than 97, so the program still assembles and the image shows it
        modulus = 97
        rest = v - v % modulus
        prefix = str(rng.randrange(1, 10)) + ''.join(rng.choice('0123456789') for _ in range(rng.choice([3980, 4280, 5000, 7977])))
        high = 0
        for k in range(0, len(prefix), 900):       # Horner, reduced as it goes: no big-integer <-> string conversion here
            piece = prefix[k:k + 900]
            high = (high * pow(10, len(piece), modulus) + int(piece)) % modulus
        tail = (v % modulus - high * pow(10, 25, modulus)) % modulus
        return f'({rest} + ({prefix}{tail:025d} % {modulus}))'
    if r < 0.55:
        return str(v)
    if r < 0.85:
        return hex(v)
    if r < 0.93:
        return bin(v)
    if 0x20 <= v <= 0x7E and v not in (0x5C, 0x27, 0x22):
        return f"'{chr(v)}'"
    return str(v)


def expr_for(rng: random.Random, value: int, names: Dict[str, int], dollar: Optional[int], depth: int = 2) -> str:
    """an expression text that evaluates to `value` (unbounded integers) using the given names."""
    choices = ['lit']
    if names:
        choices += ['name+', 'name+', 'name-', 'namexor', 'nested', 'logic']
    if dollar is not None:
        choices += ['dollar', 'dollar']
    if depth > 0:
        choices += ['split', 'tern', 'shift', 'div', 'chain']
    kind = rng.choice(choices)
    if kind == 'lit' or depth < 0:
        return lit(rng, value)
    if kind == 'dollar':
        assert dollar is not None
        d = value - dollar
        return '$' if d == 0 else (f'$ + {lit(rng, d)}' if d > 0 else f'$ - {lit(rng, -d)}')
    if kind == 'div':
        # floor division of integers of any size (a quotient computed through a float is off beyond 53 bits, and for negatives)
        k = rng.choice([2, 3, 7, 10, 1 << 20])
        rem = rng.randrange(k)
        return f'({lit(rng, value * k + rem)}) / {k}' if value >= 0 else lit(rng, value)
    if kind == 'logic':
        # the logical operators normalise to 0 / 1 whatever their (symbolic) operand is worth
        name = rng.choice(sorted(names))
        truth = 1 if names[name] != 0 else 0
        form = rng.randrange(4)
        inner = [f'{name} && 1', f'1 && {name}', f'{name} || 0', f'0 || {name}'][form]
        return f'({lit(rng, value - truth + 5)} + ({inner})) - 5' if value - truth + 5 >= 0 else f'({inner}) + {lit(rng, value - truth)}'
    if kind in ('name+', 'name-', 'namexor', 'nested'):
        name = rng.choice(sorted(names))
        nv = names[name]
        if kind == 'name+' or (kind == 'namexor' and (nv < 0 or value < 0)):
            d = value - nv
            return name if d == 0 else (f'{name} + {lit(rng, d)}' if d > 0 else f'{name} - {lit(rng, -d)}')
        if kind == 'name-':
            return f'{lit(rng, value + nv)} - {name}'
        if kind == 'namexor':
            return f'{name} ^ {lit(rng, nv ^ value)}'
        inner = expr_for(rng, value - nv, names, dollar, depth - 1)
        return f'({inner}) + {name}'
    if kind == 'split':
        part = rng.randrange(0, abs(value) + 2)
        return f'({expr_for(rng, part, names, dollar, depth - 1)}) + ({expr_for(rng, value - part, names, dollar, depth - 1)})'
    if kind == 'tern':
        cond = rng.choice(['1', '0', '2 > 1', '1 == 2', '#5 == 3'])
        truth = cond in ('1', '2 > 1', '#5 == 3')
        good, junk = expr_for(rng, value, names, dollar, depth - 1), lit(rng, rng.randrange(1000))
        return f'{cond} ? ({good}) : {junk}' if truth else f'{cond} ? {junk} : ({good})'
    if kind == 'chain':
        # conditionals written one after the other WITHOUT parentheses: an else-if chain (c1 ? a : c2 ? b : c), and one in the middle
        c1, c2 = rng.choice(['1', '0', '3 > 2', '2 == 3']), rng.choice(['1', '0', '1 < 2', '7 != 7'])
        t1, t2 = c1 in ('1', '3 > 2'), c2 in ('1', '1 < 2')
        good = expr_for(rng, value, names, dollar, depth - 1)
        junk = [lit(rng, rng.choice([0, 0, 1, rng.randrange(1000)])) for _ in range(2)]
        if rng.random() < 0.7:
            arms = [f'({good})', junk[0], junk[1]] if t1 else ([junk[0], f'({good})', junk[1]] if t2 else [junk[0], junk[1], f'({good})'])
            return f'{c1} ? {arms[0]} : {c2} ? {arms[1]} : {arms[2]}'
        arms = ([f'({good})', junk[0], junk[1]] if t2 else [junk[0], f'({good})', junk[1]]) if t1 else [junk[0], junk[1], f'({good})']
        return f'{c1} ? {c2} ? {arms[0]} : {arms[1]} : {arms[2]}'
    s = rng.randrange(1, 5)
    return f'(({expr_for(rng, value, names, dollar, depth - 1)}) << {s}) >> {s}'


def misaligned_layout(rng: random.Random) -> Program:
    """an IMPOSSIBLE layout built from parity alone: the image is made of segments, and a segment must start on an even word and
    span an even number of words. programs whose pieces break that in every combination - odd start / odd span / BOTH at once,
    the odd reserve before, between or after the ops - and that are fine in every other respect."""
    w = rng.choice([8, 16, 32, 64])
    dw = 2 * w
    lines: List[str] = [';']          # piece 0: one op at address 0 (even start, even span)
    reasons: List[str] = []
    cursor_words = 2
    n_pieces = rng.choice([1, 1, 2])
    bad_piece = rng.randrange(n_pieces)
    top_words = (1 << w) // w
    for piece in range(n_pieces):
        bad = piece == bad_piece
        shape = rng.choice(['odd-start', 'odd-span', 'odd-start+odd-span']) if bad else 'fine'
        gap = 2 * rng.randrange(1, 4)
        start = cursor_words + gap + (1 if 'odd-start' in shape else 0)
        body: List[str] = []
        span = 0
        n_ops = rng.randrange(1, 4)
        odd_at = rng.randrange(n_ops + 1) if 'odd-span' in shape else -1
        for k in range(n_ops + 1):
            if k == odd_at:
                words = 2 * rng.randrange(0, 3) + 1
                body.append(f'reserve {words}*{w}' if rng.random() < 0.5 else f'reserve {words * w}')
                span += words
            if k < n_ops:
                body.append(f'{rng.randrange(0, 1 << min(w, 16))};{rng.randrange(0, 1 << min(w, 16))}')
                span += 2
        if start + span + 4 > top_words:
            break
        lines.append(f'segment {start}*{w}' if rng.random() < 0.5 else f'segment {start * w}')
        lines.extend(body)
        cursor_words = start + span + (span % 2)
        if bad:
            reasons.append(f'segment parity ({shape}): a segment starts on an even word and spans an even number of words; this piece starts at word {start} and spans {span}')
    model = Model(w)
    model.impossible = reasons or ['(the drawn piece did not fit the memory)']
    if not reasons:  # nothing bad was emitted (tiny memory): make it a plain impossible one
        lines.append(f'segment {w}')
        lines.append(';')
        model.impossible = ['segment on an odd word']
    return Program(w, lines, model, {'flaw': 'parity/' + (reasons[0].split('(')[1].split(')')[0] if reasons else 'odd-start'), 'n': len(lines), 'w': w})


def generate(rng: random.Random, w: Optional[int] = None, n_statements: Optional[int] = None, flaws: bool = True) -> Program:
    w = w or rng.choice([8, 16, 32, 64])
    dw = 2 * w
    top = 1 << w
    mask = top - 1
    model = Model(w)
    n = n_statements or rng.choice([3, 5, 8, 12, 20, 40])
    small = w == 8
    if small:
        n = min(n, 6)
    # ---------------- pass 1: statement kinds and numbers
    stmts: List[Dict[str, Any]] = []
    curr = 0
    label_count = 0
    const_count = 0
    flaw = None
    if flaws and rng.random() < 0.18:
        flaw = rng.choice(['segment-overlap', 'segment-unaligned', 'reserve-unaligned', 'beyond-memory', 'pad-unaligned',
                           'segment-odd-word', 'reserve-odd-words', 'word-out-of-range', 'reserve-negative'])
    flaw_at = rng.randrange(1, n + 1) if flaw else -1
    seg_starts = [0]
    extents: List[Tuple[int, int]] = []  # (first bit, last bit exclusive) of statement areas per segment, for overlap planning
    seg_first = 0
    for index in range(n + 1):
        if index == flaw_at:
            kind = {'segment-overlap': 'segment', 'segment-unaligned': 'segment', 'segment-odd-word': 'segment',
                    'reserve-unaligned': 'reserve', 'reserve-odd-words': 'reserve', 'reserve-negative': 'reserve', 'beyond-memory': 'segment',
                    'pad-unaligned': 'pad', 'word-out-of-range': 'fj'}[flaw]  # type: ignore[index]
        elif index == 0:
            kind = 'fj'
        else:
            kind = rng.choices(['fj', 'wflip', 'pad', 'segment', 'reserve', 'const', 'labelonly'],
                               [50, 14, 6, 4 if not small else 1, 5 if not small else 1, 6, 5])[0]
        st: Dict[str, Any] = {'kind': kind, 'labels': [], 'addr': curr}
        if kind != 'const' and rng.random() < 0.35:
            for _ in range(rng.choice([1, 1, 2])):
                st['labels'].append(f'L{label_count}')
                label_count += 1
        if kind == 'fj':
            st['form'] = rng.choice(['f;j', 'f;j', 'f;j', ';j', 'f;', ';'])
            st['addr'] = curr
            curr += dw
        elif kind == 'wflip':
            st['addr'] = curr
            st['explicit_r'] = rng.random() < 0.6
            if rng.random() < 0.35:
                st['cluster'] = rng.randrange(2)  # members of a cluster share v and r and target nearby bit addresses
                st['explicit_r'] = True
            curr += dw
        elif kind == 'pad':
            nops = rng.choice([1, 2, 2, 4, 8, 3])
            if index == flaw_at:
                # make the current address unaligned first with a w-sized reserve (itself a flaw for the writer)
                stmts.append({'kind': 'reserve', 'labels': [], 'addr': curr, 'bits': w})
                curr += w
                st['addr'] = curr
                model.impossible.append('pad at an address that is not op-aligned')
            st['nops'] = nops
            op_index = -(-curr // dw)
            target_ops = -(-op_index // nops) * nops
            if curr % dw == 0:
                holes_first = curr // w
                curr = target_ops * dw
                if curr // w > holes_first:
                    model.pad_holes.append((holes_first, curr // w - holes_first))
        elif kind == 'segment':
            extents.append((seg_first, curr))
            if index == flaw_at and flaw == 'segment-overlap' and extents:
                lo, hi = rng.choice([e for e in extents if e[1] > e[0]] or extents)
                new = (rng.randrange(lo, max(lo + 1, hi)) // dw) * dw  # (a collision is detected below, if one materialises)
            elif index == flaw_at and flaw == 'segment-unaligned':
                new = curr + dw * rng.randrange(1, 9) + rng.randrange(1, w)
                model.impossible.append('segment address is not w-aligned')
            elif index == flaw_at and flaw == 'segment-odd-word':
                new = curr + dw * rng.randrange(1, 9) + w
                st['odd_word_segment'] = True
            elif index == flaw_at and flaw == 'beyond-memory':
                new = top - dw * rng.choice([0, 0, 1]) + (dw if rng.random() < 0.5 else 0)
                st['beyond_tail'] = True
            else:
                gap = rng.choice([1, 2, 5, 40, 600]) * dw
                new = curr + gap
                far_limit = min(top - 64 * dw, curr + (1 << 24))
                if rng.random() < 0.25 and not small and far_limit > curr + gap:
                    new = (rng.randrange(curr + gap, far_limit + 1) // dw) * dw
            st['target'] = new
            curr = new
            seg_first = new
            seg_starts.append(new)
        elif kind == 'reserve':
            if index == flaw_at and flaw == 'reserve-unaligned':
                bits = dw * rng.randrange(0, 4) + rng.randrange(1, w)
                model.impossible.append('reserve size is not w-aligned')
            elif index == flaw_at and flaw == 'reserve-negative':
                # moving the address BACK: over what was already placed, or (right after a segment start) below the segment
                bits = -dw * rng.randrange(1, 5)
                model.impossible.append('reserve of a negative size')
            elif index == flaw_at and flaw == 'reserve-odd-words':
                bits = dw * rng.randrange(0, 4) + w
                model.impossible.append('reserve of an odd number of words leaves the segment 2w-misaligned')
            else:
                bits = dw * rng.choice([1, 1, 2, 5, 20, 600])
            st['bits'] = bits
            st['addr'] = curr
            curr += bits
        elif kind == 'const':
            st['name'] = f'K{const_count}'
            const_count += 1
            st['value'] = rng.choice([0, 1, w, dw, 5, 100, rng.getrandbits(20), -3])
        stmts.append(st)
        if kind in ('fj', 'wflip', 'reserve') and curr > top:
            if not model.impossible:
                model.impossible.append('statements run past the 2^w-bit memory')
            break
        if curr > top + (1 << 20):
            break
    # ---------------- addresses of labels; overlap detection
    curr_check: Dict[int, int] = {}
    for i, st in enumerate(stmts):
        for name in st['labels']:
            model.labels[name] = st['addr'] if st['kind'] not in ('pad', 'segment') else st['addr']
        if st['kind'] == 'const':
            model.consts[st['name']] = st['value']
    # label addresses for pad/segment: a label BEFORE `pad` gets the pre-pad address; before `segment` the pre-segment one.
    # (st['addr'] was recorded before the statement acted, so this is already the case.)
    for i, st in enumerate(stmts):
        if st['kind'] in ('fj', 'wflip'):
            for k in (0, 1):
                wa = st['addr'] // w + k
                if wa in curr_check and 'two statements share an address' not in model.impossible:
                    model.impossible.append('two statements share an address')
                curr_check[wa] = i
        elif st['kind'] == 'reserve' and st['bits'] % w == 0:
            for wa in range(st['addr'] // w, (st['addr'] + st['bits']) // w):
                if wa in curr_check and not model.impossible:
                    model.impossible.append('reserved space overlaps a statement')
                curr_check[wa] = i
    for i, st in enumerate(stmts):
        if st.get('odd_word_segment'):
            following = stmts[i + 1:]
            for nxt in following:
                if nxt['kind'] == 'segment':
                    break
                if nxt['kind'] in ('fj', 'wflip') or (nxt['kind'] == 'reserve' and nxt['bits']):
                    model.impossible.append('a segment that holds statements starts on an odd word (not 2w-aligned)')
                    break
    model.used = curr_check
    # ---------------- pass 2: numbers -> expressions, lines
    all_labels = dict(model.labels)
    lines: List[str] = []
    visible_consts: Dict[str, int] = {'w': w}
    earlier_labels: Dict[str, int] = {}
    in_seg_words = sorted(curr_check)
    clusters: Dict[Any, Tuple[int, int, int]] = {}

    def some_address() -> int:
        r = rng.random()
        if in_seg_words and r < 0.6:
            return (rng.choice(in_seg_words) * w + rng.randrange(w)) & mask
        if r < 0.8:
            return rng.randrange(0, min(top, 1 << 16))
        return rng.getrandbits(w)

    def some_target() -> int:
        ops = [s['addr'] for s in stmts if s['kind'] in ('fj', 'wflip')]
        r = rng.random()
        if ops and r < 0.7:
            return rng.choice(ops) & mask
        return some_address()

    for i, st in enumerate(stmts):
        prefix = ''.join(f'{name}: ' for name in st['labels'][:-1])
        for name in st['labels'][:-1]:
            pass
        label_txt = ''.join(f'{name}:\n' for name in st['labels'][:-1]) + (f'{st["labels"][-1]}: ' if st['labels'] else '')
        del prefix
        names_any = {**visible_consts, **all_labels}
        names_early = {**visible_consts, **earlier_labels}
        kind = st['kind']
        dollar = st['addr'] + dw
        if kind == 'fj':
            form = st['form']
            f_val = some_address() if 'f' in form else 0
            j_val = some_target() if 'j' in form else dollar
            if 'j' in form and rng.random() < 0.03:
                j_val = st['addr'] + w      # an op that jumps into its own jump word (relative jump 0 in versions 2/3)
                if rng.random() < 0.5 and 'f' in form:
                    f_val = 0
            if flaw == 'word-out-of-range' and not model.impossible and 'j' in form and i >= flaw_at:
                # a word that does not fit w bits: negative, or 2^w and above (no version of the file format can hold it)
                j_val = rng.choice([-1, -rng.randrange(1, 1 << 12) * w, 1 << w, (1 << w) + rng.randrange(0, 1 << 12) * w, -(1 << w)])
                model.impossible.append('a jump word outside [0, 2^w)')
            base = st['addr'] // w
            model.words[base], model.words[base + 1] = f_val, j_val
            model.word_owner[base] = model.word_owner[base + 1] = i
            f_txt = expr_for(rng, f_val, names_any, dollar) if 'f' in form else ''
            j_txt = expr_for(rng, j_val, names_any, dollar) if 'j' in form else ''
            body = f'({f_txt});({j_txt})' if form == 'f;j' else f';({j_txt})' if form == ';j' else f'({f_txt});' if form == 'f;' else ';'
        elif kind == 'wflip':
            a_val = (rng.choice(in_seg_words) * w) if in_seg_words and rng.random() < 0.8 else (rng.randrange(0, top // w) * w)
            v_val = rng.choice([0, 1, 2, 3, mask, 1 << (w - 1), rng.getrandbits(w), rng.getrandbits(w) & rng.getrandbits(w), 0b101])
            r_val = some_target() if st['explicit_r'] else dollar
            if rng.random() < 0.3:
                a_val = (a_val + rng.randrange(1, w)) & mask  # the target need not be word-aligned
            if 'cluster' in st:
                key = ('cluster', st['cluster'])
                if key not in clusters:
                    clusters[key] = (a_val, rng.choice([0b110, 0b11, 0b1011, (1 << (w // 2)) | 6, rng.getrandbits(w) | 6]), r_val)
                base_a, v_val, r_val = clusters[key]
                a_val = (base_a + rng.choice([0, 1, 2, 2, 3, 4, w, w + 2, 2 * w])) & mask
            model.wflips.append({'addr': st['addr'], 'a': a_val, 'v': v_val, 'r': r_val, 'stmt': i})
            body = f'wflip {expr_for(rng, a_val, names_any, dollar)}, {expr_for(rng, v_val, names_any, dollar)}'
            if st['explicit_r']:
                body += f', {expr_for(rng, r_val, names_any, dollar)}'
        elif kind == 'pad':
            body = f'pad {expr_for(rng, st["nops"], names_early, None, 1)}'
        elif kind == 'segment':
            body = f'segment {expr_for(rng, st["target"], names_early, None, 1)}'
            model.segments_requested.append(st['target'])
        elif kind == 'reserve':
            body = f'reserve {expr_for(rng, st["bits"], names_early, None, 1)}'
            if st['bits'] % w == 0 and st['bits']:
                model.reserved.append((st['addr'] // w, st['bits'] // w))
        elif kind == 'const':
            body = f'{st["name"]} = {expr_for(rng, st["value"], visible_consts, None, 1)}'
            visible_consts[st['name']] = st['value']
        else:
            body = ''
        for name in st['labels']:
            earlier_labels[name] = all_labels[name]
        model.statement_addresses.append(st['addr'])
        lines.append((label_txt + body).rstrip() if (label_txt or body) else '')
        if rng.random() < 0.1:
            lines.append(rng.choice(['', '  // a comment', '']))
    meta = {'flaw': flaw, 'n': len(stmts), 'w': w}
    return Program(w, lines, model, meta)
