"""
C08 monitor: pointer / stack / call-return macros (extension of the stl SYNC-monitor harness, DESIGN 3.7).

Program shape (one assembly serves thousands of poked passes):

        stl.startup_and_init_all <stack>        (bit namespace: stl.startup_and_init_pointers)
  top:  sync <id>                               SYNC = ID_BITS output ops that spell the id of the sync point (lsb first)
        <application>
  a0:   sync <id> ...
        ;top
  f1:   sync <id> ... stl.return                function bodies (call nests), every application inside has its own SYNC
  sK_J: sync <id> ; ;aK                         landing stubs for ptr_jump (near, and in the far segments)
        variables (hex.vec / bit.vec), pointer variables, the NEAR buffer
        segment MID  : the MID buffer  (+ stubs)
        segment HIGH : the HIGH buffer (+ stubs)           -> cell addresses differ in (nearly) every address digit

The model is WORD level: for every monitored op (every cell of the three sub-buffers, every stack cell, every cell of every
declared variable and pointer variable, sp) it holds the expected flip word and jump word.  At EVERY sync the monitor
  * checks that the id is the sync point the model expects next (call/return, fcall/fret, ptr_jump: control flow),
  * reads every monitored word through DeviceMemory.read_word and compares it with the model - the pointed cell has the
    documented value, every other buffer cell / variable / pointer / sp / stack cell is unchanged,
  * at the top of a pass pokes fresh cell contents, operand values, pointer targets and a start depth for sp,
  * advances the model by the documented effect of the next application (spec_ptr.py).
Every pass is first run on a copy of the model only; a pass in which the model meets a case the documentation does not cover
(Unsafe) is re-drawn and never poked into the real run.
"""

from __future__ import annotations

import itertools
import random
from dataclasses import dataclass, field
from pathlib import Path
from typing import Any, Dict, List, Optional, Sequence, Set, Tuple

from fjverif import engines
from fjverif.common import case_hash, rng_for
from fjverif.stlmon import harness
from fjverif.stlmon.spec_ptr import BY_KEY, SPECS, PSpec

ID_BITS = 10
PTR_ROLES = ('ptr', 'bitptr', 'wptr')           # pointer variables that are poked with the address of a buffer cell
SP_NAME = 'hex.pointers.sp'
STACK_LABEL = 'hex.pointers.stack'


class Unsafe(Exception):
    """the model met a case the documentation does not cover (outside the buffer, malformed cell, unspecified bits ...)."""


# ====================================================================================================== program objects
@dataclass(eq=False)
class Var:
    name: str
    kind: str                   # 'hex' | 'bit'
    length: int                 # cells
    role: str                   # data | ptr | bitptr | wptr | free | idx | cptr | sp
    lo: int = 0                 # idx: range of poked (signed) values
    hi: int = 0
    declared: bool = True
    addr: int = -1
    stubs: List['Stub'] = field(default_factory=list)     # cptr: its landing stubs

    @property
    def bits(self) -> int:
        return 4 if self.kind == 'hex' else 1


@dataclass(eq=False)
class Region:
    name: str
    label: str
    cells: int
    where: str                  # near | mid | high | stack
    first: int = 0              # first cell a pointer may be aimed at (the stack's cell 0 is its sentinel)
    addr: int = -1


@dataclass(eq=False)
class Stub:
    label: str
    sid: int
    where: str
    back: str


@dataclass(eq=False)
class Stmt:
    spec: PSpec
    o: Dict[str, Any]
    sid: int
    index: int
    text: str
    block: str


@dataclass(eq=False)
class Block:
    name: str
    kind: str                   # main | call | fcall
    stmts: List[Stmt] = field(default_factory=list)
    reg: Optional[str] = None
    nparams: int = 0


@dataclass
class Node:
    sid: int
    stmt: Optional[Stmt]
    next: Optional[int]


# ====================================================================================================== the model
class Model:
    def __init__(self, w: int, cellbits: int, labels: Dict[str, int]):
        self.w, self.dw, self.shift = w, 2 * w, w.bit_length()
        self.dbit = w + self.shift
        self.mask = (1 << w) - 1
        self.cellbits = cellbits
        self.cellmask = ((1 << cellbits) - 1) << self.shift
        self.labels = labels
        self.mem: Dict[int, int] = {}
        self.adopt: Dict[int, int] = {}         # word -> bits whose value the documentation leaves open (taken from the next observation)
        self.learn: Dict[int, int] = {}         # word -> call site whose (undocumented, constant) return address is being learned
        self.retaddr: Dict[int, int] = {}       # call site -> learned return address (shared by the dry-run copies)
        self.callstack: List[Tuple[int, int, int]] = []
        self.fstack: List[Tuple[int, str]] = []
        self.touched: Set[int] = set()
        self.live_ret: Set[int] = set()         # jump words that hold the return address of a call in progress
        self.ret_dirty: Set[int] = set()        # ... and were modified since (returning through them is not documented usage)
        self.sp: Optional[Var] = None

    def copy(self) -> 'Model':
        c = Model.__new__(Model)
        c.__dict__.update(self.__dict__)
        c.mem, c.adopt, c.learn = dict(self.mem), dict(self.adopt), dict(self.learn)
        c.callstack, c.fstack, c.touched = list(self.callstack), list(self.fstack), set()
        c.live_ret, c.ret_dirty = set(self.live_ret), set(self.ret_dirty)
        return c

    # ---- words
    def _wi(self, bitaddr: int) -> int:
        if bitaddr % self.w:
            raise Unsafe(f'{bitaddr:#x} is not w-aligned')
        wi = bitaddr // self.w
        if wi not in self.mem:
            raise Unsafe(f'{bitaddr:#x} is outside the monitored buffers')
        return wi

    def _read(self, wi: int, mask: int) -> int:
        if self.adopt.get(wi, 0) & mask:
            raise Unsafe('reads bits the documentation leaves unspecified')
        return self.mem[wi] & mask

    def _write(self, wi: int, value: int, mask: int) -> None:
        self.mem[wi] = (self.mem[wi] & ~mask) | (value & mask)
        if wi in self.adopt:
            left = self.adopt[wi] & ~mask
            if left:
                self.adopt[wi] = left
            else:
                del self.adopt[wi]
                self.learn.pop(wi, None)
        self.touched.add(wi)
        if wi in self.live_ret:
            self.ret_dirty.add(wi)

    def flip_bit(self, bitaddr: int) -> None:
        wi = bitaddr // self.w
        if wi not in self.mem:
            raise Unsafe(f'bit {bitaddr:#x} is outside the monitored buffers')
        bit = 1 << (bitaddr % self.w)
        if self.adopt.get(wi, 0) & bit:
            raise Unsafe('flips an unspecified bit')
        self.mem[wi] ^= bit
        self.touched.add(wi)
        if wi in self.live_ret:
            self.ret_dirty.add(wi)

    def xor_word(self, bitaddr: int, value: int) -> None:
        wi = self._wi(bitaddr)
        if self.adopt.get(wi, 0) & value:
            raise Unsafe('xors into unspecified bits')
        self.mem[wi] ^= value & self.mask
        self.touched.add(wi)
        if wi in self.live_ret:
            self.ret_dirty.add(wi)

    # ---- cells
    def need_cell(self, a: int) -> int:
        if a % self.dw:
            raise Unsafe(f'{a:#x} is not dw-aligned')
        self._wi(a)
        return self._wi(a + self.w)

    def _wellformed(self, a: int) -> int:
        """the pointed cell is a variable cell: flip word 0, jump word = data << #w with nothing else set."""
        jw = self.need_cell(a)
        if self._read(jw - 1, self.mask) != 0:
            raise Unsafe('flip word of the pointed cell is not 0')
        if (self.mem[jw] | self.adopt.get(jw, 0)) & ~self.cellmask & self.mask:
            raise Unsafe('the pointed cell does not hold a plain hex/byte/bit')
        return jw

    def data(self, a: int, bits: int) -> int:
        jw = self._wellformed(a)
        return self._read(jw, ((1 << bits) - 1) << self.shift) >> self.shift

    def set_data(self, a: int, bits: int, value: int) -> None:
        jw = self._wellformed(a)
        self._write(jw, value << self.shift, ((1 << bits) - 1) << self.shift)

    def xor_data(self, a: int, bits: int, value: int) -> None:
        self.need_cell(a)
        self.xor_word(a + self.w, (value & ((1 << bits) - 1)) << self.shift)

    def unspecified_data(self, a: int, lo: int, bits: int) -> None:
        jw = self.need_cell(a)
        self.adopt[jw] = self.adopt.get(jw, 0) | (((1 << bits) - 1) << (self.shift + lo))

    def set_ret_address(self, a: int, value: int) -> None:
        jw = self._wellformed(a)
        self._write(jw, value, self.mask)

    def clear_ret_address(self, a: int, value: int) -> None:
        jw = self.need_cell(a)
        if self._read(jw - 1, self.mask) != 0 or self._read(jw, self.mask) != value:
            raise Unsafe('pop_ret_address assumes the cell holds return_address')
        self._write(jw, 0, self.mask)

    # ---- variables
    def get(self, var: Var, cells: Optional[int] = None) -> int:
        n = var.length if cells is None else cells
        if n > var.length:
            raise Unsafe('variable too short')
        base, dm, value = var.addr // self.w, (1 << var.bits) - 1, 0
        for i in range(n):
            value |= (self._read(base + 2 * i + 1, dm << self.shift) >> self.shift) << (i * var.bits)
        return value

    def put(self, var: Var, value: int, cells: Optional[int] = None) -> None:
        n = var.length if cells is None else cells
        if n > var.length:
            raise Unsafe('variable too short')
        base, dm = var.addr // self.w, (1 << var.bits) - 1
        for i in range(n):
            self._write(base + 2 * i + 1, ((value >> (i * var.bits)) & dm) << self.shift, dm << self.shift)

    def signed(self, v: int) -> int:
        return v - (1 << self.w) if v >> (self.w - 1) else v

    def label(self, name: str) -> int:
        return self.labels[name]


# ====================================================================================================== building programs
FAR = {
    64: {'mid': 0x0AA5A580, 'high': 0xA5C396E15A3C8000},
    32: {'mid': 0x0AA5A580, 'high': 0xA5C39600},
    16: {'mid': 0xC3A0, 'high': 0xF5A0},
}


class Builder:
    """collects variables, blocks and statements; renders the .fj text; computes the placement constraints."""

    def __init__(self, w: int, ns: str, rng: random.Random, stack_size: int = 32, cells: Tuple[int, int, int] = (12, 12, 12),
                 regions: Sequence[str] = ('near', 'mid', 'high')):
        self.w, self.ns, self.rng = w, ns, rng
        self.kind = 'hex' if ns == 'hex' else 'bit'
        self.ptr_len = w // 4 if ns == 'hex' else w
        self.stack_size = stack_size if ns == 'hex' else 0
        self.vars: List[Var] = []
        self.regions: List[Region] = []
        for name, n in zip(('near', 'mid', 'high'), cells):
            if name in regions:
                self.regions.append(Region(name, f'buf_{name}', n, name))
        if ns == 'hex':
            self.regions.append(Region('stack', STACK_LABEL, stack_size + 1, 'stack', first=1))
            self.sp: Optional[Var] = Var(SP_NAME, 'hex', w // 4, 'sp', declared=False)
        else:
            self.sp = None
        self.blocks: Dict[str, Block] = {'top': Block('top', 'main')}
        self.stubs: List[Stub] = []
        self.regs: List[str] = []
        self.next_sid = 0
        self.next_index = 0
        self.drift: Dict[str, int] = {}
        self.pools: Dict[str, List[Var]] = {}
        self.jump_where: Sequence[str] = tuple(r.where for r in self.regions if r.where != 'stack')

    # ---- variables
    def new_var(self, role: str, length: Optional[int] = None, lo: int = 0, hi: int = 0) -> Var:
        if length is None:
            length = self.ptr_len if role != 'data' else (8 if self.kind == 'hex' else 2)
        var = Var(f'v{role[0]}{len(self.vars)}', self.kind, length, role, lo, hi)
        self.vars.append(var)
        self.pools.setdefault(role, []).append(var)
        return var

    def sid(self) -> int:
        self.next_sid += 1
        return self.next_sid - 1

    # ---- statements
    def add(self, block: str, spec: PSpec, o: Dict[str, Any]) -> Stmt:
        args: List[str] = []
        for name, kind in spec.operands:
            v = o[name]
            if kind == 'bitaddr':
                args.append(f'{v.name}+dbit')
            elif isinstance(v, Var):
                args.append(v.name)
            elif kind == 'wval':
                args.append(hex(v))
            else:
                args.append(str(v))
        st = Stmt(spec, o, self.sid(), self.next_index, f'{spec.macro} ' + ', '.join(args), block)
        self.next_index += 1
        self.blocks[block].stmts.append(st)
        for fx in spec.fx:
            if fx[0] == 'move':
                var = self.sp if fx[1] == 'sp' else o[fx[1]]
                if var is not None:
                    self.drift[var.name] = self.drift.get(var.name, 0) + self._ev(fx[2], o)
        if any(kind == 'cptr' for _, kind in spec.operands):
            cp = o[[n for n, k in spec.operands if k == 'cptr'][0]]
            wheres = list(self.jump_where) + [self.rng.choice(list(self.jump_where))]
            for j, where in enumerate(wheres):
                stub = Stub(f's{st.index}_{j}', self.sid(), where, f'a{st.index}')
                cp.stubs.append(stub)
                self.stubs.append(stub)
        return st

    @staticmethod
    def _ev(expr: Any, o: Dict[str, Any]) -> int:
        if isinstance(expr, int):
            return expr
        return int(eval(expr, {}, {k: v for k, v in o.items() if isinstance(v, int)}))  # noqa: S307 - spec-author expressions

    def pick(self, roles: Sequence[str], taken: List[Var], want_move: int = 0) -> Optional[Var]:
        cands = [v for r in roles for v in self.pools.get(r, []) if v not in taken]
        if want_move:
            cands = [v for v in cands if v.role == 'free' or abs(self.drift.get(v.name, 0) + want_move) <= 3]
        return self.rng.choice(cands) if cands else None

    def bind(self, spec: PSpec, n: Optional[int] = None, sequence: bool = True) -> Optional[Dict[str, Any]]:
        """random operands from the pools; None when the pools cannot serve the macro."""
        rng, w = self.rng, self.w
        shift = w.bit_length()
        o: Dict[str, Any] = {}
        taken: List[Var] = []
        if n is None:
            n = rng.choice(list(spec.n_values))
        move = 0
        for fx in spec.fx:
            if fx[0] == 'move' and fx[1] != 'sp' and isinstance(fx[2], int):
                move = fx[2]
        cellmask = 0xFF if self.kind == 'hex' else 1
        for name, kind in spec.operands:
            var: Any = None
            if kind == 'n':
                o[name] = n
                continue
            if kind == 'count':
                o[name] = rng.choice([0, 1, 1, 2, 3])
                continue
            if kind == 'wval':
                if sequence or not spec.any_bit:
                    o[name] = (rng.randrange(1, cellmask + 1) if cellmask > 1 else 1) << shift
                else:
                    o[name] = rng.choice([harness.boundary_value(rng, w), rng.getrandbits(w), 1 << rng.randrange(w)])
                continue
            if kind == 'label':
                o[name] = rng.choice(['top', 'lbl_far'])
                continue
            if kind in ('func', 'nparams', 'reg'):
                return None  # bound by the call generator
            if kind == 'ptr':
                var = self.pick(['ptr'], taken, move)
            elif kind == 'aptr':
                dst = o.get('dst')
                if isinstance(dst, Var) and dst.role == 'ptr':   # a pointer that will be dereferenced gets a cell address
                    var = self.pick(['ptr'], taken, move)
                else:
                    var = self.pick(['ptr', 'bitptr', 'wptr', 'free'], taken, move)
            elif kind == 'dptr':
                var = self.pick(['free', 'ptr'], taken)
            elif kind == 'bitptr':
                var = self.pick(['bitptr'], taken)
            elif kind == 'wptr':
                var = self.pick(['wptr'], taken)
            elif kind == 'idx':
                var = self.pick(['idx'], taken)
            elif kind == 'cptr':
                var = self.new_var('cptr')
            elif kind in ('hex', 'byte', 'hexn', 'byten', 'bit', 'bitaddr'):
                need = {'hex': 1, 'byte': 2, 'hexn': n, 'byten': 2 * n, 'bit': 1, 'bitaddr': 1}[kind]
                cands = [v for v in self.pools.get('data', []) if v not in taken and v.length >= need]
                var = rng.choice(cands) if cands else None
            if var is None:
                return None
            o[name] = var
            taken.append(var)
        for fx in spec.fx:
            if fx[0] == 'move' and fx[1] != 'sp' and not isinstance(fx[2], int):
                target = o[fx[1]]
                if target.role != 'free' and abs(self.drift.get(target.name, 0) + self._ev(fx[2], o)) > 4:
                    return None
        # a free (arbitrary-valued) pointer takes big steps too
        if 'value' in o and any(k == 'count' for _, k in spec.operands) and isinstance(o.get('ptr'), Var) and o['ptr'].role == 'free':
            o['value'] = rng.choice([0, 1, 2, 7, 255, 256, (1 << (w - shift - 1)) - 1, rng.randrange(1 << (w - shift - 1))])
        return o

    # ---- text
    def render(self) -> str:
        w = self.w
        init = f'stl.startup_and_init_all {self.stack_size}' if self.ns == 'hex' else 'stl.startup_and_init_pointers'
        L = [init, 'def sync id {', f'    rep({ID_BITS}, i) stl.output_bit ((id>>i)&1)', '}']
        for block in self.blocks.values():
            L.append(f'{block.name}:')
            for st in block.stmts:
                L += [f'    sync {st.sid}', f'    {st.text}', f'a{st.index}:']
            if block.kind == 'main':
                L.append('    ;top')

        def stubs(where: str) -> List[str]:
            out: List[str] = []
            for s in self.stubs:
                if s.where == where:
                    out += [f'{s.label}:', f'    sync {s.sid}', f'    ;{s.back}']
            return out

        L += stubs('near')
        for reg in self.regs:
            L.append(f'{reg}: ;0')
        for k, v in enumerate(self.vars):
            L.append(f'{v.name}: {v.kind}.vec {v.length}')
            if v.role == 'data' or (k + self.w + len(self.vars)) % 2 == 0:
                # what follows a variable is not always another variable: a cell that holds a code address (a jump-table entry, a
                # stored return address). nothing may read or write past a vector's last cell, whatever sits there
                L.append('    ;top')
        far = [r for r in self.regions if r.where in ('mid', 'high')]
        for region in self.regions:
            if region.where == 'stack':
                continue
            if region.where != 'near':
                L.append(f'segment {FAR[w][region.where]:#x}')
            L.append(f'{region.label}: {self.kind}.vec {region.cells}')
            if region.where != 'near':
                L += stubs(region.where)
            if (far and region is far[-1]) or (not far and region.where == 'near'):
                L += ['lbl_far:', '    ;lbl_far']
        return '\n'.join(L) + '\n'

    # ---- where may the pointers be aimed?  (abstract walk over the program in execution order)
    def analyse(self, max_steps: int = 600) -> Optional[Dict[str, Any]]:
        """returns {'deref': {ref: (lo, hi)}, 'spval': (lo, hi), 'steps': n} in cells relative to the poked base of `ref`,
        or None when the program dereferences a pointer that was never given a buffer address / runs too long."""
        absd: Dict[str, Optional[Tuple[str, int, int]]] = {}
        for v in self.vars:
            absd[v.name] = (v.name, 0, 0) if v.role in PTR_ROLES else None
        if self.sp is not None:
            absd[SP_NAME] = (SP_NAME, 0, 0)
        deref: Dict[str, Tuple[int, int]] = {}
        spval = [0, 0]
        steps = [0]
        ok = [True]
        live_ret: List[int] = []        # sp-relative cells that hold the return address of a call in progress

        def var_of(name: str, o: Dict[str, Any]) -> Var:
            return self.sp if name == 'sp' else o[name]  # type: ignore[return-value]

        def do_deref(var: Var, lo: int, hi: int) -> None:
            a = absd.get(var.name)
            if a is None:
                ok[0] = False
                return
            ref, alo, ahi = a
            if ref == SP_NAME and var.name != SP_NAME and any(alo + lo <= off <= ahi + hi for off in live_ret):
                ok[0] = False       # a copy of sp (stl.get_sp) aimed at the return address of a call in progress: not documented usage
                return
            cur = deref.get(ref)
            deref[ref] = (alo + lo, ahi + hi) if cur is None else (min(cur[0], alo + lo), max(cur[1], ahi + hi))

        def do_move(var: Var, d: int) -> None:
            a = absd.get(var.name)
            if a is not None:
                absd[var.name] = (a[0], a[1] + d, a[2] + d)
                if var.name == SP_NAME:
                    spval[0], spval[1] = min(spval[0], a[1] + d), max(spval[1], a[2] + d)

        def walk(block: Block, depth: int) -> None:
            for st in block.stmts:
                steps[0] += 1
                if steps[0] > max_steps or depth > 8:
                    ok[0] = False
                    return
                o = st.o
                for fx in st.spec.fx:
                    if fx[0] == 'deref':
                        do_deref(var_of(fx[1], o), self._ev(fx[2], o), self._ev(fx[3], o))
                    elif fx[0] == 'deref_idx':
                        do_deref(var_of(fx[1], o), o[fx[2]].lo, o[fx[2]].hi)
                    elif fx[0] == 'move':
                        do_move(var_of(fx[1], o), self._ev(fx[2], o))
                    elif fx[0] == 'assign_idx':
                        a = absd.get(o[fx[2]].name)
                        absd[o[fx[1]].name] = None if a is None else (a[0], a[1] + o[fx[3]].lo, a[2] + o[fx[3]].hi)
                    elif fx[0] == 'assign':
                        absd[o[fx[1]].name] = absd[SP_NAME]
                fam = st.spec.family
                if fam == 'call' and st.spec.macro == 'stl.call':
                    do_move(self.sp, 1)  # type: ignore[arg-type]
                    do_deref(self.sp, 0, 0)  # type: ignore[arg-type]
                    live_ret.append(absd[SP_NAME][1])  # type: ignore[index]
                    walk(self.blocks[o['address']], depth + 1)
                    live_ret.pop()
                    do_deref(self.sp, 0, 0)  # type: ignore[arg-type]
                    do_move(self.sp, -1 - o.get('params_stack_length', 0))  # type: ignore[arg-type]
                elif st.spec.macro == 'stl.fcall':
                    walk(self.blocks[o['label']], depth + 1)
                if not ok[0]:
                    return

        walk(self.blocks['top'], 0)
        if not ok[0]:
            return None
        return {'deref': deref, 'spval': tuple(spval), 'steps': steps[0]}


# ====================================================================================================== value plans
CELL_BYTES = (0x00, 0xFF, 0x0F, 0xF0, 0x01, 0x80, 0xA5, 0x5A)


class Planner:
    """what gets poked at the top of a pass: cell contents, operand values, pointer targets, the depth of sp."""

    def __init__(self, b: Builder, info: Dict[str, Any], mode: str, rng: random.Random, any_bit: bool = False):
        self.b, self.mode, self.any_bit = b, mode, any_bit
        self.w, self.dw, self.shift = b.w, 2 * b.w, b.w.bit_length()
        self.dbit = b.w + self.shift
        self.cand: Dict[str, List[Tuple[Region, int]]] = {}
        self.feasible = True
        for v in b.vars:
            if v.role in PTR_ROLES:
                lo, hi = info['deref'].get(v.name, (0, 0))
                c = [(r, i) for r in b.regions for i in range(r.first, r.cells) if i + lo >= r.first and i + hi < r.cells]
                if b.ns == 'hex' and v.role != 'ptr':
                    c = [(r, i) for r, i in c if r.where != 'stack'] or c
                self.cand[v.name] = c
                if not c:
                    self.feasible = False
        self.sp_range: Optional[Tuple[int, int]] = None
        if b.sp is not None:
            S = b.stack_size
            vlo, vhi = info['spval']
            lo, hi = max(0, -vlo), S - max(0, vhi)
            if SP_NAME in info['deref']:
                dlo, dhi = info['deref'][SP_NAME]
                lo, hi = max(lo, 1 - dlo), min(hi, S - dhi)
            if lo > hi:
                self.feasible = False
            self.sp_range = (lo, hi)
        self.focus = [v for v in b.vars if v.role in PTR_ROLES]
        self.pairs: List[Tuple[int, ...]] = []
        if mode == 'pairs' and self.feasible and self.focus:
            sizes = [len(self.cand[v.name]) for v in self.focus[:2]]
            self.pairs = list(itertools.product(*[range(s) for s in sizes]))
            rng.shuffle(self.pairs)

    def total_pairs(self) -> int:
        return len(self.pairs)

    def pointer_value(self, v: Var, region: Region, cell: int, rng: random.Random) -> int:
        a = region.addr + cell * self.dw
        if v.role == 'bitptr':
            if self.any_bit:
                return a + rng.randrange(self.dw)
            return a + self.dbit + (rng.randrange(8) if self.b.kind == 'hex' else 0)
        if v.role == 'wptr':
            return a + (rng.choice([0, self.w]) if self.any_bit else self.w)
        return a

    def __call__(self, pass_index: int, rng: random.Random, attempt: int) -> Dict[str, Any]:
        b = self.b
        values: Dict[str, int] = {}
        targets: Dict[str, Tuple[str, int]] = {}
        chosen: Dict[str, Tuple[Region, int]] = {}
        if self.pairs and attempt == 0:
            combo = self.pairs[pass_index % len(self.pairs)]
            for v, k in zip(self.focus[:2], combo):
                chosen[v.name] = self.cand[v.name][k]
        for v in b.vars:
            if v.role in PTR_ROLES:
                region, cell = chosen.get(v.name) or rng.choice(self.cand[v.name])
                values[v.name] = self.pointer_value(v, region, cell, rng)
                targets[v.name] = (region.name, cell)
            elif v.role == 'free':
                values[v.name] = harness.boundary_value(rng, self.w)
            elif v.role == 'idx':
                if v.hi - v.lo > 1000:
                    values[v.name] = harness.boundary_value(rng, self.w)
                else:
                    values[v.name] = rng.choice([v.lo, v.hi, rng.randint(v.lo, v.hi)]) & ((1 << self.w) - 1)
            elif v.role == 'cptr':
                stub = rng.choice(v.stubs)
                values[v.name] = b.labels[stub.label]  # type: ignore[attr-defined]
            else:
                values[v.name] = harness.boundary_value(rng, v.bits * v.length)
        if self.sp_range is not None and b.sp is not None:
            lo, hi = self.sp_range
            depth = rng.choice([lo, hi, rng.randint(lo, hi)])
            values[SP_NAME] = b.labels[STACK_LABEL] + depth * self.dw  # type: ignore[attr-defined]
            targets[SP_NAME] = ('stack', depth)
        cells: Dict[str, List[int]] = {}
        top = 256 if b.kind == 'hex' else 2
        for region in b.regions:
            style = rng.random()
            if style < 0.1:
                cells[region.name] = [0] * region.cells
            elif style < 0.2:
                cells[region.name] = [top - 1] * region.cells
            elif style < 0.6:
                cells[region.name] = [rng.randrange(top) for _ in range(region.cells)]
            else:
                cells[region.name] = [(rng.choice(CELL_BYTES) if rng.random() < 0.5 else rng.randrange(256)) % top for _ in range(region.cells)]
        return {'values': values, 'targets': targets, 'cells': cells}


# ====================================================================================================== the monitor
class PtrMonitor:
    def __init__(self, b: Builder, labels: Dict[str, int], passes: int, planner: Planner, rng: random.Random, max_rejects: int = 60):
        self.b, self.labels, self.passes, self.planner, self.rng, self.max_rejects = b, labels, passes, planner, rng, max_rejects
        w = b.w
        self.w = w
        self.model = Model(w, 8 if b.kind == 'hex' else 1, labels)
        self.model.sp = b.sp
        self.words: List[int] = []
        self.owner: Dict[int, Tuple[str, str, int, int]] = {}
        self.poke_words: List[int] = []
        self.all_vars: List[Var] = list(b.vars) + ([b.sp] if b.sp is not None else [])
        for v in self.all_vars:
            v.addr = labels[v.name]
            for i in range(v.length):
                for k in (0, 1):
                    wi = v.addr // w + 2 * i + k
                    self.words.append(wi)
                    self.owner[wi] = ('var', v.name, i, k)
                self.poke_words.append(v.addr // w + 2 * i + 1)
        self.region_cells = 0
        for r in b.regions:
            r.addr = labels[r.label]
            for i in range(r.cells):
                for k in (0, 1):
                    wi = r.addr // w + 2 * i + k
                    self.words.append(wi)
                    self.owner[wi] = ('cell', r.name, i, k)
                    if i >= r.first:
                        self.poke_words.append(wi)
            self.region_cells += r.cells
        self.var_cells = sum(v.length for v in self.all_vars)
        # nodes
        self.nodes: Dict[int, Node] = {}
        self.first_of: Dict[str, int] = {}
        for block in b.blocks.values():
            for i, st in enumerate(block.stmts):
                nxt: Optional[int] = block.stmts[i + 1].sid if i + 1 < len(block.stmts) else (b.blocks['top'].stmts[0].sid if block.kind == 'main' else None)
                self.nodes[st.sid] = Node(st.sid, st, nxt)
            if block.stmts:
                self.first_of[block.name] = block.stmts[0].sid
        self.after: Dict[str, Optional[int]] = {f'a{st.index}': self.nodes[st.sid].next for blk in b.blocks.values() for st in blk.stmts}
        self.stub_by_addr: Dict[int, int] = {}
        for stub in b.stubs:
            self.nodes[stub.sid] = Node(stub.sid, None, self.after[stub.back])
            self.stub_by_addr[labels[stub.label]] = stub.sid
        self.top = b.blocks['top'].stmts[0].sid
        # run state
        self.bits: List[int] = []
        self.started = False
        self.capacity_checked = False
        self.expected: Optional[int] = None
        self.current: Optional[Node] = None
        self.pass_index = -1
        self.violation: Optional[Dict[str, Any]] = None
        self.harness_error: Optional[str] = None
        self.plan: Dict[str, Any] = {}
        self.pre: Dict[str, str] = {}
        self.history: List[str] = []
        # counters
        self.applications = 0
        self.syncs = 0
        self.words_compared = 0
        self.buffer_cells_compared = 0
        self.variable_cells_compared = 0
        self.rejected = 0
        self.macro_counts: Dict[str, int] = {}
        self.targets_seen: Set[Tuple[str, int]] = set()
        self.target_derefs = 0
        self.pairs_seen: Set[Tuple[int, int]] = set()
        self.last_target: Optional[int] = None
        self.max_call_depth = 0
        self.calls = 0
        self.jumps = 0
        self.adopted = 0
        self.passes_done = 0

    # ---- control + data step of the model (documented effect of one application)
    def step(self, m: Model, node: Node) -> int:
        if node.stmt is None:
            assert node.next is not None
            return node.next
        st = node.stmt
        ctl = st.spec.model(m, st.o)
        if ctl is None:
            if node.next is None:
                raise Unsafe('fell off the end of a function')
            return node.next
        kind = ctl[0]
        if kind == 'jump':
            sid = self.stub_by_addr.get(ctl[1])
            if sid is None:
                raise Unsafe('ptr_jump to something that is not a landing stub')
            return sid
        sp = m.sp
        if kind == 'call':
            assert sp is not None and node.next is not None
            new_sp = (m.get(sp) + m.dw) & m.mask
            jw = m._wellformed(new_sp)                      # "stack has room": the next stack cell is a plain cell
            known = m.retaddr.get(st.sid)
            m._write(jw, known or 0, m.mask)
            if known is None:                               # the value of the return address is not documented: it is learned once
                m.adopt[jw] = m.mask                        # per call site (must be a dw-aligned op address) and must then stay the same
                m.learn[jw] = st.sid
            m.live_ret.add(jw)
            m.ret_dirty.discard(jw)
            m.put(sp, new_sp)
            m.callstack.append((node.next, ctl[2], new_sp))
            return self.first_of[ctl[1]]
        if kind == 'return':
            assert sp is not None
            if not m.callstack:
                raise Unsafe('return without a call')
            nxt, nparams, at = m.callstack.pop()
            cur = m.get(sp)
            if cur != at:
                raise Unsafe('sp does not point at the return address')
            jw = m.need_cell(cur)
            if jw in m.ret_dirty or m._read(jw - 1, m.mask) != 0:
                raise Unsafe('the return address on the stack was modified since the call')
            m.live_ret.discard(jw)
            m._write(jw, 0, m.mask)                         # pop_ret_address: stack[sp--] = 0
            m.put(sp, (cur - (1 + nparams) * m.dw) & m.mask)
            return nxt
        if kind == 'fcall':
            assert node.next is not None
            m.fstack.append((node.next, ctl[2]))
            return self.first_of[ctl[1]]
        if kind == 'fret':
            if not m.fstack or m.fstack[-1][1] != ctl[1]:
                raise Unsafe('fret without the matching fcall')
            return m.fstack.pop()[0]
        raise AssertionError(kind)

    # ---- pass start
    def apply_plan(self, m: Model, plan: Dict[str, Any]) -> None:
        for v in self.all_vars:
            if v.name in plan['values']:
                m.put(v, plan['values'][v.name])
        for r in self.b.regions:
            base = r.addr // self.w
            data = plan['cells'][r.name]
            for i in range(r.first, r.cells):
                m.mem[base + 2 * i] = 0
                m.mem[base + 2 * i + 1] = data[i] << m.shift
                m.adopt.pop(base + 2 * i + 1, None)
                m.learn.pop(base + 2 * i + 1, None)

    def new_pass(self, memory: Any) -> bool:
        if not self.capacity_checked:
            # before anything was pushed or poked: every cell of the stack the program asked for is an empty data cell (a stack
            # built shorter than documented has the code that follows it in those places)
            self.capacity_checked = True
            w = self.w
            for r in self.b.regions:
                if r.where != 'stack':
                    continue
                for i in range(r.first, r.cells):
                    base = r.addr // w + 2 * i
                    got = (memory.read_word(base), memory.read_word(base + 1))
                    if got != (0, 0):
                        self.current = None
                        self.fail('stack-capacity', f'a stack of {r.cells - 1} cells was initialised, but cell {i} of it is not an empty cell before the first '
                                                    f'push: words {got[0]:#x}, {got[1]:#x} (something else was assembled there)')
                        return False
        for attempt in range(self.max_rejects):
            plan = self.planner(self.pass_index, self.rng, attempt)
            trial = self.model.copy()
            self.apply_plan(trial, plan)
            try:
                sid, steps = self.top, 0
                while True:
                    sid = self.step(trial, self.nodes[sid])
                    steps += 1
                    if sid == self.top:
                        break
                    if steps > 5000:
                        raise Unsafe('pass does not come back to the top')
                if trial.callstack or trial.fstack:
                    raise Unsafe('unbalanced calls')
            except Unsafe:
                self.rejected += 1
                continue
            self.plan = plan
            self.apply_plan(self.model, plan)
            mem = self.model.mem
            for wi in self.poke_words:
                memory.write_word(wi, mem[wi])
            self.history = []
            return True
        self.harness_error = f'no documented-safe pass found in {self.max_rejects} draws (pass {self.pass_index})'
        return False

    # ---- comparison
    def compare(self, memory: Any) -> bool:
        m = self.model
        rd, mem = memory.read_word, m.mem
        if m.adopt:
            for wi, mask in list(m.adopt.items()):
                obs = rd(wi)
                mem[wi] = (mem[wi] & ~mask) | (obs & mask)
                self.adopted += 1
                site = m.learn.get(wi)
                if site is not None:
                    if obs % m.dw or obs == 0:
                        self.fail('stack', f'the return address pushed by the call is {obs:#x}: not a dw-aligned op address', wi)
                        return False
                    m.retaddr[site] = obs
            m.adopt.clear()
            m.learn.clear()
        for wi in self.words:
            if rd(wi) != mem[wi]:
                self.mismatch(wi, rd(wi))
                return False
        self.words_compared += len(self.words)
        self.buffer_cells_compared += self.region_cells
        self.variable_cells_compared += self.var_cells
        return True

    def mismatch(self, wi: int, got: int) -> None:
        kind, name, cell, word = self.owner[wi]
        exp = self.model.mem[wi]
        touched = wi in self.model.touched
        shift = self.model.shift
        which = 'flip word' if word == 0 else 'jump word'
        if kind == 'cell':
            what = ('stack' if name == 'stack' else 'pointed-cell') if touched else ('stack-other-cell' if name == 'stack' else 'other-cell')
            detail = (f'{name}[{cell}] {which} = {got:#x} (data {got >> shift:#x}), documented {exp:#x} (data {exp >> shift:#x}); '
                      f'{"this is the cell the application addresses" if touched else "the application does not address this cell"}')
        else:
            var = next(v for v in self.all_vars if v.name == name)
            what = {'sp': 'sp', 'ptr': 'pointer', 'bitptr': 'pointer', 'wptr': 'pointer', 'free': 'pointer', 'cptr': 'pointer',
                    'idx': 'variable', 'data': 'variable'}[var.role]
            detail = (f'{name}[{cell}] ({var.role}) {which} = {got:#x} (digit {got >> shift:#x}), documented {exp:#x} (digit {exp >> shift:#x}); '
                      f'{"written by the application" if touched else "not an output of the application"}')
        self.fail(what, detail, wi)

    def fail(self, what: str, detail: str, wi: Optional[int] = None) -> None:
        st = self.current.stmt if self.current is not None else None
        self.violation = {
            'macro': st.spec.macro if st else '(landing stub)', 'key': st.spec.key if st else 'stub', 'doc': st.spec.doc if st else '',
            'application': st.text if st else '', 'what': what, 'detail': detail, 'w': self.w, 'operands_before': dict(self.pre),
            'pass': self.pass_index, 'targets': {k: list(v) for k, v in self.plan.get('targets', {}).items()},
            'values': {k: hex(v) for k, v in self.plan.get('values', {}).items()}, 'sequence_so_far': self.history[-12:],
        }

    def describe_operands(self, st: Stmt) -> Dict[str, str]:
        out: Dict[str, str] = {}
        m = self.model
        for name, value in st.o.items():
            if isinstance(value, Var):
                try:
                    v = m.get(value)
                except Unsafe:
                    continue
                text = f'{value.name}={v:#x}'
                if value.role in PTR_ROLES + ('sp', 'free'):
                    where = self.locate(v)
                    if where:
                        text += f' -> {where}'
                out[name] = text
            else:
                out[name] = str(value)
        if st.spec.family in ('stack', 'sp', 'call') and m.sp is not None:
            v = m.get(m.sp)
            out['sp'] = f'{v:#x} -> {self.locate(v)}'
        return out

    def locate(self, addr: int) -> str:
        for r in self.b.regions:
            off = addr - r.addr
            if 0 <= off < r.cells * 2 * self.w:
                cell, bit = divmod(off, 2 * self.w)
                return f'{r.name}[{cell}]' + (f'+{bit}' if bit else '')
        return ''

    def note_targets(self, st: Stmt) -> None:
        for name, kind in st.spec.operands:
            if kind in ('ptr', 'bitptr', 'wptr'):
                try:
                    addr = self.model.get(st.o[name])
                except Unsafe:
                    return
                for r in self.b.regions:
                    off = addr - r.addr
                    if 0 <= off < r.cells * 2 * self.w:
                        self.targets_seen.add((r.name, off // (2 * self.w)))
                        self.target_derefs += 1
                        if self.last_target is not None and len(self.pairs_seen) < 200000:
                            self.pairs_seen.add((self.last_target, addr))
                        self.last_target = addr

    # ---- the device callback
    def on_bit(self, bit: bool, memory: Any) -> bool:
        self.bits.append(1 if bit else 0)
        if len(self.bits) < ID_BITS:
            return True
        sid = sum(v << i for i, v in enumerate(self.bits))
        self.bits = []
        return self.on_event(sid, memory)

    def on_event(self, sid: int, memory: Any) -> bool:
        self.syncs += 1
        if not self.started:
            if sid != self.top:
                self.harness_error = f'first sync is {sid}, not the top of the program'
                return False
            for wi in self.words:
                self.model.mem[wi] = memory.read_word(wi)
            self.started = True
        else:
            if sid != self.expected:
                exp_node = self.nodes.get(self.expected) if self.expected is not None else None
                got_node = self.nodes.get(sid)
                self.fail('control-flow', f'control reached sync point {sid} ({self.node_name(got_node)}), documented: sync point '
                                          f'{self.expected} ({self.node_name(exp_node)})')
                return False
            if not self.compare(memory):
                return False
            if self.current is not None and self.current.stmt is not None:
                self.applications += 1
                key = self.current.stmt.spec.key
                self.macro_counts[key] = self.macro_counts.get(key, 0) + 1
        if sid == self.top:
            self.passes_done = self.pass_index + 1
            self.pass_index += 1
            if self.pass_index >= self.passes:
                return False
            if not self.new_pass(memory):
                return False
        node = self.nodes[sid]
        self.current = node
        self.model.touched = set()
        if node.stmt is not None:
            self.pre = self.describe_operands(node.stmt)
            self.history.append(node.stmt.text)
            self.note_targets(node.stmt)
        try:
            self.expected = self.step(self.model, node)
        except Unsafe as exc:  # cannot happen after a successful dry run
            self.harness_error = f'model/dry-run disagreement at {node.stmt.text if node.stmt else "stub"}: {exc}'
            return False
        if node.stmt is not None:
            fam = node.stmt.spec.family
            if fam in ('call', 'fcall'):
                self.calls += 1
                self.max_call_depth = max(self.max_call_depth, len(self.model.callstack) + len(self.model.fstack))
            elif fam in ('jump', 'bit_jump'):
                self.jumps += 1
        return True

    def node_name(self, node: Optional[Node]) -> str:
        if node is None:
            return 'unknown'
        if node.stmt is None:
            return 'a ptr_jump landing stub'
        return f'before "{node.stmt.text}" in {node.stmt.block}'


def run_program(path: Path, monitor: PtrMonitor, engine: str = 'native', watchdog_s: float = 240.0) -> Dict[str, Any]:
    from flipjump.interpreter.io_devices.IODevice import IODevice
    from flipjump.utils.exceptions import IODeviceException, IOReadOnEOF

    class Stop(IODeviceException):
        pass

    class Device(IODevice):
        def __init__(self) -> None:
            self.memory: Any = None

        def attach_memory(self, device_memory: Any) -> None:
            self.memory = device_memory

        def write_bit(self, bit: bool) -> None:
            if not monitor.on_bit(bit, self.memory):
                raise Stop('monitor finished')

        def read_bit(self) -> bool:
            raise IOReadOnEOF('the pointer monitor supplies no input')

        def get_output(self, *, allow_incomplete_output: bool = False) -> bytes:
            return b''

    obs = engines.run_engine(path, {'engine': engine}, Device(), watchdog_s=watchdog_s)
    finished = obs.get('exc') is not None and isinstance(obs.get('exc_obj'), Stop)
    obs.pop('exc_obj', None)
    return {'finished': finished, 'obs': obs}


# ====================================================================================================== program generators
def specs_for(ns: str) -> List[PSpec]:
    return [s for s in SPECS if s.ns == ns]


def standard_pool(b: Builder, n_ptr: int = 3, n_data: int = 3) -> None:
    for _ in range(n_data):
        b.new_var('data')
    for _ in range(n_ptr):
        b.new_var('ptr')
    b.new_var('bitptr')
    b.new_var('wptr')
    b.new_var('free')
    if b.ns == 'hex':
        b.new_var('idx', lo=-3, hi=3)
        b.new_var('idx', lo=-2, hi=0)


def gen_pair(rng: random.Random, spec: PSpec, w: int, n: Optional[int] = None, apps: int = 2) -> Builder:
    """the same macro applied twice through two different pointers (all ordered pairs of target cells get poked)."""
    small = w == 16
    b = Builder(w, spec.ns, rng, stack_size=24, cells=(6, 6, 6) if small else (12, 12, 12),
                regions=('near', 'high') if small else ('near', 'mid', 'high'))
    if n is None:
        n = rng.choice(list(spec.n_values))
    for k in range(apps):
        if spec.key == 'hex.pop_ret_address':       # "assumes the cell has the value of return_address": preceded by its push
            label = ('top', 'lbl_far')[k % 2]
            b.add('top', BY_KEY['hex.push_ret_address'], {'return_address': label})
            b.add('top', spec, {'return_address': label})
            continue
        pool: Dict[str, List[Var]] = {}
        for name, kind in spec.operands:
            if kind in ('ptr', 'bitptr', 'wptr'):
                pool.setdefault(kind, []).append(b.new_var(kind))
            elif kind == 'aptr':
                pool.setdefault('free', []).append(b.new_var('free'))
            elif kind == 'dptr':
                pool.setdefault('free', []).append(b.new_var('free'))
            elif kind == 'idx':
                if spec.family == 'arith':      # the pointers of an arithmetic pair program are never dereferenced: any index
                    pool.setdefault('idx', []).append(b.new_var('idx', lo=-(1 << (w - 1)), hi=(1 << (w - 1)) - 1))
                else:
                    pool.setdefault('idx', []).append(b.new_var('idx', lo=-4, hi=4))
            elif kind in ('hex', 'byte', 'hexn', 'byten', 'bit', 'bitaddr'):
                need = {'hex': 1, 'byte': 2, 'hexn': n, 'byten': 2 * n, 'bit': 1, 'bitaddr': 1}[kind]
                pool.setdefault('data', []).append(b.new_var('data', need + k % 2))   # (exactly as long as the macro uses, then one cell longer)
        saved = b.pools
        b.pools = pool
        o = b.bind(spec, n, sequence=False)
        b.pools = saved
        assert o is not None, spec.key
        b.add('top', spec, o)
    b.new_var('data', 2)            # bystanders
    if not small:
        b.new_var('ptr')
    return b


def emit_push(b: Builder, block: str, pending: List[Tuple[Any, ...]]) -> None:
    rng = b.rng
    kind = rng.choice(['hex', 'byte', 'vec', 'vec', 'ret', 'raw'])
    if kind == 'hex':
        o = b.bind(BY_KEY['hex.push_hex'])
        if o:
            b.add(block, BY_KEY['hex.push_hex'], o)
            pending.append(('hex',))
    elif kind == 'byte':
        o = b.bind(BY_KEY['hex.push_byte'])
        if o:
            b.add(block, BY_KEY['hex.push_byte'], o)
            pending.append(('byte',))
    elif kind == 'vec':
        n = rng.choice([1, 2, 3, 4, 5, 6])
        o = b.bind(BY_KEY['hex.push/n'], n)
        if o:
            b.add(block, BY_KEY['hex.push/n'], o)
            pending.append(('vec', n))
    elif kind == 'ret':
        label = rng.choice(['top', 'lbl_far'])
        b.add(block, BY_KEY['hex.push_ret_address'], {'return_address': label})
        pending.append(('ret', label))
    else:
        k = rng.choice([1, 1, 2, 3])
        if k == 1 and rng.random() < 0.6:
            b.add(block, BY_KEY['hex.sp_inc'], {})
        else:
            b.add(block, BY_KEY['hex.sp_add'], {'value': k})
        pending.append(('raw', k))


def emit_pop(b: Builder, block: str, item: Tuple[Any, ...]) -> None:
    rng = b.rng

    def add(key: str, n: Optional[int] = None, **o: Any) -> bool:
        spec = BY_KEY[key]
        bound = b.bind(spec, n) if spec.operands and not o else o
        if bound is None:
            return False
        b.add(block, spec, bound)
        return True

    kind = item[0]
    if kind in ('hex', 'byte'):
        choice = rng.choice(['pop_hex', 'pop_byte', 'pop_' + kind, 'pop_' + kind, 'sp_dec', 'sp_sub'])
        if choice == 'sp_dec':
            add('hex.sp_dec')
        elif choice == 'sp_sub':
            add('hex.sp_sub', value=1)
        elif not add('hex.' + choice):
            add('hex.sp_dec')
    elif kind == 'vec':
        n = item[1]
        if rng.random() < 0.8 and add('hex.pop/n', n):
            return
        add('hex.sp_sub', value=(n + 1) // 2)
    elif kind == 'ret':
        add('hex.pop_ret_address', return_address=item[1])
    else:
        k = item[1]
        if k == 1 and rng.random() < 0.5:
            add('hex.sp_dec')
        else:
            add('hex.sp_sub', value=k)


def gen_body(b: Builder, block: str, length: int, pool: List[PSpec], stack: bool, callees: Sequence[str] = (), force_call: Optional[str] = None) -> None:
    rng = b.rng
    pending: List[Tuple[Any, ...]] = []
    forced_at = rng.randrange(length) if force_call else -1
    i = 0
    guard = 0
    while i < length and guard < 400:
        guard += 1
        if i == forced_at and force_call:
            emit_call(b, block, force_call)
            forced_at = -1
            i += 1
            continue
        r = rng.random()
        if stack and pending and r < 0.22:
            emit_pop(b, block, pending.pop())
        elif stack and r < 0.42 and len(pending) < 5:
            emit_push(b, block, pending)
        elif callees and r < 0.5:
            emit_call(b, block, rng.choice(list(callees)))
        else:
            spec = rng.choice(pool)
            o = b.bind(spec)
            if o is None:
                continue
            b.add(block, spec, o)
        i += 1
    while pending:
        emit_pop(b, block, pending.pop())


def emit_call(b: Builder, block: str, callee: str) -> None:
    rng = b.rng
    target = b.blocks[callee]
    if target.kind == 'fcall':
        b.add(block, BY_KEY['stl.fcall'], {'label': callee, 'ret_reg': target.reg})
        return
    if rng.random() < 0.45:
        # parameters on the stack, removed by the call itself
        cells = 0
        for _ in range(rng.choice([1, 2, 3])):
            which = rng.choice(['hex', 'byte', 'vec'])
            if which == 'vec':
                n = rng.choice([2, 3, 4])
                o = b.bind(BY_KEY['hex.push/n'], n)
                if o:
                    b.add(block, BY_KEY['hex.push/n'], o)
                    cells += (n + 1) // 2
            else:
                spec = BY_KEY['hex.push_' + which]
                o = b.bind(spec)
                if o:
                    b.add(block, spec, o)
                    cells += 1
        b.add(block, BY_KEY['stl.call/params'], {'address': callee, 'params_stack_length': cells})
    else:
        b.add(block, BY_KEY['stl.call'], {'address': callee})


def sequence_pool(ns: str, with_jump: bool = True) -> List[PSpec]:
    stack_keys = {'stack'}
    pool = [s for s in specs_for(ns) if s.seq and s.family not in stack_keys and s.macro not in ('hex.sp_inc', 'hex.sp_dec', 'hex.sp_add', 'hex.sp_sub')]
    if not with_jump:
        pool = [s for s in pool if s.family not in ('jump', 'bit_jump')]
    return pool


def gen_sequence(rng: random.Random, w: int, ns: str, length: int, stack: bool = True) -> Builder:
    small = w == 16
    b = Builder(w, ns, rng, stack_size=32, cells=(5, 5, 5) if small else (14, 12, 14), regions=('near', 'high') if small else ('near', 'mid', 'high'))
    standard_pool(b, n_ptr=2 if small else 3, n_data=2 if small else 3)
    gen_body(b, 'top', length, sequence_pool(ns), stack and ns == 'hex')
    return b


def gen_calls(rng: random.Random, w: int, depth: int) -> Builder:
    """call nests: f1 calls f2 calls ... f<depth>; every function may be stl.call-ed (with or without stack parameters) or
    stl.fcall-ed from several sites; bodies hold pointer / stack applications of their own (balanced)."""
    b = Builder(w, 'hex', rng, stack_size=48, cells=(10, 10, 10))
    standard_pool(b, n_ptr=3, n_data=3)
    names = [f'f{i}' for i in range(1, depth + 1)]
    for name in names:
        kind = 'fcall' if rng.random() < 0.3 else 'call'
        blk = Block(name, kind)
        if kind == 'fcall':
            blk.reg = f'reg_{name}'
            b.regs.append(blk.reg)
        b.blocks[name] = blk
    pool = sequence_pool('hex', with_jump=True)
    for i in range(depth - 1, -1, -1):
        name = names[i]
        deeper = names[i + 1:]
        extra = [d for d in deeper[1:3] if rng.random() < 0.35]
        gen_body(b, name, rng.choice([1, 2, 3]), pool, True, callees=extra[:1], force_call=deeper[0] if deeper else None)
        blk = b.blocks[name]
        if blk.kind == 'fcall':
            b.add(name, BY_KEY['stl.fret'], {'ret_reg': blk.reg})
        else:
            b.add(name, BY_KEY['stl.return'], {})
    gen_body(b, 'top', rng.choice([3, 5, 7]), pool, True, callees=names[1:3] if rng.random() < 0.5 else (), force_call=names[0])
    # functions first in the text would run at startup: keep 'top' first
    order = ['top'] + names
    b.blocks = {k: b.blocks[k] for k in order}
    return b


# ====================================================================================================== running + recording
class Recorder:
    def __init__(self, prop: str = 'C08') -> None:
        self.prop = prop
        self.counters: Dict[str, Any] = {}
        self.violations: List[Dict[str, Any]] = []
        self.hashes: List[str] = []
        self.samples: List[Any] = []

    def count(self, key: str, n: int = 1) -> None:
        self.counters[key] = self.counters.get(key, 0) + n

    def bump(self, table: str, key: str, n: int = 1) -> None:
        self.counters.setdefault(table, {})
        self.counters[table][key] = self.counters[table].get(key, 0) + n

    def note_error(self, text: str) -> None:
        self.counters.setdefault('harness_errors', [])
        if len(self.counters['harness_errors']) < 8:
            self.counters['harness_errors'].append(text[:300])

    def run(self, b: Builder, passes: int, mode: str, label: str, recipe: Dict[str, Any], journal: Any, rng: random.Random,
            any_bit: bool = False, fast_passes: int = 0) -> Optional[PtrMonitor]:
        info = b.analyse()
        self.count('programs_generated')
        if info is None:
            self.count('programs_discarded_by_generator')
            return None
        text = b.render()
        journal.note({'program': text[:6000], 'w': b.w, 'label': label, 'recipe': recipe})
        path, labels, error = harness.assemble_program(text, b.w, tag=self.prop.lower())
        if path is None or labels is None:
            self.count('programs_not_assembled')
            self.counters.setdefault('assembly_errors', [])
            if len(self.counters['assembly_errors']) < 8:
                self.counters['assembly_errors'].append(f'{label} w={b.w}: {error[:200]}')
            return None
        b.labels = labels  # type: ignore[attr-defined]
        planner = Planner(b, info, mode, random.Random(rng.getrandbits(64)), any_bit=any_bit)
        if not planner.feasible:
            self.count('programs_discarded_by_generator')
            return None
        seed = rng.getrandbits(64)
        mon = PtrMonitor(b, labels, passes, planner, random.Random(seed))
        result = run_program(path, mon)
        if mon.harness_error is not None and mon.applications == 0 and mon.harness_error.startswith('no documented-safe pass'):
            self.count('programs_discarded_as_unrunnable')     # e.g. a pointer that can only ever hit a live return address: regenerate
            return None
        self.account(mon, b, label)
        if mon.violation is not None:
            self.add_violation(mon.violation, text, label, recipe)
        elif mon.harness_error is not None and mon.harness_error.startswith('no documented-safe pass'):
            # the random planner ran out of draws for a LATER pass: the passes already monitored stand, the program just ends early
            self.count('programs_cut_short_for_lack_of_a_safe_pass')
        elif mon.harness_error is not None:
            self.count('programs_with_harness_error')
            self.note_error(f'{label} w={b.w}: {mon.harness_error}')
        elif not result['finished']:
            obs = result['obs']
            st = mon.current.stmt if mon.current is not None else None
            key = f'{st.spec.macro if st else "startup"}/run-ended-early/{obs.get("cause")}'
            if sum(1 for x in self.violations if 'run-ended-early' in x['key']) < 3:
                self.violations.append({'key': key, 'what': f'{label} w={b.w}: run ended with {obs.get("cause")} {obs.get("exc")} during '
                                                            f'"{st.text if st else "startup"}" (pass {mon.pass_index}); operands {mon.pre}; '
                                                            f'targets {mon.plan.get("targets")}; after {mon.history[-6:]}',
                                        'replay': {'recipe': recipe, 'program': text[:8000], 'obs': {k: str(v) for k, v in obs.items()}, 'w': b.w}})
        elif fast_passes:
            # the same program on the pure-Python fast loop: an engine defect must not masquerade as a library defect
            mon2 = PtrMonitor(b, labels, fast_passes, planner, random.Random(seed))
            res2 = run_program(path, mon2, engine='fast')
            self.count('fast_engine_slices')
            self.count('fast_engine_applications', mon2.applications)
            if mon2.violation is not None or mon2.harness_error is not None or not res2['finished']:
                self.violations.append({'key': 'fast-engine-slice-disagrees',
                                        'what': f'{label}: native run clean, fast loop: {mon2.violation or mon2.harness_error or res2["obs"]}',
                                        'replay': {'recipe': recipe, 'program': text[:8000]}})
        return mon

    def account(self, mon: PtrMonitor, b: Builder, label: str) -> None:
        self.count('programs_run')
        self.count('applications_monitored', mon.applications)
        self.count('sync_points_checked', mon.syncs)
        self.count('words_compared', mon.words_compared)
        self.count('buffer_and_stack_cells_compared', mon.buffer_cells_compared)
        self.count('variable_and_pointer_cells_compared', mon.variable_cells_compared)
        self.count('passes_poked', mon.passes_done)
        self.count('passes_redrawn_as_undocumented', mon.rejected)
        self.count('pointer_dereferences_with_known_target', mon.target_derefs)
        self.count('distinct_target_cells_per_program_sum', len(mon.targets_seen))
        self.count('distinct_consecutive_target_address_pairs', len(mon.pairs_seen))
        self.count('calls_monitored', mon.calls)
        self.count('ptr_jumps_monitored', mon.jumps)
        self.count('unspecified_bits_adopted', mon.adopted)
        if mon.max_call_depth:
            self.bump('call_depths', str(mon.max_call_depth))
        self.bump('width', f'{b.ns}/{b.w}')
        for region, _cell in mon.targets_seen:
            self.bump('target_regions', region)
        for key, n in mon.macro_counts.items():
            self.bump('macros', key, n)
            self.bump('families', BY_KEY[key].family, n)
            self.bump('macro_widths', f'{key}@{b.w}', n)

    def add_violation(self, v: Dict[str, Any], text: str, label: str, recipe: Dict[str, Any]) -> None:
        key = f'{v["key"]}/{v["what"]}'
        if sum(1 for x in self.violations if x['key'] == key) >= 2:
            return
        self.violations.append({
            'key': key,
            'what': f'{v["application"]} ({v["doc"]}) w={v["w"]}: {v["detail"]}; operands before: {v["operands_before"]}; '
                    f'after {v["sequence_so_far"][-6:]}',
            'replay': {**v, 'recipe': recipe, 'label': label, 'program': text[:12000]},
        })


def passes_for(tier: str, quick: int, thorough: int) -> int:
    return quick if tier == 'quick' else thorough


def run_recipe(rec: Recorder, recipe: Dict[str, Any], journal: Any) -> Optional[PtrMonitor]:
    """one program, fully determined by its recipe (this is also what --replay re-runs)."""
    kind, tier, w = recipe['kind'], recipe['tier'], recipe['w']
    rng = rng_for(recipe['seed'], 'C08', kind, recipe['index'], w, recipe.get('key', ''), recipe.get('n', ''))
    mon: Optional[PtrMonitor] = None
    for attempt in range(6):        # the generator may discard a program (a pointer span that fits no buffer)
        if kind == 'pair':
            spec = BY_KEY[recipe['key']]
            b = gen_pair(rng, spec, w, recipe.get('n'), apps=2 if attempt == 0 else 1)     # w=16: two applications may not fit
            passes = passes_for(tier, 1500 if w < 64 else 1200, 8000)
            if spec.ns == 'bit':
                passes = passes_for(tier, 600 if w < 64 else 300, 3000)
            mon = rec.run(b, passes, 'pairs', f'pair:{spec.key}/{recipe.get("n")}', recipe, journal, rng, any_bit=spec.any_bit,
                          fast_passes=4 if recipe['index'] % 3 == 0 else 0)
        elif kind == 'sequence':
            ns = recipe['ns']
            length = recipe['length']
            b = gen_sequence(rng, w, ns, max(1, length - attempt) if w == 16 else length)     # w=16: the whole program must fit in 2^16 bits
            passes = passes_for(tier, max(60, 4000 // length), 40000 // length) if ns == 'hex' else passes_for(tier, max(40, 1500 // length), 15000 // length)
            mon = rec.run(b, passes, 'random', f'sequence#{recipe["index"]}', recipe, journal, rng, fast_passes=2 if recipe['index'] % 4 == 0 else 0)
        elif kind == 'calls':
            b = gen_calls(rng, w, recipe['depth'])
            mon = rec.run(b, passes_for(tier, 120, 1500), 'random', f'calls#{recipe["index"]}/depth{recipe["depth"]}', recipe, journal, rng,
                          fast_passes=1 if recipe['index'] % 4 == 0 else 0)
        else:
            raise ValueError(kind)
        if mon is not None:
            break
    if mon is not None:
        rec.hashes.append(case_hash([kind, recipe.get('key'), recipe.get('n'), w, [st.text for blk in mon.b.blocks.values() for st in blk.stmts]]))
        rec.count(f'{kind}_programs')
        if len(rec.samples) < 1:
            rec.samples.append({'kind': kind, 'w': w, 'recipe': recipe, 'applications': [st.text for blk in mon.b.blocks.values() for st in blk.stmts][:14],
                                'passes': mon.passes_done, 'applications_monitored': mon.applications,
                                'last_pass_targets': {k: list(v) for k, v in mon.plan.get('targets', {}).items()}})
    engines.cleanup_tmpdir()
    return mon
