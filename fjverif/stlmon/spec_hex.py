"""Spec table for the hex namespace (C04) - see spec_bit.py for the conventions. (to be filled)"""

from __future__ import annotations

from typing import List

from fjverif.stlmon.harness import Operand as O
from fjverif.stlmon.harness import Spec

SPECS: List[Spec] = [
    Spec('hex.zero', [O('x', 'hex', 'w', '1')], lambda n, v, c, w: ({'x': 0}, None), 'hex/memory.fj', n_values=[0], needs='hex',
         widths=(32, 64)),
]
