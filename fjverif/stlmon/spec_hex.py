"""
Spec table for the hex namespace (C04): one entry per documented data macro (and per overload) of
/repo/flipjump/stl/hex/{memory,logics,math_basic,math,shifts,cond_jumps,mul,div}.fj, transcribed from the
`//   formula` comment above its `def` (file:line in `doc`).  The model functions say what the DOCUMENTATION
promises - they are not derived from the macro bodies.  See spec_bit.py for the conventions.

model(n, v, c, w) -> (updates, branch) | None:  v = current values of the variable operands (reduced to the cells
the macro uses; a hex cell is one hex digit, little-endian), c = constant operands; None = the documentation does
not say what happens for these inputs.

Library-internal state (HIDDEN below) is monitored at every SYNC like any other variable:
  * the add / sub carry ("carry is both input and output, and is saved in the 8th bit in hex.{add/sub}.dst",
    math_basic.fj:92) - an explicit rw operand of the scalar hex.add / hex.sub and of the *_carry macros;
  * hex.mul.dst[0] and the 4-bit hex.mul.add_carry_dst (mul.fj:4, :104-106) - explicit operands of the scalar hex.add_mul;
  * hex.tables.res, hex.tables.ret, hex.mul.ret and the or/and/cmp table jumpers ("expected to be 0 after the jump").
A macro whose documentation does not name one of these must leave it exactly as it was (that is the "no stale
carry / table state" half of the property). The add / sub carry is `stale_ok`: documented macros (scalar hex.add / hex.sub,
set_carry, not_carry) leave it set, so every macro that does not name it must still compute its formula whatever it holds, and
leave it as it was or clean. When one of the OTHER registers ("expected to be 0") is already nonzero before a macro that does
not name it, nothing is promised (harness: unspecified).
"""

from __future__ import annotations

from typing import Any, Dict, List, Optional, Tuple

from fjverif.stlmon.harness import Operand as O
from fjverif.stlmon.harness import Spec, Var, boundary_value

R = Optional[Tuple[Dict[str, int], Optional[str]]]

HIDDEN: List[Var] = [
    Var('add_carry', 'field', 1, label='hex.add.dst', bit_offset=8, hidden=True, stale_ok=True),
    Var('sub_carry', 'field', 1, label='hex.sub.dst', bit_offset=8, hidden=True, stale_ok=True),
    Var('mul_dst', 'field', 4, label='hex.mul.dst', bit_offset=0, hidden=True),
    Var('mul_carry', 'field', 4, label='hex.mul.add_carry_dst', bit_offset=0, hidden=True),
    Var('tables_res', 'hex', 1, label='hex.tables.res', hidden=True),
    Var('tables_ret', 'field', 0, label='hex.tables.ret', hidden=True),
    Var('mul_ret', 'field', 0, label='hex.mul.ret', hidden=True),
    Var('or_dst', 'field', 0, label='hex.or.dst', hidden=True),
    Var('and_dst', 'field', 0, label='hex.and.dst', hidden=True),
    Var('cmp_dst', 'field', 0, label='hex.cmp.dst', hidden=True),
]


def H(n: int) -> int:
    """mask of n hex digits."""
    return (1 << (4 * n)) - 1


def signed(x: int, digits: int) -> int:
    bits = 4 * digits
    return x - (1 << bits) if x >> (bits - 1) else x


def popcount(x: int) -> int:
    return bin(x).count('1')


def small_n(n: int) -> int:
    """((#(n*4))+3)/4 - math_basic.fj:82."""
    return ((n * 4).bit_length() + 3) // 4


SMALL_N = '((n*4).bit_length()+3)//4'


# ------------------------------------------------------------------------------------------------ constant generators
def digit(rng, n, w):  # type: ignore[no-untyped-def]
    return rng.randrange(16)


def vec_const(rng, n, w):  # type: ignore[no-untyped-def]
    """a constant for a hex[:n] formula; sometimes wider than n digits (the formula is mod 16^n)."""
    return boundary_value(rng, 4 * n + (4 if rng.random() < 0.15 else 0))


def positive_below_16n(rng, n, w):  # type: ignore[no-untyped-def]
    return max(1, boundary_value(rng, 4 * n))


def times_le_n(rng, n, w):  # type: ignore[no-untyped-def]
    return rng.randrange(0, n + 1)


def one_to_n(rng, n, w):  # type: ignore[no-untyped-def]
    return rng.randrange(1, n + 1)


def src_n_le_n(rng, n, w):  # type: ignore[no-untyped-def]
    return 0 if rng.random() < 0.08 else rng.randrange(1, n + 1)


def shift_fitting(key):  # type: ignore[no-untyped-def]
    def gen(rng, n, w, consts):  # type: ignore[no-untyped-def]
        return rng.randrange(0, n - consts[key] + 1)
    return gen


def const_of_n_const(rng, n, w, consts):  # type: ignore[no-untyped-def]
    return boundary_value(rng, 4 * consts['n_const'])


def flags16(rng, n, w):  # type: ignore[no-untyped-def]
    return rng.choice([0xfffe, 0xff00, 0, 0xffff, 1, 0x8000]) if rng.random() < 0.3 else rng.getrandbits(16)


def nb_near_n(rng, n, w):  # type: ignore[no-untyped-def]
    return rng.randrange(1, n + 2)


def rem_opt_values(rng, n, w):  # type: ignore[no-untyped-def]
    return rng.choice([0, 0, 0, 1, 1, 1, 2, 2, 2, 3, -1, 7])


# ------------------------------------------------------------------------------------------------ models
def up(**kw: int) -> R:
    return kw, None


def cmp3(a: int, b: int) -> str:
    return 'lt' if a < b else 'eq' if a == b else 'gt'


def add_scalar(n: int, v: Dict[str, int], c: Dict[str, int], w: int) -> R:
    t = v['dst'] + v['src'] + v['carry']
    return up(dst=t & 15, carry=t >> 4)


def sub_scalar(n: int, v: Dict[str, int], c: Dict[str, int], w: int) -> R:
    t = v['dst'] - v['src'] - v['carry']
    return up(dst=t & 15, carry=1 if t < 0 else 0)


def add_mul_scalar(n: int, v: Dict[str, int], c: Dict[str, int], w: int) -> R:
    t = v['res'] + v['x'] * v['mul_dst'] + v['mul_carry']       # {add_carry_dst : res} = ...
    return up(res=t & 15, mul_carry=t >> 4)


def sign_extend(n: int, v: Dict[str, int], c: Dict[str, int], w: int) -> R:
    s = c['signed_n']
    return up(hex=signed(v['hex'] & H(s), s) & H(n))


def div_model(n: int, v: Dict[str, int], c: Dict[str, int], w: int) -> R:
    a, b = v['a'], v['b']
    if b == 0:
        return {}, 'div0'
    return up(q=(a // b) & H(n), r=(a % b) & H(c['nb']))


def idiv_model(n: int, v: Dict[str, int], c: Dict[str, int], w: int) -> R:
    nb, opt = c['nb'], c['rem_opt']
    if v['b'] == 0:
        return {}, 'div0'
    if opt not in (0, 1, 2):
        return {}, 'div0'
    a, b = signed(v['a'], n), signed(v['b'], nb)
    if opt == 0:                      # sign(r) == sign(b)
        q = a // b
        r = a - q * b
    elif opt == 1:                    # sign(r) == sign(a)
        q = abs(a) // abs(b)
        if (a < 0) != (b < 0):
            q = -q
        r = a - q * b
    else:                             # r is always positive
        r = a % abs(b)
        q = (a - r) // b
    assert a == q * b + r and abs(r) < abs(b)
    if not -(1 << (4 * n - 1)) <= q < (1 << (4 * n - 1)):
        return None                   # the quotient does not fit hex[:n] (most-negative / -1): the documentation is silent
    return up(q=q & H(n), r=r & H(nb))


def bits4(prefix: str) -> List[O]:
    return [O(f'{prefix}{i}', 'bitaddr', 'rw', '1') for i in (3, 2, 1, 0)]


def exact_xor_bits(n: int, v: Dict[str, int], c: Dict[str, int], w: int) -> R:
    return {f'd{i}': v[f'd{i}'] ^ ((v['src'] >> i) & 1) for i in range(4)}, None


def S(macro: str, operands: List[O], model: Any, doc: str, requires: str = '', **kw: Any) -> Spec:
    """requires = the tables the macro's documentation says it needs (`@requires hex.<table>.init`).  A macro documented
    without any `@requires` is table-free: it gets the carry / multiplier states as role-'k' (kept) operands, i.e. it must
    compute its formula and leave those states untouched even when they are nonzero.  A table-using macro promises nothing
    while any of them is dirty, except for the states its own formula names."""
    kw.setdefault('n_values', (1, 2, 3, 4, 6))
    if not requires:
        operands = operands + [hid('kept_add_carry', 'k', 1, 'add_carry'), hid('kept_sub_carry', 'k', 1, 'sub_carry'),
                               hid('kept_mul_dst', 'k', 4, 'mul_dst'), hid('kept_mul_carry', 'k', 4, 'mul_carry')]
    return Spec(macro, operands, model, f'hex/{doc}', needs='hex', widths=(32, 64), requires=requires, **kw)


def N() -> O:
    return O('n', 'n')


def hid(name: str, role: str, bits: int, target: str) -> O:
    return O(name, 'hidden', role, str(bits), target=target)


SCALAR = {'n_values': [0]}
LT_EQ_GT = [O('lt', 'label'), O('eq', 'label'), O('gt', 'label')]

SPECS: List[Spec] = [
    # ---------------------------------------------------------------- hex/memory.fj
    S('hex.zero', [O('hex', 'hex', 'rw', '1')], lambda n, v, c, w: up(hex=0), 'memory.fj:36', **SCALAR),
    S('hex.zero', [N(), O('x', 'hex', 'rw')], lambda n, v, c, w: up(x=0), 'memory.fj:43'),
    S('hex.mov', [O('dst', 'hex', 'w', '1'), O('src', 'hex', 'r', '1')], lambda n, v, c, w: up(dst=v['src']), 'memory.fj:50', **SCALAR),
    # "Unsafe if dst and src overlap! but safe if they are the exact same address."
    S('hex.mov', [N(), O('dst', 'hex', 'w'), O('src', 'hex', 'r')], lambda n, v, c, w: up(dst=v['src']), 'memory.fj:63',
      alias_ok=[('dst', 'src')]),
    S('hex.xor_by', [O('hex', 'hex', 'rw', '1'), O('val', 'const', values=digit)], lambda n, v, c, w: up(hex=v['hex'] ^ c['val']),
      'memory.fj:72', **SCALAR),
    S('hex.xor_by', [N(), O('hex', 'hex', 'rw'), O('val', 'const', values=vec_const)],
      lambda n, v, c, w: up(hex=(v['hex'] ^ c['val']) & H(n)), 'memory.fj:78'),
    S('hex.set', [O('hex', 'hex', 'rw', '1'), O('val', 'const', values=digit)], lambda n, v, c, w: up(hex=c['val']), 'memory.fj:85', **SCALAR),
    S('hex.set', [N(), O('hex', 'hex', 'rw'), O('val', 'const', values=vec_const)], lambda n, v, c, w: up(hex=c['val'] & H(n)),
      'memory.fj:93'),
    S('hex.swap', [O('hex1', 'hex', 'rw', '1'), O('hex2', 'hex', 'rw', '1')], lambda n, v, c, w: up(hex1=v['hex2'], hex2=v['hex1']),
      'memory.fj:100', **SCALAR),
    S('hex.swap', [N(), O('hex1', 'hex', 'rw'), O('hex2', 'hex', 'rw')], lambda n, v, c, w: up(hex1=v['hex2'], hex2=v['hex1']),
      'memory.fj:114', alias_ok=[('hex1', 'hex2')]),
    # ---------------------------------------------------------------- hex/logics.fj
    S('hex.xor', [O('dst', 'hex', 'rw', '1'), O('src', 'hex', 'r', '1')], lambda n, v, c, w: up(dst=v['dst'] ^ v['src']), 'logics.fj:8',
      **SCALAR),
    S('hex.xor', [N(), O('dst', 'hex', 'rw'), O('src', 'hex', 'r')], lambda n, v, c, w: up(dst=v['dst'] ^ v['src']), 'logics.fj:17'),
    # {d3,d2,d1,d0} ^= src : once with the four bit-addresses of one hex variable, once with four separate bit variables
    S('hex.exact_xor', [O('d', 'hexbits', 'rw', '1'), O('src', 'hex', 'r', '1')], lambda n, v, c, w: up(d=v['d'] ^ v['src']),
      'logics.fj:25', **SCALAR),
    S('hex.exact_xor', bits4('d') + [O('src', 'hex', 'r', '1')], exact_xor_bits, 'logics.fj:25', **SCALAR),
    S('hex.xor_zero', [O('dst', 'hex', 'rw', '1'), O('src', 'hex', 'rw', '1')], lambda n, v, c, w: up(dst=v['dst'] ^ v['src'], src=0),
      'logics.fj:54', **SCALAR),
    S('hex.xor_zero', [N(), O('dst', 'hex', 'rw'), O('src', 'hex', 'rw')], lambda n, v, c, w: up(dst=v['dst'] ^ v['src'], src=0),
      'logics.fj:64'),
    S('hex.double_xor', [O('dst1', 'hex', 'rw', '1'), O('dst2', 'hex', 'rw', '1'), O('src', 'hex', 'r', '1')],
      lambda n, v, c, w: up(dst1=v['dst1'] ^ v['src'], dst2=v['dst2'] ^ v['src']), 'logics.fj:72', **SCALAR),
    S('hex.address_and_variable_xor', [N(), O('address', 'fieldaddr', 'rw', '4*n'), O('var', 'hex', 'rw'), O('src', 'hex', 'r')],
      lambda n, v, c, w: up(address=v['address'] ^ v['src'], var=v['var'] ^ v['src']), 'logics.fj:85', n_values=(1, 2, 3, 4)),
    S('hex.double_exact_xor', [O('t', 'hexbits', 'rw', '1'), O('d', 'hexbits', 'rw', '1'), O('src', 'hex', 'r', '1')],
      lambda n, v, c, w: up(t=v['t'] ^ v['src'], d=v['d'] ^ v['src']), 'logics.fj:97', **SCALAR),
    S('hex.address_and_variable_double_xor',
      [N(), O('address1', 'fieldaddr', 'rw', '4*n'), O('var1', 'hex', 'rw'), O('address2', 'fieldaddr', 'rw', '4*n'), O('var2', 'hex', 'rw'),
       O('src', 'hex', 'r')],
      lambda n, v, c, w: up(address1=v['address1'] ^ v['src'], var1=v['var1'] ^ v['src'], address2=v['address2'] ^ v['src'],
                            var2=v['var2'] ^ v['src']), 'logics.fj:144', n_values=(1, 2, 3, 4)),
    S('hex.quadrupled_exact_xor',
      [O('r', 'hexbits', 'rw', '1'), O('q', 'hexbits', 'rw', '1'), O('t', 'hexbits', 'rw', '1'), O('d', 'hexbits', 'rw', '1'),
       O('src', 'hex', 'r', '1')],
      lambda n, v, c, w: up(r=v['r'] ^ v['src'], q=v['q'] ^ v['src'], t=v['t'] ^ v['src'], d=v['d'] ^ v['src']), 'logics.fj:160', **SCALAR),
    S('hex.not', [O('hex', 'hex', 'rw', '1')], lambda n, v, c, w: up(hex=15 - v['hex']), 'logics.fj:247', **SCALAR),
    S('hex.not', [N(), O('x', 'hex', 'rw')], lambda n, v, c, w: up(x=v['x'] ^ H(n)), 'logics.fj:256'),
    S('hex.or', [O('dst', 'hex', 'rw', '1'), O('src', 'hex', 'r', '1')], lambda n, v, c, w: up(dst=v['dst'] | v['src']), 'logics.fj:264', requires='or',
      **SCALAR),
    S('hex.or', [N(), O('dst', 'hex', 'rw'), O('src', 'hex', 'r')], lambda n, v, c, w: up(dst=v['dst'] | v['src']), 'logics.fj:274', requires='or'),
    S('hex.and', [O('dst', 'hex', 'rw', '1'), O('src', 'hex', 'r', '1')], lambda n, v, c, w: up(dst=v['dst'] & v['src']), 'logics.fj:314', requires='and',
      **SCALAR),
    S('hex.and', [N(), O('dst', 'hex', 'rw'), O('src', 'hex', 'r')], lambda n, v, c, w: up(dst=v['dst'] & v['src']), 'logics.fj:324', requires='and'),
    # ---------------------------------------------------------------- hex/math_basic.fj
    # "@Assumes: dst and src do not alias."
    S('hex.add_count_bits', [N(), O('dst', 'hex', 'rw'), O('src', 'hex', 'r', '1')],
      lambda n, v, c, w: up(dst=(v['dst'] + popcount(v['src'])) & H(n)), 'math_basic.fj:8', n_values=(1, 2, 3, 4)),
    S('hex.count_bits', [N(), O('dst', 'hex', 'w', SMALL_N), O('x', 'hex', 'r')], lambda n, v, c, w: up(dst=popcount(v['x'])),
      'math_basic.fj:79', n_values=(1, 2, 3, 4, 5, 8)),
    S('hex.inc1', [O('hex', 'hex', 'rw', '1'), O('carry0', 'label'), O('carry1', 'label')],
      lambda n, v, c, w: ({'hex': (v['hex'] + 1) & 15}, 'carry1' if v['hex'] == 15 else 'carry0'), 'math_basic.fj:98', falls_through=False,
      **SCALAR),
    S('hex.inc', [N(), O('hex', 'hex', 'rw')], lambda n, v, c, w: up(hex=(v['hex'] + 1) & H(n)), 'math_basic.fj:129'),
    S('hex.dec1', [O('hex', 'hex', 'rw', '1'), O('borrow0', 'label'), O('borrow1', 'label')],
      lambda n, v, c, w: ({'hex': (v['hex'] - 1) & 15}, 'borrow1' if v['hex'] == 0 else 'borrow0'), 'math_basic.fj:144',
      falls_through=False, **SCALAR),
    S('hex.dec', [N(), O('hex', 'hex', 'rw')], lambda n, v, c, w: up(hex=(v['hex'] - 1) & H(n)), 'math_basic.fj:176'),
    S('hex.neg', [N(), O('x', 'hex', 'rw')], lambda n, v, c, w: up(x=(-v['x']) & H(n)), 'math_basic.fj:191'),
    # "(two's complement; the minimal value -2^(4n-1) stays itself)"
    S('hex.abs', [N(), O('x', 'hex', 'rw')], lambda n, v, c, w: up(x=abs(signed(v['x'], n)) & H(n)), 'math_basic.fj:200'),
    S('hex.sign_extend', [N(), O('signed_n', 'const', values=one_to_n), O('hex', 'hex', 'rw')], sign_extend, 'math_basic.fj:211'),
    # ---------------------------------------------------------------- hex/math.fj
    # "Relies on the add-carry, and updates it at the end."  (carry: math_basic.fj:92)
    S('hex.add', [O('dst', 'hex', 'rw', '1'), O('src', 'hex', 'r', '1'), hid('carry', 'rw', 1, 'add_carry')], add_scalar, 'math.fj:7', requires='add',
      **SCALAR),
    S('hex.add', [N(), O('dst', 'hex', 'rw'), O('src', 'hex', 'r')], lambda n, v, c, w: up(dst=(v['dst'] + v['src']) & H(n)), 'math.fj:18', requires='add'),
    S('hex.add_shifted', [N(), O('src_n', 'const', values=src_n_le_n), O('dst', 'hex', 'rw'), O('src', 'hex', 'r', 'src_n'),
                          O('hex_shift', 'const', values=shift_fitting('src_n'))],
      lambda n, v, c, w: up(dst=(v['dst'] + (v['src'] << (4 * c['hex_shift']))) & H(n)), 'math.fj:28', requires='add'),
    # "const must be a positive constant."
    S('hex.add_constant', [N(), O('dst', 'hex', 'rw'), O('const', 'const', values=positive_below_16n)],
      lambda n, v, c, w: up(dst=(v['dst'] + c['const']) & H(n)), 'math.fj:41', requires='add', pre=lambda n, c, w: 0 < c['const'] < 16 ** n),
    # "const is a constant of size hex[:n_const]"
    S('hex.add.add_hex_shifted_constant',
      [N(), O('n_const', 'const', values=one_to_n), O('dst', 'hex', 'rw'), O('const', 'const', values=const_of_n_const),
       O('hex_shift', 'const', values=shift_fitting('n_const'))],
      lambda n, v, c, w: up(dst=(v['dst'] + (c['const'] << (4 * c['hex_shift']))) & H(n)), 'math.fj:58', requires='add',
      pre=lambda n, c, w: 0 <= c['const'] < 16 ** c['n_const']),
    S('hex.add.clear_carry', [hid('carry', 'rw', 1, 'add_carry')], lambda n, v, c, w: up(carry=0), 'math.fj:73', requires='add', **SCALAR),
    S('hex.add.clear_carry', [O('c0', 'label'), O('c1', 'label'), hid('carry', 'rw', 1, 'add_carry')],
      lambda n, v, c, w: ({'carry': 0}, 'c0' if v['carry'] == 0 else 'c1'), 'math.fj:84', requires='add', falls_through=False, **SCALAR),
    S('hex.add.not_carry', [hid('carry', 'rw', 1, 'add_carry')], lambda n, v, c, w: up(carry=v['carry'] ^ 1), 'math.fj:96', requires='add', **SCALAR),
    S('hex.add.set_carry', [hid('carry', 'rw', 1, 'add_carry')], lambda n, v, c, w: up(carry=1), 'math.fj:104', requires='add', **SCALAR),
    S('hex.sub', [O('dst', 'hex', 'rw', '1'), O('src', 'hex', 'r', '1'), hid('carry', 'rw', 1, 'sub_carry')], sub_scalar, 'math.fj:153', requires='sub',
      **SCALAR),
    S('hex.sub', [N(), O('dst', 'hex', 'rw'), O('src', 'hex', 'r')], lambda n, v, c, w: up(dst=(v['dst'] - v['src']) & H(n)), 'math.fj:163', requires='sub'),
    S('hex.sub_shifted', [N(), O('src_n', 'const', values=src_n_le_n), O('dst', 'hex', 'rw'), O('src', 'hex', 'r', 'src_n'),
                          O('hex_shift', 'const', values=shift_fitting('src_n'))],
      lambda n, v, c, w: up(dst=(v['dst'] - (v['src'] << (4 * c['hex_shift']))) & H(n)), 'math.fj:173', requires='sub'),
    S('hex.sub_constant', [N(), O('dst', 'hex', 'rw'), O('const', 'const', values=positive_below_16n)],
      lambda n, v, c, w: up(dst=(v['dst'] - c['const']) & H(n)), 'math.fj:186', requires='sub', pre=lambda n, c, w: 0 < c['const'] < 16 ** n),
    S('hex.sub.sub_hex_shifted_constant',
      [N(), O('n_const', 'const', values=one_to_n), O('dst', 'hex', 'rw'), O('const', 'const', values=const_of_n_const),
       O('hex_shift', 'const', values=shift_fitting('n_const'))],
      lambda n, v, c, w: up(dst=(v['dst'] - (c['const'] << (4 * c['hex_shift']))) & H(n)), 'math.fj:201', requires='sub',
      pre=lambda n, c, w: 0 <= c['const'] < 16 ** c['n_const']),
    S('hex.sub.clear_carry', [hid('carry', 'rw', 1, 'sub_carry')], lambda n, v, c, w: up(carry=0), 'math.fj:216', requires='sub', **SCALAR),
    S('hex.sub.clear_carry', [O('c0', 'label'), O('c1', 'label'), hid('carry', 'rw', 1, 'sub_carry')],
      lambda n, v, c, w: ({'carry': 0}, 'c0' if v['carry'] == 0 else 'c1'), 'math.fj:225', requires='sub', falls_through=False, **SCALAR),
    S('hex.sub.not_carry', [hid('carry', 'rw', 1, 'sub_carry')], lambda n, v, c, w: up(carry=v['carry'] ^ 1), 'math.fj:238', requires='sub', **SCALAR),
    S('hex.sub.set_carry', [hid('carry', 'rw', 1, 'sub_carry')], lambda n, v, c, w: up(carry=1), 'math.fj:246', requires='sub', **SCALAR),
    # ---------------------------------------------------------------- hex/shifts.fj
    S('hex.shl_bit', [N(), O('dst', 'hex', 'rw')], lambda n, v, c, w: up(dst=(v['dst'] << 1) & H(n)), 'shifts.fj:7'),
    S('hex.shr_bit', [N(), O('dst', 'hex', 'rw')], lambda n, v, c, w: up(dst=v['dst'] >> 1), 'shifts.fj:16'),
    S('hex.shl_hex', [N(), O('dst', 'hex', 'rw')], lambda n, v, c, w: up(dst=(v['dst'] << 4) & H(n)), 'shifts.fj:25'),
    # "@Assumes: times <= n"
    S('hex.shl_hex', [N(), O('times', 'const', values=times_le_n), O('dst', 'hex', 'rw')],
      lambda n, v, c, w: up(dst=(v['dst'] << (4 * c['times'])) & H(n)), 'shifts.fj:32', pre=lambda n, c, w: 0 <= c['times'] <= n),
    S('hex.shr_hex', [N(), O('dst', 'hex', 'rw')], lambda n, v, c, w: up(dst=v['dst'] >> 4), 'shifts.fj:44'),
    S('hex.shr_hex', [N(), O('times', 'const', values=times_le_n), O('dst', 'hex', 'rw')],
      lambda n, v, c, w: up(dst=v['dst'] >> (4 * c['times'])), 'shifts.fj:51', pre=lambda n, c, w: 0 <= c['times'] <= n),
    # ---------------------------------------------------------------- hex/cond_jumps.fj
    # "flags (constant): 16 bit constant; bit i indicates whether to jump to l0/l1 when hex=i."
    S('hex.if_flags', [O('hex', 'hex', 'r', '1'), O('flags', 'const', values=flags16), O('l0', 'label'), O('l1', 'label')],
      lambda n, v, c, w: ({}, 'l1' if c['flags'] & (1 << v['hex']) else 'l0'), 'cond_jumps.fj:7', falls_through=False, **SCALAR),
    S('hex.if', [O('hex', 'hex', 'r', '1'), O('l0', 'label'), O('l1', 'label')], lambda n, v, c, w: ({}, 'l0' if v['hex'] == 0 else 'l1'),
      'cond_jumps.fj:30', falls_through=False, **SCALAR),
    S('hex.if0', [O('hex', 'hex', 'r', '1'), O('l0', 'label')], lambda n, v, c, w: ({}, 'l0' if v['hex'] == 0 else None),
      'cond_jumps.fj:34', **SCALAR),
    S('hex.if1', [O('hex', 'hex', 'r', '1'), O('l1', 'label')], lambda n, v, c, w: ({}, 'l1' if v['hex'] != 0 else None),
      'cond_jumps.fj:39', **SCALAR),
    S('hex.if', [N(), O('hex', 'hex', 'r'), O('l0', 'label'), O('l1', 'label')], lambda n, v, c, w: ({}, 'l0' if v['hex'] == 0 else 'l1'),
      'cond_jumps.fj:47', falls_through=False),
    S('hex.if0', [N(), O('hex', 'hex', 'r'), O('l0', 'label')], lambda n, v, c, w: ({}, 'l0' if v['hex'] == 0 else None),
      'cond_jumps.fj:52'),
    S('hex.if1', [N(), O('hex', 'hex', 'r'), O('l1', 'label')], lambda n, v, c, w: ({}, 'l1' if v['hex'] != 0 else None),
      'cond_jumps.fj:57'),
    S('hex.sign', [N(), O('number', 'hex', 'r'), O('neg', 'label'), O('zpos', 'label')],
      lambda n, v, c, w: ({}, 'neg' if signed(v['number'], n) < 0 else 'zpos'), 'cond_jumps.fj:66', falls_through=False),
    S('hex.cmp', [O('a', 'hex', 'r', '1'), O('b', 'hex', 'r', '1')] + LT_EQ_GT, lambda n, v, c, w: ({}, cmp3(v['a'], v['b'])),
      'cond_jumps.fj:74', requires='cmp', falls_through=False, **SCALAR),
    S('hex.cmp', [N(), O('a', 'hex', 'r'), O('b', 'hex', 'r')] + LT_EQ_GT, lambda n, v, c, w: ({}, cmp3(v['a'], v['b'])),
      'cond_jumps.fj:113', requires='cmp', falls_through=False),
    # "(unsigned)  @Assumes dst is distinct from a and b"
    S('hex.min', [N(), O('dst', 'hex', 'w'), O('a', 'hex', 'r'), O('b', 'hex', 'r')], lambda n, v, c, w: up(dst=min(v['a'], v['b'])),
      'cond_jumps.fj:165', requires='cmp'),
    S('hex.max', [N(), O('dst', 'hex', 'w'), O('a', 'hex', 'r'), O('b', 'hex', 'r')], lambda n, v, c, w: up(dst=max(v['a'], v['b'])),
      'cond_jumps.fj:181', requires='cmp'),
    # "SIGNED (two's complement): jumps to lt if a<b, eq if a==b, gt if a>b ... NOT modified ... correct over the whole range"
    S('hex.scmp', [N(), O('a', 'hex', 'r'), O('b', 'hex', 'r')] + LT_EQ_GT, lambda n, v, c, w: ({}, cmp3(signed(v['a'], n), signed(v['b'], n))),
      'cond_jumps.fj:203', requires='cmp', falls_through=False),
    # ---------------------------------------------------------------- hex/mul.fj
    # ".mul.add_carry_dst : res  +=  x * .mul.dst + .mul.add_carry_dst"   (all hex)
    S('hex.add_mul', [O('res', 'hex', 'rw', '1'), O('x', 'hex', 'r', '1'), hid('mul_dst', 'r', 4, 'mul_dst'),
                      hid('mul_carry', 'rw', 4, 'mul_carry')], add_mul_scalar, 'mul.fj:4', requires='add', **SCALAR),
    # "res[n] += a[n] * b[1]"
    S('hex.add_mul', [N(), O('res', 'hex', 'rw'), O('a', 'hex', 'r'), O('b', 'hex', 'r', '1')],
      lambda n, v, c, w: up(res=(v['res'] + v['a'] * v['b']) & H(n)), 'mul.fj:20', requires='add', n_values=(1, 2, 3, 4, 6)),
    S('hex.mul10', [N(), O('x', 'hex', 'rw')], lambda n, v, c, w: up(x=(v['x'] * 10) & H(n)), 'mul.fj:33', requires='add'),
    S('hex.mul', [N(), O('res', 'hex', 'w'), O('a', 'hex', 'r'), O('b', 'hex', 'r')], lambda n, v, c, w: up(res=(v['a'] * v['b']) & H(n)),
      'mul.fj:49', requires='add', n_values=(1, 2, 3, 4, 7, 9, 15, 17)),   # (loop-based: lengths around the powers of two and sixteen too)
    # ---------------------------------------------------------------- hex/div.fj
    # "q,a are hex[:n], while r,b are hex[:nb]. div0 is the bit-address this function will jump to in-case b is zero."
    S('hex.div', [N(), O('nb', 'const', values=nb_near_n), O('q', 'hex', 'w'), O('r', 'hex', 'w', 'nb'), O('a', 'hex', 'r'),
                  O('b', 'hex', 'r', 'nb'), O('div0', 'label')], div_model, 'div.fj:4', requires='sub,cmp', n_values=(1, 2, 3, 4, 9)),
    S('hex.idiv', [N(), O('nb', 'const', values=nb_near_n), O('q', 'hex', 'w'), O('r', 'hex', 'w', 'nb'), O('a', 'hex', 'r'),
                   O('b', 'hex', 'r', 'nb'), O('div0', 'label'), O('rem_opt', 'const', values=rem_opt_values)], idiv_model, 'div.fj:74', requires='sub,cmp',
      n_values=(1, 2, 3, 4)),
]
