"""
Spec table for the bit namespace (C05): one entry per documented data macro, transcribed from the
`//   formula` comment above its `def` (file:line in `doc`).  The model functions say what the
DOCUMENTATION promises - they are not derived from the macro bodies.

model(n, v, c, w) -> (updates, branch):  v = current values of the variable operands (low n cells),
c = constant operands; updates = new values of the operands the documentation says change; branch =
name of the label operand control must go to (None = falls through to the next statement).
"""

from __future__ import annotations

from typing import Dict, List, Optional, Tuple

from fjverif.stlmon.harness import Operand as O
from fjverif.stlmon.harness import Spec

R = Tuple[Dict[str, int], Optional[str]]


def M(n: int) -> int:
    return (1 << n) - 1


def signed(x: int, n: int) -> int:
    return x - (1 << n) if x >> (n - 1) else x


def times_le_n(rng, n, w):  # type: ignore[no-untyped-def]
    return rng.randrange(0, n + 1)


def trunc_div(a: int, b: int) -> Tuple[int, int]:
    q = abs(a) // abs(b)
    if (a < 0) != (b < 0):
        q = -q
    return q, a - q * b


def div_model(is_signed: bool):  # type: ignore[no-untyped-def]
    def model(n: int, v: Dict[str, int], c: Dict[str, int], w: int) -> R:
        a, b = v['a'], v['b']
        if b == 0:
            return {}, None  # "if b==0: goto end (do nothing)"
        if is_signed:
            q, r = trunc_div(signed(a, n), signed(b, n))  # sign(r) == sign(a)
        else:
            q, r = a // b, a % b
        return {'q': q & M(n), 'r': r & M(n)}, None
    return model


SPECS: List[Spec] = [
    # ---------------------------------------------------------------- bit/memory.fj
    Spec('bit.zero', [O('x', 'bit', 'w', '1')], lambda n, v, c, w: ({'x': 0}, None), 'bit/memory.fj:36', n_values=[0]),
    Spec('bit.zero', [O('n', 'n'), O('x', 'bit', 'w')], lambda n, v, c, w: ({'x': 0}, None), 'bit/memory.fj:42'),
    Spec('bit.one', [O('x', 'bit', 'w', '1')], lambda n, v, c, w: ({'x': 1}, None), 'bit/memory.fj:49', n_values=[0]),
    Spec('bit.one', [O('n', 'n'), O('x', 'bit', 'w')], lambda n, v, c, w: ({'x': M(n)}, None), 'bit/memory.fj:56'),
    Spec('bit.unsafe_mov', [O('dst', 'bit', 'w', '1'), O('src', 'bit', 'r', '1')], lambda n, v, c, w: ({'dst': v['src']}, None),
         'bit/memory.fj:64', n_values=[0]),
    Spec('bit.mov', [O('dst', 'bit', 'w', '1'), O('src', 'bit', 'r', '1')], lambda n, v, c, w: ({'dst': v['src']}, None),
         'bit/memory.fj:73', n_values=[0], alias_ok=[('dst', 'src')]),
    Spec('bit.mov', [O('n', 'n'), O('dst', 'bit', 'w'), O('src', 'bit', 'r')], lambda n, v, c, w: ({'dst': v['src']}, None),
         'bit/memory.fj:83', alias_ok=[('dst', 'src')]),
    Spec('bit.swap', [O('a', 'bit', 'rw', '1'), O('b', 'bit', 'rw', '1')], lambda n, v, c, w: ({'a': v['b'], 'b': v['a']}, None),
         'bit/memory.fj:93', n_values=[0]),
    Spec('bit.swap', [O('n', 'n'), O('a', 'bit', 'rw'), O('b', 'bit', 'rw')], lambda n, v, c, w: ({'a': v['b'], 'b': v['a']}, None),
         'bit/memory.fj:108'),
    # ---------------------------------------------------------------- bit/logics.fj
    Spec('bit.xor', [O('dst', 'bit', 'rw', '1'), O('src', 'bit', 'r', '1')], lambda n, v, c, w: ({'dst': v['dst'] ^ v['src']}, None),
         'bit/logics.fj:6', n_values=[0], alias_ok=[('dst', 'src')]),
    Spec('bit.xor', [O('n', 'n'), O('dst', 'bit', 'rw'), O('src', 'bit', 'r')], lambda n, v, c, w: ({'dst': v['dst'] ^ v['src']}, None),
         'bit/logics.fj:13'),
    Spec('bit.exact_xor', [O('dst', 'bitaddr', 'rw', '1'), O('src', 'bit', 'r', '1')],
         lambda n, v, c, w: ({'dst': v['dst'] ^ v['src']}, None), 'bit/logics.fj:21', n_values=[0]),
    Spec('bit.double_exact_xor', [O('dst1', 'bitaddr', 'rw', '1'), O('dst2', 'bitaddr', 'rw', '1'), O('src', 'bit', 'r', '1')],
         lambda n, v, c, w: ({'dst1': v['dst1'] ^ v['src'], 'dst2': v['dst2'] ^ v['src']}, None), 'bit/logics.fj:35', n_values=[0]),
    Spec('bit.xor_zero', [O('dst', 'bit', 'rw', '1'), O('src', 'bit', 'rw', '1')],
         lambda n, v, c, w: ({'dst': v['dst'] ^ v['src'], 'src': 0}, None), 'bit/logics.fj:58', n_values=[0]),
    Spec('bit.xor_zero', [O('n', 'n'), O('dst', 'bit', 'rw'), O('src', 'bit', 'rw')],
         lambda n, v, c, w: ({'dst': v['dst'] ^ v['src'], 'src': 0}, None), 'bit/logics.fj:66'),
    Spec('bit.or', [O('dst', 'bit', 'rw', '1'), O('src', 'bit', 'r', '1')], lambda n, v, c, w: ({'dst': v['dst'] | v['src']}, None),
         'bit/logics.fj:75', n_values=[0]),
    Spec('bit.or', [O('n', 'n'), O('dst', 'bit', 'rw'), O('src', 'bit', 'r')], lambda n, v, c, w: ({'dst': v['dst'] | v['src']}, None),
         'bit/logics.fj:84'),
    Spec('bit.and', [O('dst', 'bit', 'rw', '1'), O('src', 'bit', 'r', '1')], lambda n, v, c, w: ({'dst': v['dst'] & v['src']}, None),
         'bit/logics.fj:92', n_values=[0]),
    Spec('bit.and', [O('n', 'n'), O('dst', 'bit', 'rw'), O('src', 'bit', 'r')], lambda n, v, c, w: ({'dst': v['dst'] & v['src']}, None),
         'bit/logics.fj:101'),
    Spec('bit.not', [O('dst', 'bit', 'rw', '1')], lambda n, v, c, w: ({'dst': v['dst'] ^ 1}, None), 'bit/logics.fj:109', n_values=[0]),
    Spec('bit.not', [O('n', 'n'), O('dst', 'bit', 'rw')], lambda n, v, c, w: ({'dst': v['dst'] ^ M(n)}, None), 'bit/logics.fj:116'),
    Spec('bit.exact_not', [O('dst', 'bitaddr', 'rw', '1')], lambda n, v, c, w: ({'dst': v['dst'] ^ 1}, None), 'bit/logics.fj:123',
         n_values=[0]),
    # ---------------------------------------------------------------- bit/cond_jumps.fj
    Spec('bit.if', [O('x', 'bit', 'r', '1'), O('l0', 'label'), O('l1', 'label')],
         lambda n, v, c, w: ({}, 'l0' if v['x'] == 0 else 'l1'), 'bit/cond_jumps.fj:6', n_values=[0], falls_through=False),
    Spec('bit.if', [O('n', 'n'), O('x', 'bit', 'r'), O('l0', 'label'), O('l1', 'label')],
         lambda n, v, c, w: ({}, 'l0' if v['x'] == 0 else 'l1'), 'bit/cond_jumps.fj:19', falls_through=False),
    Spec('bit.if1', [O('x', 'bit', 'r', '1'), O('l1', 'label')], lambda n, v, c, w: ({}, 'l1' if v['x'] == 1 else None),
         'bit/cond_jumps.fj:27', n_values=[0]),
    Spec('bit.if1', [O('n', 'n'), O('x', 'bit', 'r'), O('l1', 'label')], lambda n, v, c, w: ({}, 'l1' if v['x'] != 0 else None),
         'bit/cond_jumps.fj:35'),
    Spec('bit.if0', [O('x', 'bit', 'r', '1'), O('l0', 'label')], lambda n, v, c, w: ({}, 'l0' if v['x'] == 0 else None),
         'bit/cond_jumps.fj:43', n_values=[0]),
    Spec('bit.if0', [O('n', 'n'), O('x', 'bit', 'r'), O('l0', 'label')], lambda n, v, c, w: ({}, 'l0' if v['x'] == 0 else None),
         'bit/cond_jumps.fj:51'),
    Spec('bit.cmp', [O('a', 'bit', 'r', '1'), O('b', 'bit', 'r', '1'), O('lt', 'label'), O('eq', 'label'), O('gt', 'label')],
         lambda n, v, c, w: ({}, 'lt' if v['a'] < v['b'] else 'eq' if v['a'] == v['b'] else 'gt'), 'bit/cond_jumps.fj:61', n_values=[0],
         falls_through=False),
    Spec('bit.cmp', [O('n', 'n'), O('a', 'bit', 'r'), O('b', 'bit', 'r'), O('lt', 'label'), O('eq', 'label'), O('gt', 'label')],
         lambda n, v, c, w: ({}, 'lt' if v['a'] < v['b'] else 'eq' if v['a'] == v['b'] else 'gt'), 'bit/cond_jumps.fj:75',
         falls_through=False),
    # ---------------------------------------------------------------- bit/shifts.fj
    Spec('bit.shr', [O('n', 'n'), O('x', 'bit', 'rw')], lambda n, v, c, w: ({'x': v['x'] >> 1}, None), 'bit/shifts.fj:6'),
    Spec('bit.shr', [O('n', 'n'), O('times', 'const', values=times_le_n), O('x', 'bit', 'rw')],
         lambda n, v, c, w: ({'x': v['x'] >> c['times']}, None), 'bit/shifts.fj:12'),
    Spec('bit.shra', [O('n', 'n'), O('times', 'const', values=times_le_n), O('x', 'bit', 'rw')],
         lambda n, v, c, w: ({'x': (signed(v['x'], n) >> c['times']) & M(n)}, None), 'bit/shifts.fj:21'),
    Spec('bit.shl', [O('n', 'n'), O('x', 'bit', 'rw')], lambda n, v, c, w: ({'x': (v['x'] << 1) & M(n)}, None), 'bit/shifts.fj:31'),
    Spec('bit.shl', [O('n', 'n'), O('times', 'const', values=times_le_n), O('x', 'bit', 'rw')],
         lambda n, v, c, w: ({'x': (v['x'] << c['times']) & M(n)}, None), 'bit/shifts.fj:37'),
    Spec('bit.ror', [O('n', 'n'), O('x', 'bit', 'rw')], lambda n, v, c, w: ({'x': (v['x'] >> 1) | ((v['x'] & 1) << (n - 1))}, None),
         'bit/shifts.fj:47'),
    Spec('bit.rol', [O('n', 'n'), O('x', 'bit', 'rw')], lambda n, v, c, w: ({'x': ((v['x'] << 1) & M(n)) | (v['x'] >> (n - 1))}, None),
         'bit/shifts.fj:59'),
    # ---------------------------------------------------------------- bit/math.fj  ("carry is both input and output")
    Spec('bit.inc1', [O('dst', 'bit', 'rw', '1'), O('carry', 'bit', 'rw', '1')],
         lambda n, v, c, w: ({'dst': (v['dst'] + v['carry']) & 1, 'carry': (v['dst'] + v['carry']) >> 1}, None), 'bit/math.fj:8',
         n_values=[0]),
    Spec('bit.inc', [O('n', 'n'), O('x', 'bit', 'rw')], lambda n, v, c, w: ({'x': (v['x'] + 1) & M(n)}, None), 'bit/math.fj:32'),
    Spec('bit.dec', [O('n', 'n'), O('x', 'bit', 'rw')], lambda n, v, c, w: ({'x': (v['x'] - 1) & M(n)}, None), 'bit/math.fj:45'),
    # bit.neg is documented `x[:n]--` (a copy of the line above it); its name, its hex twin and every caller say negation
    Spec('bit.neg', [O('n', 'n'), O('x', 'bit', 'rw')], lambda n, v, c, w: ({'x': (-v['x']) & M(n)}, None), 'bit/math.fj:55'),
    Spec('bit.add1', [O('dst', 'bit', 'rw', '1'), O('src', 'bit', 'r', '1'), O('carry', 'bit', 'rw', '1')],
         lambda n, v, c, w: ({'dst': (v['dst'] + v['src'] + v['carry']) & 1, 'carry': (v['dst'] + v['src'] + v['carry']) >> 1}, None),
         'bit/math.fj:65', n_values=[0]),
    Spec('bit.add', [O('n', 'n'), O('dst', 'bit', 'rw'), O('src', 'bit', 'r')], lambda n, v, c, w: ({'dst': (v['dst'] + v['src']) & M(n)}, None),
         'bit/math.fj:78'),
    Spec('bit.sub', [O('n', 'n'), O('dst', 'bit', 'rw'), O('src', 'bit', 'r')], lambda n, v, c, w: ({'dst': (v['dst'] - v['src']) & M(n)}, None),
         'bit/math.fj:89'),
    # ---------------------------------------------------------------- bit/mul.fj
    Spec('bit.mul10', [O('n', 'n'), O('x', 'bit', 'rw')], lambda n, v, c, w: ({'x': (v['x'] * 10) & M(n)}, None), 'bit/mul.fj:3',
         n_values=(1, 2, 3, 4, 5, 8)),
    Spec('bit.mul_loop', [O('n', 'n'), O('dst', 'bit', 'rw'), O('src', 'bit', 'r')],
         lambda n, v, c, w: ({'dst': (v['dst'] * v['src']) & M(n)}, None), 'bit/mul.fj:20', n_values=(1, 2, 3, 4, 6)),
    Spec('bit.mul', [O('n', 'n'), O('dst', 'bit', 'rw'), O('src', 'bit', 'r')],
         lambda n, v, c, w: ({'dst': (v['dst'] * v['src']) & M(n)}, None), 'bit/mul.fj:53', n_values=(1, 2, 3, 4, 6),
         alias_ok=[('dst', 'src')]),
    # ---------------------------------------------------------------- bit/div.fj
    Spec('bit.div10', [O('n', 'n'), O('dst', 'bit', 'w'), O('src', 'bit', 'rw')],
         lambda n, v, c, w: ({'dst': v['src'] // 10, 'src': v['src'] % 10}, None), 'bit/div.fj:3', n_values=(1, 2, 3, 4, 5, 7, 8)),
    Spec('bit.idiv', [O('n', 'n'), O('a', 'bit', 'r'), O('b', 'bit', 'r'), O('q', 'bit', 'w'), O('r', 'bit', 'w')], div_model(True),
         'bit/div.fj:54', n_values=(2, 3, 4, 6)),
    Spec('bit.div', [O('n', 'n'), O('a', 'bit', 'r'), O('b', 'bit', 'r'), O('q', 'bit', 'w'), O('r', 'bit', 'w')], div_model(False),
         'bit/div.fj:102', n_values=(1, 2, 3, 4, 6)),
    Spec('bit.idiv_loop', [O('n', 'n'), O('a', 'bit', 'r'), O('b', 'bit', 'r'), O('q', 'bit', 'w'), O('r', 'bit', 'w')], div_model(True),
         'bit/div.fj:150', n_values=(2, 3, 4, 6)),
    Spec('bit.div_loop', [O('n', 'n'), O('a', 'bit', 'r'), O('b', 'bit', 'r'), O('q', 'bit', 'w'), O('r', 'bit', 'w')], div_model(False),
         'bit/div.fj:198', n_values=(1, 2, 3, 4, 6)),
]
