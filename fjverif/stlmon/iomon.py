"""
The MODEL-DRIVEN IO monitor (C09): the stl SYNC harness (harness.py) extended to macros that print and read.

Why a second device: print macros emit arbitrary bits, so "a 0 bit = SYNC, 1 bits = branch marker" (harness.py) is
ambiguous.  Here the device knows, at every SYNC, which application comes next; it asks the spec table for

    * the exact output bit string the application must emit,
    * the input bits the application may consume (exactly these are offered; a read beyond them is either a
      violation or - when the documented behaviour IS to go on reading - the expected end of the run by EOF),
    * the documented values of the operands afterwards and the documented branch,

then (a) compares every output bit as it arrives, (b) after the expected output counts marker 1-bits up to the next
0 (= the next SYNC), (c) compares the number of input bits consumed, (d) reads every cell of every declared variable
(destinations, sources, cells beyond [:n], bystanders, byte buffers) through DeviceMemory and compares with the model.
After a violation the program is stopped: the two bit streams are no longer in step.

Program shape (one assembly serves thousands of cases; values/inputs change per pass, the program text does not):

        stl.startup_and_init_all 20            // stl.startup for bit-only programs
  top:  q0+dbit;                               // "control really is at SYNC 0" witness, see below
        stl.output_bit 0                       // SYNC before application 0
        <application 0>
  a0:   q1+dbit;
        stl.output_bit 0                       // SYNC before application 1 = check of application 0
        ...
        ;top
  sK_J: stl.output_bit 1 (J+1 times) ; ;aK     // marker stub for label operand J of application K
  v0:   bit.vec / hex.vec ...                  // operands, bystanders, byte buffers (hex.vec cells used as packed bytes)
  q0:   bit.bit ...                            // one witness bit per application

The witness bits make a surplus 0 bit emitted by a print macro detectable on the spot: a 0 that arrives after the
documented output is a SYNC only if the program has flipped the witness of that SYNC; the monitor clears it again.
"""

from __future__ import annotations

import random
from dataclasses import dataclass, field
from pathlib import Path
from typing import Any, Callable, Dict, List, Optional, Sequence, Set, Tuple

from fjverif import engines
from fjverif.stlmon.harness import Operand, Var

Bits = List[int]


# ------------------------------------------------------------------------------------------------ small helpers
def bits_of(value: int, count: int) -> Bits:
    return [(value >> i) & 1 for i in range(count)]


def bits_of_bytes(data: bytes) -> Bits:
    """a byte stream as the device sees it: lsb of each byte first."""
    out: Bits = []
    for byte in data:
        out.extend((byte >> i) & 1 for i in range(8))
    return out


def bytes_of_bits(bits: Sequence[int]) -> bytes:
    """whole bytes only (a trailing partial byte is dropped)."""
    return bytes(sum(bits[i + k] << k for k in range(8)) for i in range(0, len(bits) - len(bits) % 8, 8))


def show_bits(bits: Sequence[int]) -> str:
    whole = bytes_of_bits(bits)
    tail = ''.join(str(b) for b in bits[len(whole) * 8:])
    return repr(whole) + (f'+bits[{tail}]' if tail else '')


CELL_BITS = {'bit': 1, 'hex': 4, 'byte': 8}


def cell_bits(var: Var) -> int:
    return CELL_BITS[var.kind]


def var_bits(var: Var) -> int:
    return cell_bits(var) * var.length


def make_var(name: str, kind: str, length: int) -> Var:
    """kind 'byte' = a buffer of packed bytes: `hex.vec length` cells used with 8 data bits each (what hex.write_byte stores)."""
    return Var(name, kind, length)


# ------------------------------------------------------------------------------------------------ spec interface
@dataclass
class Res:
    """what the documentation promises for one application."""
    out: Bits = field(default_factory=list)          # exact output bit string
    consumed: Optional[Tuple[int, int]] = None       # (min, max) input bits consumed; None = exactly 0
    updates: Dict[str, int] = field(default_factory=dict)   # operand name -> documented new value
    branch: Optional[str] = None                     # label operand control must reach (None = falls through)
    unspecified: Set[str] = field(default_factory=set)      # operands whose content the documentation leaves open
    eof: bool = False                                # the documented behaviour needs more input than was supplied


class Ctx:
    """what a model function sees."""

    def __init__(self, n: int, w: int, v: Dict[str, int], c: Dict[str, int], inp: Bits, monitor: Optional['IOMonitor'] = None):
        self.n, self.w, self.v, self.c, self.inp = n, w, v, c, inp
        self._monitor = monitor
        self.stores: List[Tuple[int, bytes]] = []
        self.unspecified_ranges: List[Tuple[int, int]] = []

    # byte buffers, addressed like the library addresses them: one byte per dw-aligned op
    def load(self, address: int, count: int) -> Optional[bytes]:
        return self._monitor.buffer_load(address, count) if self._monitor is not None else None

    def store(self, address: int, data: bytes) -> None:
        self.stores.append((address, bytes(data)))

    def store_unspecified(self, address: int, count: int) -> None:
        self.unspecified_ranges.append((address, count))

    @property
    def dw(self) -> int:
        return 2 * self.w

    def input_bytes(self) -> bytes:
        return bytes_of_bits(self.inp)


@dataclass
class IOSpec:
    macro: str
    family: str                                   # coverage family (finalize demands every family was monitored)
    operands: List[Operand]                       # kinds: n | const | str | bit | hex | label | ptr
    model: Callable[[Ctx], Optional[Res]]
    doc: str                                      # file:line of the comment this entry transcribes
    n_values: Sequence[int] = (0,)
    needs: str = 'hex'                            # 'none' (stl.startup) | 'hex' (stl.startup_and_init_all 20)
    inputs: Optional[Callable[[random.Random, int, int, Dict[str, int], str], List[Bits]]] = None  # COMPLETE inputs
    valid: Optional[Callable[[int, Dict[str, int], Dict[str, int], int], bool]] = None  # documented operand precondition
    pre: Optional[Callable[[int, Dict[str, int], int], bool]] = None                   # precondition on (n, consts, w)
    cases: Optional[Callable[[random.Random, 'IOApp', int, str], List['Case']]] = None  # custom workload (pointer macros)
    seq_ok: bool = True                           # may appear in random mixed sequences
    extra_values: Optional[Callable[[int, int], Dict[str, List[int]]]] = None  # operand -> more boundary values

    def var_operands(self) -> List[Operand]:
        return [o for o in self.operands if o.kind in ('bit', 'hex', 'ptr')]

    def dry_run(self, n: int, w: int, consts: Dict[str, int], inp: Bits) -> Optional[Res]:
        """what the model says about an input alone (operands zero, no buffers): used to classify generated inputs."""
        return self.model(Ctx(n, w, {o.name: 0 for o in self.var_operands()}, dict(consts), list(inp), None))


@dataclass
class IOApp:
    spec: IOSpec
    n: int
    binding: Dict[str, str]                        # operand -> variable name
    consts: Dict[str, int]
    labels: List[str] = field(default_factory=list)
    buffers: Dict[str, str] = field(default_factory=dict)   # ptr operand -> byte buffer variable it points into
    input_pool: List[Bits] = field(default_factory=list)

    def used_cells(self, op: Operand, w: int) -> int:
        return max(0, int(eval(op.length, {'n': self.n, 'w': w})))  # noqa: S307 - spec-author expressions over n, w only


@dataclass
class Case:
    """one operand/input case of ONE application (single-macro programs)."""
    values: Dict[str, int] = field(default_factory=dict)       # operand name -> value (ptr operands: cell offset in buffer)
    input: Optional[Bits] = None
    buffers: Dict[str, int] = field(default_factory=dict)      # ptr operand name -> packed content of its whole buffer


@dataclass
class PassCase:
    values: Dict[str, int]                 # variable name -> value poked at the start of the pass
    inputs: List[Optional[Bits]]           # per application


def render_arg_const(v: int) -> str:
    return str(v) if v >= 0 else f'(0-{-v})'


def render_string(value: int) -> str:
    data = value.to_bytes((value.bit_length() + 7) // 8, 'little')
    return '"' + ''.join(f'\\x{b:02x}' for b in data) + '"'


def render_program(apps: List[IOApp], variables: List[Var], w: int, init: str, extra_tail: str = '') -> str:
    lines = [init, 'top:']
    stubs: List[str] = []
    for k, app in enumerate(apps):
        lines.append(f'    q{k}+dbit;')
        lines.append('    stl.output_bit 0')
        args: List[str] = []
        for op in app.spec.operands:
            if op.kind == 'n':
                args.append(str(app.n))
            elif op.kind == 'const':
                args.append(render_arg_const(app.consts[op.name]))
            elif op.kind == 'str':
                value = app.consts[op.name]
                # both spellings of the same constant are exercised: a string literal and a plain number
                args.append(render_string(value) if value % 3 == 0 and value > 0 and b'\0' not in
                            value.to_bytes((value.bit_length() + 7) // 8, 'little') else render_arg_const(value))
            elif op.kind in ('bit', 'hex', 'ptr'):
                args.append(app.binding[op.name])
            elif op.kind == 'label':
                j = app.labels.index(op.name)
                args.append(f's{k}_{j}')
                stubs.append(f's{k}_{j}:')
                stubs.extend(['    stl.output_bit 1'] * (j + 1))
                stubs.append(f'    ;a{k}')
        lines.append(f'    {app.spec.macro} ' + ', '.join(args))
        lines.append(f'a{k}:')
    lines.append('    ;top')
    lines.extend(stubs)
    for var in variables:
        decl = 'hex' if var.kind == 'byte' else var.kind
        lines.append(f'{var.name}: {decl}.vec {var.length}')
    for k in range(len(apps)):
        lines.append(f'q{k}: bit.bit')
    if extra_tail:
        lines.append(extra_tail)
    return '\n'.join(lines) + '\n'


# ------------------------------------------------------------------------------------------------ the monitor
class IOMonitor:
    """model + checks; driven bit by bit by the device below. the cell layout code is the one of harness.Monitor (kept
    here so that this monitor does not move when the data-macro monitor is extended)."""

    def __init__(self, apps: List[IOApp], variables: List[Var], labels: Dict[str, int], w: int, passes: List[PassCase]):
        self.variables, self.w = variables, w
        self.vars_by_name = {v.name: v for v in variables}
        self.addr = {v.name: labels[v.name] for v in variables}
        self.state: Dict[str, int] = {}
        self.next_app = 0
        self.pass_index = -1
        self.ones = 0
        self.violation: Optional[Dict[str, Any]] = None
        self.checks = 0
        self.applications = 0
        self.cells_compared = 0
        self.branches_seen: Dict[str, int] = {}
        self.pass_values: Dict[str, int] = {}
        self.history: List[str] = []
        self.io_apps = apps
        self.pass_cases = passes
        self.witness = [labels[f'q{k}'] for k in range(len(apps))]
        self.cur: Optional[IOApp] = None
        self.cur_index = -1
        self.res: Optional[Res] = None
        self.exp_out: Bits = []
        self.out_pos = 0
        self.got_tail: Bits = []
        self.inp: Bits = []
        self.in_pos = 0
        self.cur_v: Dict[str, int] = {}
        self.eof_hit = False
        self.done = False
        # counters
        self.output_bits_compared = 0
        self.input_bits_supplied = 0
        self.input_bits_consumed = 0
        self.app_counts: Dict[str, int] = {}
        self.family_counts: Dict[str, int] = {}
        self.unspecified_operands = 0
        self.nonempty_outputs = 0
        self.unspecified_byte_ranges: List[Tuple[int, int]] = []

    # ---- memory layout of variables: cell i = the op at addr + i*2w; its data sits in the jump word, bits #w..
    def cell_words(self, var: Var, i: int) -> Tuple[int, int]:
        base = (self.addr[var.name] + i * 2 * self.w) // self.w
        return base, base + 1

    def read_var(self, memory: Any, var: Var) -> Tuple[int, bool]:
        """(value, pristine): pristine = every cell's flip word is 0 and its jump word is exactly value << #w."""
        value, pristine = 0, True
        shift = self.w.bit_length()
        per = cell_bits(var)
        mask = (1 << per) - 1
        for i in range(var.length):
            fw, jw = self.cell_words(var, i)
            flip, jump = memory.read_word(fw), memory.read_word(jw)
            digit = (jump >> shift) & mask
            value |= digit << (i * per)
            if flip != 0 or jump != digit << shift:
                pristine = False
        self.cells_compared += var.length
        return value, pristine

    def poke_var(self, memory: Any, var: Var, value: int) -> None:
        shift = self.w.bit_length()
        per = cell_bits(var)
        mask = (1 << per) - 1
        for i in range(var.length):
            _, jw = self.cell_words(var, i)
            memory.write_word(jw, ((value >> (i * per)) & mask) << shift)

    # ---- byte buffers
    def buffer_of(self, address: int) -> Optional[Tuple[Var, int]]:
        dw = 2 * self.w
        for var in self.variables:
            if var.kind != 'byte':
                continue
            base = self.addr[var.name]
            if base <= address < base + var.length * dw and (address - base) % dw == 0:
                return var, (address - base) // dw
        return None

    def buffer_load(self, address: int, count: int) -> Optional[bytes]:
        if count == 0:
            return b''
        hit = self.buffer_of(address)
        if hit is None or hit[1] + count > hit[0].length:
            return None
        var, index = hit
        return bytes((self.state[var.name] >> (8 * (index + i))) & 0xFF for i in range(count))

    def buffer_store(self, address: int, data: bytes) -> None:
        if not data:
            return
        hit = self.buffer_of(address)
        if hit is None or hit[1] + len(data) > hit[0].length:
            raise AssertionError(f'model store outside every byte buffer: {address:#x}+{len(data)}')
        var, index = hit
        value = self.state[var.name]
        for i, byte in enumerate(data):
            shift = 8 * (index + i)
            value = (value & ~(0xFF << shift)) | (byte << shift)
        self.state[var.name] = value

    # ---- model
    def operand_values(self, app: IOApp) -> Dict[str, int]:
        v: Dict[str, int] = {}
        for op in app.spec.var_operands():
            var = self.vars_by_name[app.binding[op.name]]
            cells = app.used_cells(op, self.w)
            v[op.name] = self.state[var.name] & ((1 << (cells * cell_bits(var))) - 1)
        return v

    def prepare(self, app: IOApp, inp: Bits) -> None:
        self.cur_v = self.operand_values(app)
        ctx = Ctx(app.n, self.w, dict(self.cur_v), dict(app.consts), list(inp), self)
        res = app.spec.model(ctx)
        if res is None:
            raise AssertionError(f'{app.spec.macro}: the generator produced a case outside the documented preconditions: '
                                 f'{self.cur_v} {app.consts}')
        self.res = res
        self.exp_out = list(res.out)
        self.out_pos = 0
        self.got_tail = []
        self.inp = list(inp)
        self.in_pos = 0
        self.input_bits_supplied += len(inp)
        if self.exp_out:
            self.nonempty_outputs += 1
        # advance the model state (writes applied in operand order, like harness.Monitor.apply_model)
        for op in app.spec.var_operands():
            if op.name in res.updates:
                var = self.vars_by_name[app.binding[op.name]]
                cells = app.used_cells(op, self.w)
                low = (1 << (cells * cell_bits(var))) - 1
                self.state[var.name] = (self.state[var.name] & ~low) | (res.updates[op.name] & low)
        for address, data in ctx.stores:
            self.buffer_store(address, data)
        self.unspecified_byte_ranges = list(ctx.unspecified_ranges)

    # ---- events
    def on_write(self, bit: int, memory: Any) -> bool:
        """False = stop the run."""
        if self.cur is not None and self.out_pos < len(self.exp_out):
            if bit != self.exp_out[self.out_pos]:
                got = self.exp_out[:self.out_pos] + [bit]
                self.fail_io('output', f'output bit #{self.out_pos} is {bit}; documented output is {show_bits(self.exp_out)} '
                                       f'({len(self.exp_out)} bits), observed so far {show_bits(got)}', observed_bits=got)
                return False
            self.out_pos += 1
            self.output_bits_compared += 1
            return True
        if bit:
            self.ones += 1
            self.got_tail.append(1)
            if self.cur is not None and self.ones > len(self.cur.labels) + 1:
                self.fail_io('output', f'{self.ones} surplus 1-bits after the documented output {show_bits(self.exp_out)}')
                return False
            return True
        return self.on_sync_io(memory)

    def on_read(self) -> Optional[int]:
        """the next input bit; None = raise EOF (expected), or stop after recording a violation."""
        if self.cur is None:
            self.violation = {'macro': '(startup)', 'doc': '', 'n': 0, 'what': 'input', 'detail': 'input read before the first SYNC',
                              'w': self.w}
            return None
        if self.in_pos < len(self.inp):
            bit = self.inp[self.in_pos]
            self.in_pos += 1
            self.input_bits_consumed += 1
            return bit
        assert self.res is not None
        if self.res.eof:
            self.eof_hit = True
            return None
        self.fail_io('input', f'reads input bit #{self.in_pos}, but the documented behaviour consumes at most '
                              f'{self.consumed_range()[1]} bits of {show_bits(self.inp)}')
        return None

    def consumed_range(self) -> Tuple[int, int]:
        assert self.res is not None
        return self.res.consumed if self.res.consumed is not None else (0, 0)

    def read_witness(self, memory: Any, k: int) -> int:
        word = self.witness[k] // self.w + 1
        return (memory.read_word(word) >> self.w.bit_length()) & 1

    def clear_witness(self, memory: Any, k: int) -> None:
        word = self.witness[k] // self.w + 1
        memory.write_word(word, memory.read_word(word) & ~(1 << self.w.bit_length()))

    def on_sync_io(self, memory: Any) -> bool:
        k_next = self.next_app % len(self.io_apps)
        if self.read_witness(memory, k_next) != 1:
            if self.cur is None:
                self.violation = {'macro': '(startup)', 'doc': '', 'n': 0, 'what': 'sync', 'detail': 'a 0 bit before the first SYNC',
                                  'w': self.w}
            else:
                self.fail_io('output', f'a surplus 0 bit after the documented output {show_bits(self.exp_out)} '
                                       f'(control is not at the next SYNC)')
            return False
        self.clear_witness(memory, k_next)
        if self.cur is not None:
            if not self.check_application(memory):
                return False
        # ---- next application
        self.ones = 0
        if k_next == 0:
            self.pass_index += 1
            if self.pass_index >= len(self.pass_cases):
                self.done = True
                return False
            case = self.pass_cases[self.pass_index]
            self.pass_values = dict(case.values)
            for var in self.variables:
                value = case.values.get(var.name, 0) % (1 << var_bits(var))
                self.state[var.name] = value
                self.poke_var(memory, var, value)
            self.history = []
        app = self.io_apps[k_next]
        self.cur, self.cur_index = app, k_next
        inp = self.pass_cases[self.pass_index].inputs[k_next] or []
        self.history.append(app.spec.macro)
        self.prepare(app, inp)
        self.next_app += 1
        return True

    def check_application(self, memory: Any, final: bool = False) -> bool:
        app, res = self.cur, self.res
        assert app is not None and res is not None
        self.applications += 1
        self.checks += 1
        if res.eof:
            self.fail_io('eof', f'the application completed although the input {show_bits(self.inp)} ends before the documented '
                                f'end of the token (consumed {self.in_pos} bits)')
            return False
        if self.out_pos != len(self.exp_out):
            self.fail_io('output', f'only {self.out_pos} of the {len(self.exp_out)} documented output bits {show_bits(self.exp_out)} '
                                   f'were emitted')
            return False
        expected_branch = 0 if res.branch is None else app.labels.index(res.branch) + 1
        if self.ones != expected_branch:
            self.fail_io('branch', f'marker count {self.ones} ({self.branch_name(app, self.ones)}), documented '
                                   f'{expected_branch} ({self.branch_name(app, expected_branch)})')
            return False
        lo, hi = self.consumed_range()
        if not lo <= self.in_pos <= hi:
            self.fail_io('input', f'consumed {self.in_pos} input bits of {show_bits(self.inp)}, documented '
                                  f'{lo if lo == hi else (lo, hi)}')
            return False
        if not self.compare_variables(memory, app, res):
            return False
        self.app_counts[app.spec.macro] = self.app_counts.get(app.spec.macro, 0) + 1
        self.family_counts[app.spec.family] = self.family_counts.get(app.spec.family, 0) + 1
        key = f'{app.spec.macro}:{expected_branch}'
        self.branches_seen[key] = self.branches_seen.get(key, 0) + 1
        return True

    def branch_name(self, app: IOApp, count: int) -> str:
        if count == 0:
            return 'falls through'
        return app.labels[count - 1] if count <= len(app.labels) else '?'

    def compare_variables(self, memory: Any, app: IOApp, res: Res, skip_written: bool = False) -> bool:
        open_masks: Dict[str, int] = {}
        for op in app.spec.var_operands():
            if op.name in res.unspecified or (skip_written and op.role in ('w', 'rw')):
                var = self.vars_by_name[app.binding[op.name]]
                cells = app.used_cells(op, self.w)
                open_masks[var.name] = open_masks.get(var.name, 0) | ((1 << (cells * cell_bits(var))) - 1)
                self.unspecified_operands += 1
        for address, count in self.unspecified_byte_ranges:
            hit = self.buffer_of(address)
            if hit is not None and count:
                var, index = hit
                open_masks[var.name] = open_masks.get(var.name, 0) | (((1 << (8 * count)) - 1) << (8 * index))
        if skip_written:
            for name in app.buffers.values():
                open_masks[name] = -1
        for var in self.variables:
            got, pristine = self.read_var(memory, var)
            mask = open_masks.get(var.name, 0)
            if (got & ~mask) != (self.state[var.name] & ~mask) or not pristine:
                role = self.role_of_io(app, var.name)
                self.fail_io(role, f'{var.name} ({role}) = {got:#x}{"" if pristine else " (non-data bits disturbed)"}, '
                                   f'documented value {self.state[var.name]:#x}'
                                   + (f' (bits {mask & ((1 << var_bits(var)) - 1):#x} unspecified)' if mask else ''),
                             observed_var=var.name, observed_value=got, documented_value=self.state[var.name],
                             observed_operands=[op.name for op in app.spec.var_operands() if app.binding[op.name] == var.name])
                return False
            if mask:
                self.state[var.name] = got  # re-synchronise the unspecified part with reality
        return True

    def role_of_io(self, app: IOApp, var_name: str) -> str:
        if var_name in app.buffers.values():
            return 'buffer'
        roles = [op.role for op in app.spec.var_operands() if app.binding[op.name] == var_name]
        if not roles:
            return 'bystander'
        return 'destination' if any(r in ('rw', 'w') for r in roles) else 'source'

    def check_after_eof(self, memory: Any) -> bool:
        """the run ended by EOF exactly where the documentation says more input is needed: nothing may have been printed,
        every supplied bit must have been consumed, and everything but the application's own destinations is intact."""
        app, res = self.cur, self.res
        assert app is not None and res is not None
        self.applications += 1
        self.checks += 1
        if self.out_pos != len(self.exp_out) or self.ones:
            self.fail_io('output', f'output differs before the EOF: {self.out_pos} of {len(self.exp_out)} documented bits, '
                                   f'{self.ones} surplus 1-bits')
            return False
        if self.in_pos != len(self.inp):
            self.fail_io('input', f'EOF after {self.in_pos} of {len(self.inp)} supplied bits')
            return False
        if not self.compare_variables(memory, app, res, skip_written=True):
            return False
        self.app_counts[app.spec.macro] = self.app_counts.get(app.spec.macro, 0) + 1
        self.family_counts[app.spec.family] = self.family_counts.get(app.spec.family, 0) + 1
        return True

    def fail_io(self, what: str, detail: str, **extra: Any) -> None:
        app = self.cur
        assert app is not None
        self.violation = {
            'macro': app.spec.macro, 'doc': app.spec.doc, 'n': app.n, 'what': what, 'detail': detail,
            'binding': app.binding, 'consts': app.consts, 'operands_before': {k: hex(v) for k, v in self.cur_v.items()},
            'input': show_bits(self.inp), 'documented_output': show_bits(self.exp_out),
            'documented_branch': self.res.branch if self.res else None,
            'pass_values': {k: hex(v) for k, v in self.pass_values.items()},
            'pass_index': self.pass_index, 'app_index': self.cur_index,
            'sequence_so_far': self.history[-12:], 'w': self.w,
            'operand_values': dict(self.cur_v), 'input_bits': list(self.inp), 'documented_bits': list(self.exp_out), **extra,
        }


def make_device(monitor: IOMonitor) -> Any:
    from flipjump.interpreter.io_devices.IODevice import IODevice
    from flipjump.utils.exceptions import IODeviceException, IOReadOnEOF

    class Stop(IODeviceException):
        pass

    class IOMonitorDevice(IODevice):
        def __init__(self) -> None:
            self.memory: Any = None

        def attach_memory(self, device_memory: Any) -> None:
            self.memory = device_memory

        def write_bit(self, bit: bool) -> None:
            if not monitor.on_write(1 if bit else 0, self.memory):
                raise Stop('monitor finished')

        def read_bit(self) -> bool:
            bit = monitor.on_read()
            if bit is None:
                if monitor.eof_hit and monitor.violation is None:
                    raise IOReadOnEOF('end of the input offered to this application')
                raise Stop('monitor finished')
            return bool(bit)

        def get_output(self, *, allow_incomplete_output: bool = False) -> bytes:
            return b''

    return IOMonitorDevice(), Stop


def run_io(path: Path, monitor: IOMonitor, engine: str = 'native', watchdog_s: float = 90.0) -> Dict[str, Any]:
    """outcome: 'done' (all passes checked) | 'violation' | 'eof' (expected EOF, post-run checks done) | 'early' (anything else)."""
    device, stop_type = make_device(monitor)
    obs = engines.run_engine(path, {'engine': engine}, device, watchdog_s=watchdog_s)
    stopped = obs.get('exc') is not None and isinstance(obs.get('exc_obj'), stop_type)
    obs.pop('exc_obj', None)
    if monitor.violation is not None:
        outcome = 'violation'
    elif stopped and monitor.done:
        outcome = 'done'
    elif monitor.eof_hit and 'EOF' in str(obs.get('cause')):
        outcome = 'eof' if monitor.check_after_eof(device.memory) else 'violation'
    else:
        outcome = 'early'
    return {'outcome': outcome, 'obs': obs}
