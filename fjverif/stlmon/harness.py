"""
The stl monitor harness (DESIGN 3.7): run library macros on the real interpreter and judge them, at
quiescent SYNC points, through the interpreter's own device<->memory hook.

Program shape (one assembly serves thousands of operand cases):

        <startup / table inits>
  top:  stl.output_bit 0          // SYNC before application 0
        <application 0>
  a0:   stl.output_bit 0          // SYNC before application 1 (= check of application 0)
        <application 1>
  a1:   ...
        ;top
  sK_J: stl.output_bit 1 (J+1 times) ; ;aK      // marker stub for label operand J of application K
  v0:   bit.vec / hex.vec ...                    // operands, bystanders

At every SYNC the monitor reads EVERY declared variable (flip word and jump word of every cell) and compares
with its model state; compares the marker count with the branch the spec prescribes; at the start of a pass it
pokes fresh operand values (exactly what `bit.vec n, value` / `hex.vec n, value` would have assembled).
"""

from __future__ import annotations

import contextlib
import io
import random
from dataclasses import dataclass, field
from pathlib import Path
from typing import Any, Callable, Dict, List, Optional, Sequence, Tuple

from fjverif import engines


VAR_KINDS = ('bit', 'hex', 'bitaddr', 'hexbits', 'fieldaddr', 'hidden')
POOL_OF_KIND = {'bit': 'bit', 'bitaddr': 'bit', 'hex': 'hex', 'hexbits': 'hex', 'fieldaddr': 'field', 'hidden': 'hidden'}


@dataclass
class Operand:
    name: str
    kind: str                   # 'n' | 'const' | 'bit' | 'hex' | 'label' | 'bitaddr' (address of a variable's data bit)
    #                             | 'hexbits' (a hex variable passed as its four bit-addresses msb..lsb: 4 arguments)
    #                             | 'fieldaddr' (bit-address of a `length`-bit field inside one word: `var+dbit`)
    #                             | 'hidden' (library-internal state named by `target`; renders no argument)
    role: str = 'r'             # 'r' read-only, 'rw' read+written, 'w' written (old value irrelevant)
    length: str = 'n'           # python expression over n (and the const operands): number of cells (field: bits) the macro uses
    values: Optional[Callable[..., int]] = None   # const: (rng, n, w) -> value, or (rng, n, w, consts_drawn_so_far) -> value
    target: Optional[str] = None   # 'hidden': name of the hidden Var this operand always denotes


@dataclass
class Spec:
    macro: str                                  # e.g. 'bit.add'
    operands: List[Operand]
    model: Callable[..., Tuple[Dict[str, int], Optional[str]]]  # model(n, v, c, w) -> (updates, branch label operand or None)
    doc: str                                    # 'bit/math.fj:78' - the comment line this entry transcribes
    n_values: Sequence[int] = (1, 2, 3, 4, 8)   # vector lengths to exercise ([0] for scalar macros)
    alias_ok: Sequence[Tuple[str, str]] = ()    # operand pairs that may be bound to the same variable
    pre: Optional[Callable[[int, Dict[str, int], int], bool]] = None   # precondition on (n, consts, w)
    needs: str = 'none'                         # 'none' | 'hex' (hex.init) | specific inits
    falls_through: bool = True                  # a run without a taken branch continues after the macro
    widths: Sequence[int] = (16, 32, 64)
    requires: str = ''                          # the tables its documentation names ('add', 'sub,add', ...; '' = table-free)

    def var_operands(self) -> List[Operand]:
        return [o for o in self.operands if o.kind in VAR_KINDS]


@dataclass
class Var:
    name: str
    kind: str       # 'bit' | 'hex' | 'field' (`length` BITS starting at dbit+bit_offset of ONE op's jump word)
    length: int
    label: Optional[str] = None     # assembler label to find it at (default: its name)
    bit_offset: int = 0             # 'field' only
    hidden: bool = False            # library-internal state (e.g. the add carry): exists already, is not declared by the program;
    #                                 a macro that does not name it as an operand promises nothing while it is nonzero
    stale_ok: bool = False          # ... except this kind: a flag that DOCUMENTED macros leave set (the add/sub carry of the scalar
    #                                 hex.add/hex.sub, set_carry, not_carry). "no stale carry leaks from one macro into the next": every
    #                                 other macro must compute its documented function whatever the flag holds, and leaves it as it was
    #                                 or clean (0)

    @property
    def bits_per_cell(self) -> int:
        return 4 if self.kind == 'hex' else 1

    @property
    def modulus(self) -> int:
        return 1 << (self.bits_per_cell * self.length)


@dataclass
class App:
    spec: Spec
    n: int
    binding: Dict[str, str]          # operand name -> variable name
    consts: Dict[str, int]           # const operand name -> value
    labels: List[str] = field(default_factory=list)   # label operand names in order
    cells_cache: Dict[str, int] = field(default_factory=dict, repr=False, compare=False)

    def used_cells(self, op: Operand) -> int:
        cells = self.cells_cache.get(op.name)
        if cells is None:
            cells = max(0, int(eval(op.length, {'n': self.n, **self.consts})))  # noqa: S307 - spec-author expressions over n/consts only
            self.cells_cache[op.name] = cells
        return cells


class MonitorStop(Exception):
    """raised (as an IODeviceException subclass instance, see make_device) to end the run."""


def render_program(apps: List[App], variables: List[Var], w: int, init: str) -> str:
    lines = [init, 'top:']
    stubs: List[str] = []
    for k, app in enumerate(apps):
        lines.append('    stl.output_bit 0')
        args: List[str] = []
        named: set = set()
        for op in app.spec.operands:
            if op.kind == 'n':
                args.append(str(app.n))
            elif op.kind == 'const':
                v = app.consts[op.name]
                args.append(str(v) if v >= 0 else f'(0-{-v})')
            elif op.kind in ('bit', 'hex'):
                name = app.binding[op.name]
                # one variable given twice (where the documentation allows it): every other time under its SECOND label - two
                # names of one address are the same variable just as much as one name twice
                args.append(f'{name}_too' if name in named and k % 2 == 0 else name)
                named.add(name)
            elif op.kind in ('bitaddr', 'fieldaddr'):
                args.append(f'{app.binding[op.name]} + dbit')
            elif op.kind == 'hexbits':
                args.extend(f'{app.binding[op.name]}+dbit+{b}' for b in (3, 2, 1, 0))
            elif op.kind == 'hidden':
                pass
            elif op.kind == 'label':
                j = app.labels.index(op.name)
                args.append(f's{k}_{j}')
                stubs.append(f's{k}_{j}:')
                stubs.extend(['    stl.output_bit 1'] * (j + 1))
                stubs.append(f'    ;a{k}')
        lines.append(f'    {app.spec.macro} ' + ', '.join(args))
        lines.append(f'a{k}:')
        if len(apps) > 1 and k % 3 == 1:
            # reserved space in the MIDDLE of the code (a zeroed scratch area the program jumps over): library code sits on both
            # sides of it, in one segment
            lines.append(f'    ;rg{k}_end')
            lines.append(f'rg{k}: reserve {2 * w * (1 + k % 5)}')
            lines.append(f'rg{k}_end:')
    lines.append('    ;top')
    lines.extend(stubs)
    for var in variables:
        if var.hidden:
            continue
        lines.append(f'{var.name}_too:')
        lines.append(f'{var.name}: ;0' if var.kind == 'field' else f'{var.name}: {var.kind}.vec {var.length}')
    # user constants spelled like the parameters of the library's macros, defined last: inside a macro its parameter is the parameter
    lines.extend(['n = 4', 'x = 9', 'times = 3', 'dst = 5', 'src = 6', 'a = 7', 'b = 2', 'i = 11', 'val = 13', 'bit = 1', 'hex = 2'])
    return '\n'.join(lines) + '\n'


def assemble_program(text: str, w: int, use_stl: bool = True, tag: str = 'stl') -> Tuple[Optional[Path], Optional[Dict[str, int]], str]:
    import flipjump
    from flipjump.fjm.fjm_consts import FJMVersion
    from flipjump.utils.functions import load_debugging_labels

    src = engines.tmpdir() / f'{tag}.fj'
    out = engines.tmpdir() / f'{tag}.fjm'
    dbg = engines.tmpdir() / f'{tag}.fjd'
    src.write_text(text)
    try:
        with contextlib.redirect_stdout(io.StringIO()):
            flipjump.assemble([src], out, memory_width=w, use_stl=use_stl, fjm_version=FJMVersion(1), print_time=False,
                              warning_as_errors=False, debugging_file_path=dbg)
    except flipjump.FlipJumpException as exc:
        return None, None, f'{type(exc).__name__}: {str(exc)[:300]}'
    return out, load_debugging_labels(dbg), ''


class Monitor:
    """the model + the checks performed at each SYNC. it is driven by the device below."""

    def __init__(self, apps: List[App], variables: List[Var], labels: Dict[str, int], w: int, passes: int,
                 value_plan: Callable[[int, random.Random], Dict[str, int]], rng: random.Random, keep_going: bool = False):
        self.apps, self.variables, self.w, self.passes, self.value_plan, self.rng = apps, variables, w, passes, value_plan, rng
        self.keep_going = keep_going        # after a violation: record it, re-synchronise the model with memory and go on
        self.all_violations: List[Dict[str, Any]] = []
        self.stale_alternatives: Dict[str, Tuple[int, ...]] = {}
        self.stale_cases = 0                # applications checked while a documented flag (carry) was left set by an earlier macro
        self.memory_verified = False        # every variable was compared (value and non-data bits) at the last SYNC
        self.vars_by_name = {v.name: v for v in variables}
        self.addr = {v.name: labels[v.label or v.name] for v in variables}
        self.field_rest: Dict[str, int] = {}   # 'field' vars: the other bits of the word, as first seen (must never change)
        self.state: Dict[str, int] = {}
        self.next_app = 0
        self.pass_index = -1
        self.ones = 0
        self.started = False
        self.expected_branch: Optional[int] = None
        self.violation: Optional[Dict[str, Any]] = None
        self.checks = 0
        self.case_keys: set = set()
        self.applications = 0
        self.cells_compared = 0
        self.branches_seen: Dict[str, int] = {}
        self.pass_values: Dict[str, int] = {}
        self.history: List[str] = []
        self.skipped_unspecified = 0

    # ---- memory layout of variables
    def cell_words(self, var: Var, i: int) -> Tuple[int, int]:
        base = (self.addr[var.name] + i * 2 * self.w) // self.w
        return base, base + 1

    def read_var(self, memory: Any, var: Var) -> Tuple[int, bool]:
        """(value, pristine): pristine = every cell's flip word is 0 and its jump word is exactly value*dw."""
        value, pristine = 0, True
        shift = self.w.bit_length()
        if var.kind == 'field':
            fw, jw = self.cell_words(var, 0)
            flip, jump = memory.read_word(fw), memory.read_word(jw)
            field_mask = ((1 << var.length) - 1) << (shift + var.bit_offset)
            rest = self.field_rest.setdefault(var.name, jump & ~field_mask)
            self.cells_compared += 1
            return (jump & field_mask) >> (shift + var.bit_offset), flip == 0 and (jump & ~field_mask) == rest
        mask = (1 << var.bits_per_cell) - 1
        for i in range(var.length):
            fw, jw = self.cell_words(var, i)
            flip, jump = memory.read_word(fw), memory.read_word(jw)
            digit = (jump >> shift) & mask
            value |= digit << (i * var.bits_per_cell)
            if flip != 0 or jump != digit << shift:
                pristine = False
        self.cells_compared += var.length
        return value, pristine

    def poke_var(self, memory: Any, var: Var, value: int) -> None:
        shift = self.w.bit_length()
        if var.kind == 'field':
            if var.name not in self.field_rest:
                self.read_var(memory, var)
            _, jw = self.cell_words(var, 0)
            memory.write_word(jw, self.field_rest[var.name] | ((value & ((1 << var.length) - 1)) << (shift + var.bit_offset)))
            return
        mask = (1 << var.bits_per_cell) - 1
        for i in range(var.length):
            _, jw = self.cell_words(var, i)
            memory.write_word(jw, ((value >> (i * var.bits_per_cell)) & mask) << shift)

    # ---- model
    def apply_model(self, app: App) -> Optional[int]:
        """advance self.state by one application; returns the expected marker count (0 = fall through)."""
        v: Dict[str, int] = {}
        bound = set(app.binding.values())
        self.stale_alternatives = {}
        for var in self.variables:
            if var.hidden and self.state[var.name] != 0 and var.name not in bound:
                if var.stale_ok:
                    self.stale_alternatives[var.name] = (self.state[var.name], 0)
                    self.stale_cases += 1
                    continue
                return None  # dirty library state that this macro's documentation does not mention: nothing is promised
        for op in app.spec.var_operands():
            var = self.vars_by_name[app.binding[op.name]]
            cells = app.used_cells(op)
            v[op.name] = self.state[var.name] & ((1 << (cells * var.bits_per_cell)) - 1)
        # a DISTINCT case = (which application of the program, the operand values it is about to read)
        self.case_keys.add(hash((id(app), tuple(sorted(v.items())))))
        result = app.spec.model(app.n, v, dict(app.consts), self.w)
        if result is None:
            return None  # the documentation leaves this case unspecified
        updates, branch = result
        # several operands may be bound to the same variable: writes are applied in operand order
        for op in app.spec.var_operands():
            if op.name in updates:
                var = self.vars_by_name[app.binding[op.name]]
                cells = app.used_cells(op)
                low = (1 << (cells * var.bits_per_cell)) - 1
                self.state[var.name] = (self.state[var.name] & ~low) | (updates[op.name] & low)
        if branch is None:
            return 0
        return app.labels.index(branch) + 1

    # ---- the SYNC handler
    def on_sync(self, memory: Any) -> bool:
        """returns False when the run should stop (done or violation)."""
        if self.started:
            app = self.apps[(self.next_app - 1) % len(self.apps)]
            self.applications += 1
            if self.expected_branch is not None:
                self.checks += 1
                failed = False
                if self.ones != self.expected_branch:
                    self.fail(app, 'branch', f'marker count {self.ones}, documented branch marker {self.expected_branch}')
                    failed = True
                else:
                    for var in self.variables:
                        got, pristine = self.read_var(memory, var)
                        if pristine and got in self.stale_alternatives.get(var.name, ()):
                            self.state[var.name] = got  # a stale flag the macro does not name: kept, or cleaned
                            continue
                        if got != self.state[var.name] or not pristine:
                            role = self.role_of(app, var.name)
                            self.fail(app, role, f'{var.name} ({role}) = {got:#x}{"" if pristine else " (non-data bits disturbed)"}, '
                                                 f'documented value {self.state[var.name]:#x}')
                            failed = True
                            break
                if failed:
                    if not self.keep_going or any(not self.read_var(memory, var)[1] for var in self.variables):
                        return False  # (non-data bits disturbed: the program cannot be trusted to go on)
                    for var in self.variables:
                        self.state[var.name], _ = self.read_var(memory, var)
                else:
                    key = f'{app.spec.macro}:{self.expected_branch}'
                    self.branches_seen[key] = self.branches_seen.get(key, 0) + 1
            else:
                # unspecified case: re-synchronise the model with reality and go on
                self.skipped_unspecified += 1
                self.memory_verified = False
                for var in self.variables:
                    self.state[var.name], _ = self.read_var(memory, var)
        self.started = True
        self.ones = 0
        if self.next_app % len(self.apps) == 0:
            self.pass_index += 1
            if self.pass_index >= self.passes:
                return False
            self.pass_values = self.value_plan(self.pass_index, self.rng)
            for var in self.variables:
                value = self.pass_values.get(var.name, 0) % var.modulus
                if var.hidden and self.memory_verified and self.state.get(var.name) == value:
                    continue  # the last SYNC has just verified that memory holds exactly this (pristine) value
                self.state[var.name] = value
                self.poke_var(memory, var, value)
            self.memory_verified = True
            self.history = []
        app = self.apps[self.next_app % len(self.apps)]
        self.history.append(app.spec.macro)
        self.expected_branch = self.apply_model(app)
        self.next_app += 1
        return True

    def role_of(self, app: App, var_name: str) -> str:
        roles = [op.role for op in app.spec.var_operands() if app.binding[op.name] == var_name]
        if not roles:
            return 'library-state' if self.vars_by_name[var_name].hidden else 'bystander'
        return 'destination' if any(r in ('rw', 'w') for r in roles) else 'source'

    def fail(self, app: App, what: str, detail: str) -> None:
        record = {
            'macro': app.spec.macro, 'doc': app.spec.doc, 'n': app.n, 'what': what, 'detail': detail,
            'form': 'n' if any(op.kind == 'n' for op in app.spec.operands) else 'scalar',
            'binding': app.binding, 'consts': app.consts, 'pass_values': {k: hex(v) for k, v in self.pass_values.items()},
            'sequence_so_far': self.history[-12:], 'w': self.w,
        }
        if self.violation is None:
            self.violation = record
        if len(self.all_violations) < 8 and not any((r['macro'], r['what']) == (record['macro'], what) for r in self.all_violations):
            self.all_violations.append(record)


def make_device(monitor: Monitor) -> Any:
    from flipjump.interpreter.io_devices.IODevice import IODevice
    from flipjump.utils.exceptions import IODeviceException, IOReadOnEOF

    class Stop(IODeviceException):
        pass

    class MonitorDevice(IODevice):
        def __init__(self) -> None:
            self.memory: Any = None

        def attach_memory(self, device_memory: Any) -> None:
            self.memory = device_memory

        def write_bit(self, bit: bool) -> None:
            if bit:
                monitor.ones += 1
                return
            if not monitor.on_sync(self.memory):
                raise Stop('monitor finished')

        def read_bit(self) -> bool:
            raise IOReadOnEOF('the data-macro monitor supplies no input')

        def get_output(self, *, allow_incomplete_output: bool = False) -> bytes:
            return b''

    return MonitorDevice(), Stop


def run_monitored(path: Path, monitor: Monitor, engine: str = 'native', watchdog_s: float = 120.0) -> Dict[str, Any]:
    device, stop_type = make_device(monitor)
    obs = engines.run_engine(path, {'engine': engine}, device, watchdog_s=watchdog_s)
    finished = obs.get('exc') is not None and isinstance(obs.get('exc_obj'), stop_type)
    obs.pop('exc_obj', None)
    return {'finished': finished, 'obs': obs}


# ------------------------------------------------------------------------------ building programs from specs
def build_apps(rng: random.Random, specs: List[Spec], w: int, count: int, variables_pool: Dict[str, List[Var]],
               n_choice: Optional[int] = None) -> List[App]:
    """random applications over a shared pool of variables (per kind)."""
    apps: List[App] = []
    for _ in range(count):
        spec = rng.choice(specs)
        n = n_choice if n_choice is not None else rng.choice(list(spec.n_values))
        app = bind(rng, spec, n, w, variables_pool)
        if app is not None:
            apps.append(app)
    return apps


def draw_consts(rng: random.Random, spec: Spec, n: int, w: int) -> Optional[Dict[str, int]]:
    import inspect
    consts: Dict[str, int] = {}
    for op in spec.operands:
        if op.kind == 'const':
            if op.values is None:
                consts[op.name] = rng.randrange(0, 16)
            elif len(inspect.signature(op.values).parameters) >= 4:
                consts[op.name] = op.values(rng, n, w, dict(consts))
            else:
                consts[op.name] = op.values(rng, n, w)
    if spec.pre is not None and not spec.pre(n, consts, w):
        return None
    return consts


def bind(rng: random.Random, spec: Spec, n: int, w: int, pool: Dict[str, List[Var]],
         consts: Optional[Dict[str, int]] = None) -> Optional[App]:
    if consts is None:
        consts = draw_consts(rng, spec, n, w)
        if consts is None:
            return None
    app = App(spec, n, {}, consts, [op.name for op in spec.operands if op.kind == 'label'])
    taken: Dict[str, str] = {}
    for op in spec.var_operands():
        kind = POOL_OF_KIND[op.kind]
        cells = app.used_cells(op)
        if kind == 'hidden':
            if not any(v.name == op.target for v in pool.get('hidden', [])):
                return None
            taken[op.name] = str(op.target)
            continue
        candidates = [v for v in pool.get(kind, []) if v.length >= cells]
        if not candidates:
            return None
        allowed_alias = {a if b == op.name else b for a, b in spec.alias_ok if op.name in (a, b)}
        choice: Optional[Var] = None
        for _ in range(20):
            cand = rng.choice(candidates)
            clash = [o for o, vn in taken.items() if vn == cand.name]
            if all(o in allowed_alias for o in clash):
                if clash and rng.random() < 0.5:
                    continue  # aliasing is allowed but not forced
                choice = cand
                break
        if choice is None:
            return None
        taken[op.name] = choice.name
    app.binding = taken
    return app


def boundary_value(rng: random.Random, bits: int) -> int:
    r = rng.random()
    top = 1 << bits
    if r < 0.08:
        return 0
    if r < 0.16:
        return top - 1
    if r < 0.22:
        return 1
    if r < 0.3:
        return 1 << rng.randrange(bits)
    if r < 0.38:
        return (1 << rng.randrange(1, bits + 1)) - 1
    if r < 0.44:
        return top >> 1
    if r < 0.5:
        return (top >> 1) - 1
    if r < 0.56:
        return rng.choice([9, 10, 11, 99, 100, 255, 256]) % top
    return rng.getrandbits(bits)
