"""
Spec table for C08: the POINTER, STACK and CALL/RETURN macros of the library (stl/ptrlib.fj, stl/hex/pointers/*.fj,
stl/bit/pointers.fj).  One entry per documented macro (and per arity), transcribed from the `like:` formula, the notes
and the @Assumes lines of the doc comment above its `def`; `doc` names the file:line of the formula that was transcribed.
The bodies were read only for operand order / kinds and for the memory layout of a cell.

Reading of the formulas (listed as assumptions in the evidence):
  * a "cell" is one fj op (2w bits) at a dw-aligned address; its data sits in the jump word, bits #w.. : 4 bits when it
    is accessed as a hex (`dst is a hex`, `src is a hex`), 8 bits when accessed as a byte (`hex[:2]`), 1 bit for `bit`.
  * a hex-typed access (`*ptr = src` with src a hex; `dst = *ptr` with dst a hex; `hex.xor *ptr, hex`) concerns the 4 hex
    data bits of the pointed cell only - "exactly the pointed cell and nowhere else" - and reads give the least
    significant hex of the cell (stack.fj:93 says so in words for pop_hex).
  * whatever a formula does not mention is unchanged: every other buffer cell, every variable, the pointer itself
    (`ptr,index preserved`), sp, the stack.
  * pointer arithmetic is modulo 2^w.

A model function gets the Model `m` (fjverif/stlmon/ptrmon.py) and the operand dict `o` (Var objects / ints / names) and
either returns None (fall through), or a control directive ('jump', address) / ('call', block, nparams) / ('return',) /
('fcall', block, reg) / ('fret', reg).  It raises ptrmon.Unsafe (through the Model accessors) when the case is outside
what the documentation covers; such cases are never poked into a real run (the monitor dry-runs every pass first).

`fx` is NOT part of the oracle: it tells the program generator which cells a macro dereferences and how it moves
pointers, so that the value plan can place the pointers where every dereference stays inside the buffer.
"""

from __future__ import annotations

from dataclasses import dataclass
from typing import Any, Callable, Dict, List, Optional, Sequence, Tuple

HEXP = 'hex/pointers'


@dataclass
class PSpec:
    macro: str
    operands: List[Tuple[str, str]]             # (operand name, kind) in call order - kinds: see ptrmon.Builder.bind
    model: Callable[[Any, Dict[str, Any]], Optional[tuple]]
    doc: str                                    # file:line of the formula this entry transcribes
    family: str                                 # coverage family (finalize refuses a verdict when a family is never monitored)
    ns: str = 'hex'                             # 'hex' (w in 32,64; needs stl.startup_and_init_all) | 'bit' (w in 16,32,64)
    fx: Sequence[tuple] = ()                    # generator hints, see above
    seq: bool = True                            # may appear in random sequence programs
    any_bit: bool = False                       # single-macro programs may aim the pointer at ANY bit / word of a buffer cell
    n_values: Sequence[int] = (0,)
    key: str = ''                               # unique id (macro + arity)

    def __post_init__(self) -> None:
        if not self.key:
            self.key = self.macro + ('/n' if any(k == 'n' for _, k in self.operands) else '') + \
                       ('/params' if any(k == 'nparams' for _, k in self.operands) else '')


# ------------------------------------------------------------------------------------------------ helpers
def _addr(m: Any, o: Dict[str, Any], name: str = 'ptr') -> int:
    return m.get(o[name])


def _nth(m: Any, o: Dict[str, Any]) -> int:
    """ptr + index*2w, index a signed hex[:w/4]"""
    return (m.get(o['ptr']) + m.signed(m.get(o['index'])) * m.dw) & m.mask


def _move(m: Any, var: Any, cells: int) -> None:
    m.put(var, (m.get(var) + cells * m.dw) & m.mask)


# ------------------------------------------------------------------------------------------------ hex: jump / flip / xor to
def ptr_jump(m, o):             # like:  ;*ptr
    return ('jump', _addr(m, o))


def ptr_flip(m, o):             # like:  *ptr;       flip the address the pointer points to
    m.flip_bit(_addr(m, o))


def ptr_flip_dbit(m, o):        # like:  (*ptr)+dbit;   ptr dw-aligned
    a = _addr(m, o)
    m.need_cell(a)
    m.flip_bit(a + m.dbit)


def xor_hex_to_ptr(m, o):       # like:  hex.xor *ptr, hex
    m.xor_data(_addr(m, o), 4, m.get(o['hex'], 1))


def xor_byte_to_ptr(m, o):      # like:  hex.xor *ptr, hex[:2]
    m.xor_data(_addr(m, o), 8, m.get(o['hex'], 2))


def xor_hex_to_ptr_n(m, o):     # like:  hex.xor *ptr[:n], hex[:n]
    a, v = _addr(m, o), m.get(o['hex'], o['n'])
    for i in range(o['n']):
        m.xor_data(a + i * m.dw, 4, (v >> (4 * i)) & 0xF)


def xor_byte_to_ptr_n(m, o):    # like:  hex.xor *ptr[:n], hex[:2n]
    a, v = _addr(m, o), m.get(o['hex'], 2 * o['n'])
    for i in range(o['n']):
        m.xor_data(a + i * m.dw, 8, (v >> (8 * i)) & 0xFF)


def xor_hex_to_ptr_and_inc(m, o):   # like:  hex.xor *ptr, hex ; ptr += dw
    xor_hex_to_ptr(m, o)
    _move(m, o['ptr'], 1)


def xor_byte_to_ptr_and_inc(m, o):  # like:  hex.xor *ptr, hex[:2] ; ptr += dw
    xor_byte_to_ptr(m, o)
    _move(m, o['ptr'], 1)


def ptr_wflip(m, o):            # like:  wflip *ptr, value      ptr w-aligned
    m.xor_word(_addr(m, o), o['value'])


def ptr_wflip_2nd_word(m, o):   # like:  wflip (*ptr)+w, value  ptr dw-aligned
    a = _addr(m, o)
    m.need_cell(a)
    m.xor_word(a + m.w, o['value'])


# ------------------------------------------------------------------------------------------------ hex: xor from / read
def xor_hex_from_ptr(m, o):     # like:  dst ^= *ptr            dst is a hex
    m.put(o['dst'], m.get(o['dst'], 1) ^ m.data(_addr(m, o), 4), 1)


def xor_byte_from_ptr(m, o):    # like:  dst[:2] ^= *ptr
    m.put(o['dst'], m.get(o['dst'], 2) ^ m.data(_addr(m, o), 8), 2)


def read_hex(m, o):             # like:  dst = *ptr             dst is a hex
    m.put(o['dst'], m.data(_addr(m, o), 4), 1)


def read_byte(m, o):            # like:  dst[:2] = *ptr
    m.put(o['dst'], m.data(_addr(m, o), 8), 2)


def read_hex_and_inc(m, o):     # like:  dst = *ptr ; ptr++
    read_hex(m, o)
    _move(m, o['ptr'], 1)


def read_byte_and_inc(m, o):    # like:  dst[:2] = *ptr ; ptr++
    read_byte(m, o)
    _move(m, o['ptr'], 1)


def read_hex_n(m, o):           # like:  dst[:n] = *ptr[:n]
    a = _addr(m, o)
    m.put(o['dst'], sum(m.data(a + i * m.dw, 4) << (4 * i) for i in range(o['n'])), o['n'])


def read_byte_n(m, o):          # like:  dst[:2n] = *ptr[:n]
    a = _addr(m, o)
    m.put(o['dst'], sum(m.data(a + i * m.dw, 8) << (8 * i) for i in range(o['n'])), 2 * o['n'])


def read_nth_hex(m, o):         # dst = *(ptr + index*2w)       ptr,index preserved
    m.put(o['dst'], m.data(_nth(m, o), 4), 1)


def read_nth_byte(m, o):        # dst[:2] = *(ptr + index*2w)   ptr,index preserved
    m.put(o['dst'], m.data(_nth(m, o), 8), 2)


# ------------------------------------------------------------------------------------------------ hex: write
def write_hex(m, o):            # like:  *ptr = src             src is a hex
    m.set_data(_addr(m, o), 4, m.get(o['src'], 1))


def zero_ptr(m, o):             # like:  *ptr = 0
    m.set_data(_addr(m, o), 8, 0)


def write_byte(m, o):           # like:  *ptr = src[:2]
    m.set_data(_addr(m, o), 8, m.get(o['src'], 2))


def write_hex_and_inc(m, o):    # like:  *ptr = src ; ptr++
    write_hex(m, o)
    _move(m, o['ptr'], 1)


def write_byte_and_inc(m, o):   # like:  *ptr = src[:2] ; ptr++
    write_byte(m, o)
    _move(m, o['ptr'], 1)


def write_hex_n(m, o):          # like:  *ptr[:n] = src[:n]
    a, v = _addr(m, o), m.get(o['src'], o['n'])
    for i in range(o['n']):
        m.set_data(a + i * m.dw, 4, (v >> (4 * i)) & 0xF)


def write_byte_n(m, o):         # like:  *ptr[:n] = src[:2n]
    a, v = _addr(m, o), m.get(o['src'], 2 * o['n'])
    for i in range(o['n']):
        m.set_data(a + i * m.dw, 8, (v >> (8 * i)) & 0xFF)


def write_nth_hex(m, o):        # *(ptr + index*2w) = src        ptr,index,src preserved
    m.set_data(_nth(m, o), 4, m.get(o['src'], 1))


def write_nth_byte(m, o):       # *(ptr + index*2w)[:2] = src[:2]
    m.set_data(_nth(m, o), 8, m.get(o['src'], 2))


# ------------------------------------------------------------------------------------------------ hex: pointer arithmetic
def ptr_inc(m, o):              # ptr[:w/4] += 2w
    _move(m, o['ptr'], 1)


def ptr_dec(m, o):              # ptr[:w/4] -= 2w
    _move(m, o['ptr'], -1)


def ptr_add(m, o):              # ptr[:w/4] += value * 2w
    _move(m, o['ptr'], o['value'])


def ptr_sub(m, o):              # ptr[:w/4] -= value * 2w
    _move(m, o['ptr'], -o['value'])


def ptr_index(m, o):            # dst[:w/4] = ptr + index*2w    index signed, works for negative index too
    m.put(o['dst'], _nth(m, o))


# ------------------------------------------------------------------------------------------------ hex: stack
def sp_inc(m, o):               # Like:  sp++
    _move(m, m.sp, 1)


def sp_dec(m, o):               # Like:  sp--
    _move(m, m.sp, -1)


def sp_add(m, o):               # Like:  sp += value
    _move(m, m.sp, o['value'])


def sp_sub(m, o):               # Like:  sp -= value
    _move(m, m.sp, -o['value'])


def push_ret_address(m, o):     # Like:  stack[++sp] = return_address    (return_address is a dw-aligned op address)
    _move(m, m.sp, 1)
    m.set_ret_address(m.get(m.sp), m.label(o['return_address']))


def pop_ret_address(m, o):      # Like:  stack[sp--] = 0   (assumes the cell has the value of return_address)
    m.clear_ret_address(m.get(m.sp), m.label(o['return_address']))
    _move(m, m.sp, -1)


def push_hex(m, o):             # Like:  stack[++sp] = hex
    _move(m, m.sp, 1)
    m.set_data(m.get(m.sp), 4, m.get(o['hex'], 1))


def push_byte(m, o):            # Like:  stack[++sp] = byte[:2]
    _move(m, m.sp, 1)
    m.set_data(m.get(m.sp), 8, m.get(o['byte'], 2))


def push_n(m, o):
    # Like:  stack[sp+1:][:M] = hex[:n];  [prose:] Increments sp by M.  M is (n+1)/2 - "pushes the entire parameter as bytes
    # (2 hexs in one stack-cell)".  (the formula line itself ends with "sp += n", which contradicts the prose, the two
    # notes and the matching pop; M is used.)
    n, sp, v = o['n'], m.get(m.sp), m.get(o['hex'], o['n'])
    for i in range(n // 2):
        m.set_data(sp + (i + 1) * m.dw, 8, (v >> (8 * i)) & 0xFF)
    if n % 2:
        last = sp + ((n + 1) // 2) * m.dw
        m.set_data(last, 4, (v >> (4 * (n - 1))) & 0xF)
        # the upper hex of the last cell of an odd push: "as bytes" would make it 0, "stack[..] = hex[:n]" has no hex to put
        # there -> unspecified, the monitor adopts what it observes for these 4 bits
        m.unspecified_data(last, 4, 4)
    _move(m, m.sp, (n + 1) // 2)


def pop_hex(m, o):              # Like:  hex = stack[sp--]   (only the least-significant-hex of it)
    m.put(o['hex'], m.data(m.get(m.sp), 4), 1)
    _move(m, m.sp, -1)


def pop_byte(m, o):             # Like:  byte[:2] = stack[sp--]
    m.put(o['byte'], m.data(m.get(m.sp), 8), 2)
    _move(m, m.sp, -1)


def pop_n(m, o):                # Like:  sp -= M ; hex[:n] = stack[sp+1:][:M]      M = (n+1)/2, cells popped as bytes
    n = o['n']
    cells = (n + 1) // 2
    _move(m, m.sp, -cells)
    sp = m.get(m.sp)
    value = 0
    for i in range(cells):
        last_odd = (n % 2 == 1 and i == cells - 1)
        value |= m.data(sp + (i + 1) * m.dw, 4 if last_odd else 8) << (8 * i)
    m.put(o['hex'], value, n)


def get_sp(m, o):               # dst[:w/4] = sp     (unsafe if dst overlaps sp)
    m.put(o['dst'], m.get(m.sp))


# ------------------------------------------------------------------------------------------------ call / return
def call(m, o):                 # saves the return address to the stack and jumps to "address"; when returned, removes it
    return ('call', o['address'], 0)


def call_params(m, o):          # ... and pops "params_stack_length" cells from the stack
    return ('call', o['address'], o['params_stack_length'])


def ret(m, o):                  # returns to the calling function (return-address from the top of the stack)
    return ('return',)


def fcall(m, o):                # jumps to label, saves the return address in ret_reg
    return ('fcall', o['label'], o['ret_reg'])


def fret(m, o):                 # return into the address written in ret_reg
    return ('fret', o['ret_reg'])


# ------------------------------------------------------------------------------------------------ bit namespace
def bit_xor_to_ptr(m, o):       # like:  bit.xor *ptr, bit
    a = _addr(m, o)
    m.need_cell(a)
    if m.get(o['bit'], 1):
        m.flip_bit(a + m.dbit)


def bit_xor_from_ptr(m, o):     # like:  bit.xor dst, *ptr
    m.put(o['dst'], m.get(o['dst'], 1) ^ m.data(_addr(m, o), 1), 1)


def bit_exact_xor_from_ptr(m, o):   # like:  bit.exact_xor dst, *ptr     dst is a bit-address (rendered as var+dbit)
    m.put(o['dst'], m.get(o['dst'], 1) ^ m.data(_addr(m, o), 1), 1)


# ------------------------------------------------------------------------------------------------ the table
def _e(macro, operands, model, doc, family, **kw) -> PSpec:
    return PSpec(macro, operands, model, doc, family, **kw)


P, H, B = ('ptr', 'ptr'), ('hex', 'hex'), ('hex', 'byte')
NV = (1, 2, 3, 4)

SPECS: List[PSpec] = [
    # ---- hex/pointers/basic_pointers.fj
    _e('hex.ptr_jump', [('ptr', 'cptr')], ptr_jump, f'{HEXP}/basic_pointers.fj:110', 'jump'),
    # ---- hex/pointers/xor_to_pointer.fj
    _e('hex.ptr_flip', [('ptr', 'bitptr')], ptr_flip, f'{HEXP}/xor_to_pointer.fj:4', 'flip', fx=[('deref', 'ptr', 0, 0)], any_bit=True),
    _e('hex.ptr_flip_dbit', [P], ptr_flip_dbit, f'{HEXP}/xor_to_pointer.fj:22', 'flip', fx=[('deref', 'ptr', 0, 0)]),
    _e('hex.xor_hex_to_ptr', [P, H], xor_hex_to_ptr, f'{HEXP}/xor_to_pointer.fj:34', 'xor_to', fx=[('deref', 'ptr', 0, 0)]),
    _e('hex.xor_byte_to_ptr', [P, B], xor_byte_to_ptr, f'{HEXP}/xor_to_pointer.fj:43', 'xor_to', fx=[('deref', 'ptr', 0, 0)]),
    _e('hex.xor_hex_to_ptr', [('n', 'n'), P, ('hex', 'hexn')], xor_hex_to_ptr_n, f'{HEXP}/xor_to_pointer.fj:52', 'xor_to',
       fx=[('deref', 'ptr', 0, 'n-1')], n_values=NV),
    _e('hex.xor_byte_to_ptr', [('n', 'n'), P, ('hex', 'byten')], xor_byte_to_ptr_n, f'{HEXP}/xor_to_pointer.fj:61', 'xor_to',
       fx=[('deref', 'ptr', 0, 'n-1')], n_values=NV),
    _e('hex.pointers.xor_hex_to_ptr_and_inc', [P, H], xor_hex_to_ptr_and_inc, f'{HEXP}/xor_to_pointer.fj:71', 'xor_to',
       fx=[('deref', 'ptr', 0, 0), ('move', 'ptr', 1)]),
    _e('hex.pointers.xor_byte_to_ptr_and_inc', [P, B], xor_byte_to_ptr_and_inc, f'{HEXP}/xor_to_pointer.fj:81', 'xor_to',
       fx=[('deref', 'ptr', 0, 0), ('move', 'ptr', 1)]),
    _e('hex.ptr_wflip', [('ptr', 'wptr'), ('value', 'wval')], ptr_wflip, f'{HEXP}/xor_to_pointer.fj:152', 'wflip',
       fx=[('deref', 'ptr', 0, 0)], any_bit=True),
    _e('hex.ptr_wflip_2nd_word', [P, ('value', 'wval')], ptr_wflip_2nd_word, f'{HEXP}/xor_to_pointer.fj:175', 'wflip',
       fx=[('deref', 'ptr', 0, 0)], any_bit=True),
    # ---- hex/pointers/xor_from_pointer.fj
    _e('hex.xor_hex_from_ptr', [('dst', 'hex'), P], xor_hex_from_ptr, f'{HEXP}/xor_from_pointer.fj:4', 'xor_from', fx=[('deref', 'ptr', 0, 0)]),
    _e('hex.xor_byte_from_ptr', [('dst', 'byte'), P], xor_byte_from_ptr, f'{HEXP}/xor_from_pointer.fj:14', 'xor_from', fx=[('deref', 'ptr', 0, 0)]),
    # ---- hex/pointers/read_pointers.fj
    _e('hex.read_hex', [('dst', 'hex'), P], read_hex, f'{HEXP}/read_pointers.fj:7', 'read', fx=[('deref', 'ptr', 0, 0)]),
    _e('hex.read_byte', [('dst', 'byte'), P], read_byte, f'{HEXP}/read_pointers.fj:16', 'read', fx=[('deref', 'ptr', 0, 0)]),
    _e('hex.read_hex_and_inc', [('dst', 'hex'), P], read_hex_and_inc, f'{HEXP}/read_pointers.fj:32', 'read',
       fx=[('deref', 'ptr', 0, 0), ('move', 'ptr', 1)]),
    _e('hex.read_hex', [('n', 'n'), ('dst', 'hexn'), P], read_hex_n, f'{HEXP}/read_pointers.fj:42', 'read',
       fx=[('deref', 'ptr', 0, 'n-1')], n_values=NV),
    _e('hex.read_byte_and_inc', [('dst', 'byte'), P], read_byte_and_inc, f'{HEXP}/read_pointers.fj:51', 'read',
       fx=[('deref', 'ptr', 0, 0), ('move', 'ptr', 1)]),
    _e('hex.read_byte', [('n', 'n'), ('dst', 'byten'), P], read_byte_n, f'{HEXP}/read_pointers.fj:61', 'read',
       fx=[('deref', 'ptr', 0, 'n-1')], n_values=NV),
    _e('hex.read_nth_hex', [('dst', 'hex'), P, ('index', 'idx')], read_nth_hex, f'{HEXP}/read_pointers.fj:76', 'nth',
       fx=[('deref_idx', 'ptr', 'index')]),
    _e('hex.read_nth_byte', [('dst', 'byte'), P, ('index', 'idx')], read_nth_byte, f'{HEXP}/read_pointers.fj:87', 'nth',
       fx=[('deref_idx', 'ptr', 'index')]),
    # ---- hex/pointers/write_pointers.fj
    _e('hex.write_hex', [P, ('src', 'hex')], write_hex, f'{HEXP}/write_pointers.fj:7', 'write', fx=[('deref', 'ptr', 0, 0)]),
    _e('hex.zero_ptr', [P], zero_ptr, f'{HEXP}/write_pointers.fj:18', 'write', fx=[('deref', 'ptr', 0, 0)]),
    _e('hex.write_byte', [P, ('src', 'byte')], write_byte, f'{HEXP}/write_pointers.fj:28', 'write', fx=[('deref', 'ptr', 0, 0)]),
    _e('hex.write_hex_and_inc', [P, ('src', 'hex')], write_hex_and_inc, f'{HEXP}/write_pointers.fj:46', 'write',
       fx=[('deref', 'ptr', 0, 0), ('move', 'ptr', 1)]),
    _e('hex.write_hex', [('n', 'n'), P, ('src', 'hexn')], write_hex_n, f'{HEXP}/write_pointers.fj:56', 'write',
       fx=[('deref', 'ptr', 0, 'n-1')], n_values=NV),
    _e('hex.write_byte_and_inc', [P, ('src', 'byte')], write_byte_and_inc, f'{HEXP}/write_pointers.fj:65', 'write',
       fx=[('deref', 'ptr', 0, 0), ('move', 'ptr', 1)]),
    _e('hex.write_byte', [('n', 'n'), P, ('src', 'byten')], write_byte_n, f'{HEXP}/write_pointers.fj:75', 'write',
       fx=[('deref', 'ptr', 0, 'n-1')], n_values=NV),
    _e('hex.write_nth_hex', [P, ('index', 'idx'), ('src', 'hex')], write_nth_hex, f'{HEXP}/write_pointers.fj:90', 'nth',
       fx=[('deref_idx', 'ptr', 'index')]),
    _e('hex.write_nth_byte', [P, ('index', 'idx'), ('src', 'byte')], write_nth_byte, f'{HEXP}/write_pointers.fj:101', 'nth',
       fx=[('deref_idx', 'ptr', 'index')]),
    # ---- hex/pointers/pointer_arithmetics.fj
    _e('hex.ptr_inc', [('ptr', 'aptr')], ptr_inc, f'{HEXP}/pointer_arithmetics.fj:7', 'arith', fx=[('move', 'ptr', 1)]),
    _e('hex.ptr_dec', [('ptr', 'aptr')], ptr_dec, f'{HEXP}/pointer_arithmetics.fj:15', 'arith', fx=[('move', 'ptr', -1)]),
    _e('hex.ptr_add', [('ptr', 'aptr'), ('value', 'count')], ptr_add, f'{HEXP}/pointer_arithmetics.fj:23', 'arith', fx=[('move', 'ptr', 'value')]),
    _e('hex.ptr_sub', [('ptr', 'aptr'), ('value', 'count')], ptr_sub, f'{HEXP}/pointer_arithmetics.fj:32', 'arith', fx=[('move', 'ptr', '-value')]),
    _e('hex.ptr_index', [('dst', 'dptr'), ('ptr', 'aptr'), ('index', 'idx')], ptr_index, f'{HEXP}/pointer_arithmetics.fj:42', 'arith',
       fx=[('assign_idx', 'dst', 'ptr', 'index')]),
    # ---- hex/pointers/stack.fj
    _e('hex.sp_inc', [], sp_inc, f'{HEXP}/stack.fj:7', 'sp', fx=[('move', 'sp', 1)]),
    _e('hex.sp_dec', [], sp_dec, f'{HEXP}/stack.fj:14', 'sp', fx=[('move', 'sp', -1)]),
    _e('hex.sp_add', [('value', 'count')], sp_add, f'{HEXP}/stack.fj:21', 'sp', fx=[('move', 'sp', 'value')]),
    _e('hex.sp_sub', [('value', 'count')], sp_sub, f'{HEXP}/stack.fj:28', 'sp', fx=[('move', 'sp', '-value')]),
    _e('hex.push_ret_address', [('return_address', 'label')], push_ret_address, f'{HEXP}/stack.fj:35', 'stack',
       fx=[('move', 'sp', 1), ('deref', 'sp', 0, 0)]),
    _e('hex.pop_ret_address', [('return_address', 'label')], pop_ret_address, f'{HEXP}/stack.fj:47', 'stack',
       fx=[('deref', 'sp', 0, 0), ('move', 'sp', -1)]),
    _e('hex.push_hex', [H], push_hex, f'{HEXP}/stack.fj:57', 'stack', fx=[('move', 'sp', 1), ('deref', 'sp', 0, 0)]),
    _e('hex.push_byte', [('byte', 'byte')], push_byte, f'{HEXP}/stack.fj:66', 'stack', fx=[('move', 'sp', 1), ('deref', 'sp', 0, 0)]),
    _e('hex.push', [('n', 'n'), ('hex', 'hexn')], push_n, f'{HEXP}/stack.fj:76', 'stack',
       fx=[('deref', 'sp', 1, '(n+1)//2'), ('move', 'sp', '(n+1)//2')], n_values=(1, 2, 3, 4, 5, 6)),
    _e('hex.pop_hex', [H], pop_hex, f'{HEXP}/stack.fj:92', 'stack', fx=[('deref', 'sp', 0, 0), ('move', 'sp', -1)]),
    _e('hex.pop_byte', [('byte', 'byte')], pop_byte, f'{HEXP}/stack.fj:102', 'stack', fx=[('deref', 'sp', 0, 0), ('move', 'sp', -1)]),
    _e('hex.pop', [('n', 'n'), ('hex', 'hexn')], pop_n, f'{HEXP}/stack.fj:112', 'stack',
       fx=[('deref', 'sp', '1-(n+1)//2', 0), ('move', 'sp', '-((n+1)//2)')], n_values=(1, 2, 3, 4, 5, 6)),
    # ---- ptrlib.fj
    _e('stl.get_sp', [('dst', 'dptr')], get_sp, 'ptrlib.fj:78', 'sp', fx=[('assign', 'dst', 'sp')]),
    _e('stl.call', [('address', 'func')], call, 'ptrlib.fj:29', 'call', seq=False),
    _e('stl.call', [('address', 'func'), ('params_stack_length', 'nparams')], call_params, 'ptrlib.fj:46', 'call', seq=False),
    _e('stl.return', [], ret, 'ptrlib.fj:65', 'call', seq=False),
    _e('stl.fcall', [('label', 'func'), ('ret_reg', 'reg')], fcall, 'ptrlib.fj:92', 'fcall', seq=False),
    _e('stl.fret', [('ret_reg', 'reg')], fret, 'ptrlib.fj:101', 'fcall', seq=False),
    # ---- bit/pointers.fj
    _e('bit.ptr_jump', [('ptr', 'cptr')], ptr_jump, 'bit/pointers.fj:49', 'bit_jump', ns='bit'),
    _e('bit.ptr_flip', [('ptr', 'bitptr')], ptr_flip, 'bit/pointers.fj:66', 'bit_flip', ns='bit', fx=[('deref', 'ptr', 0, 0)], any_bit=True),
    _e('bit.ptr_flip_dbit', [P], ptr_flip_dbit, 'bit/pointers.fj:84', 'bit_flip', ns='bit', fx=[('deref', 'ptr', 0, 0)]),
    _e('bit.xor_to_ptr', [P, ('bit', 'bit')], bit_xor_to_ptr, 'bit/pointers.fj:95', 'bit_xor', ns='bit', fx=[('deref', 'ptr', 0, 0)]),
    _e('bit.ptr_wflip', [('ptr', 'wptr'), ('value', 'wval')], ptr_wflip, 'bit/pointers.fj:106', 'bit_wflip', ns='bit',
       fx=[('deref', 'ptr', 0, 0)], any_bit=True),
    _e('bit.ptr_wflip_2nd_word', [P, ('value', 'wval')], ptr_wflip_2nd_word, 'bit/pointers.fj:129', 'bit_wflip', ns='bit',
       fx=[('deref', 'ptr', 0, 0)], any_bit=True),
    _e('bit.xor_from_ptr', [('dst', 'bit'), P], bit_xor_from_ptr, 'bit/pointers.fj:146', 'bit_xor', ns='bit', fx=[('deref', 'ptr', 0, 0)]),
    _e('bit.exact_xor_from_ptr', [('dst', 'bitaddr'), P], bit_exact_xor_from_ptr, 'bit/pointers.fj:154', 'bit_xor', ns='bit',
       fx=[('deref', 'ptr', 0, 0)]),
    # bit.ptr_inc has complexity lines only; it is modelled as the mirror of bit.ptr_dec ("ptr[:n] -= 2w", :186) under the same
    # section heading - listed as an assumption
    _e('bit.ptr_inc', [('ptr', 'aptr')], ptr_inc, 'bit/pointers.fj:180', 'bit_arith', ns='bit', fx=[('move', 'ptr', 1)]),
    _e('bit.ptr_dec', [('ptr', 'aptr')], ptr_dec, 'bit/pointers.fj:186', 'bit_arith', ns='bit', fx=[('move', 'ptr', -1)]),
]

BY_KEY: Dict[str, PSpec] = {s.key: s for s in SPECS}
assert len(BY_KEY) == len(SPECS), 'spec keys must be unique'
FAMILIES = sorted({s.family for s in SPECS})

# documented macros of the anchor files that have NO entry, with the reason
NOT_COVERED = {
    'hex.pointers.set_jump_pointer / set_flip_pointer / set_flip_and_jump_pointers, bit.pointers.set_*': 'internal: they leave the shared '
    'to_flip/to_jump ops loaded (a non-quiescent state that only the public macros above clean up); exercised through every public macro',
    'hex.pointers.xor_hex_to_flip_ptr / xor_byte_to_flip_ptr / read_byte_from_inners_ptrs': 'internal: "use after set_*_pointer" only',
    'hex.pointers.advance_by_one_and_flip__ptr_wflip, bit.pointers.advance_by_one_and_flip__ptr_wflip': 'internal helper of ptr_wflip',
    'stl.ptr_init / stl.stack_init / hex.pointers.ptr_init / hex.pointers.stack_init / bit.pointers.ptr_init': 'declarations, not '
    'applications; every program uses them through stl.startup_and_init_all / stl.startup_and_init_pointers',
}
