"""Shared shard logic for the data-macro properties (C04 hex, C05 bit): single-macro programs with exhaustive /
sampled operands, and random sequence programs over shared variables."""

from __future__ import annotations

import itertools
import random
from typing import Any, Callable, Dict, List, Optional, Sequence, Tuple

from fjverif import engines
from fjverif.common import case_hash, rng_for
from fjverif.stlmon import harness
from fjverif.stlmon.harness import App, Monitor, Spec, Var

EXHAUSTIVE_LIMIT = 1 << 16


def cell_bits(kind: str) -> int:
    return 1 if kind == 'bit' else 4


def variables_for_single(rng: random.Random, app_spec: Spec, n: int, consts: Optional[Dict[str, int]] = None,
                         hidden: Sequence[Var] = ()) -> Tuple[List[Var], Dict[str, List[Var]]]:
    """one variable per variable operand (a little longer than the macro uses, so that "[:n]" is checked), plus bystanders
    (and the library's hidden state variables, when the caller names them)."""
    variables: List[Var] = []
    pool: Dict[str, List[Var]] = {'bit': [], 'hex': []}
    for index, op in enumerate(app_spec.var_operands()):
        kind = harness.POOL_OF_KIND[op.kind]
        if kind == 'hidden':
            continue
        cells = max(1, int(eval(op.length, {'n': n, **(consts or {})})))  # noqa: S307
        var = Var(f'v{index}', kind, cells + rng.choice([0, 1, 2]))
        variables.append(var)
        pool.setdefault(kind, []).append(var)
    for kind in ('bit', 'hex'):
        var = Var(f'g{kind}', kind, rng.choice([1, 3]))
        variables.append(var)
    if hidden:
        variables.extend(hidden)
        pool['hidden'] = list(hidden)
    return variables, pool


def single_value_plan(app: App, variables: List[Var]) -> Tuple[Callable[[int, random.Random], Dict[str, int]], int, bool]:
    """exhaustive over the bits the macro reads when that space is <= 2^16, else boundary-biased random."""
    read_ops = [op for op in app.spec.var_operands() if op.role in ('r', 'rw')]
    by_var: Dict[str, int] = {}
    for op in read_ops:
        name = app.binding[op.name]
        var = next(v for v in variables if v.name == name)
        by_var[name] = max(by_var.get(name, 0), app.used_cells(op) * var.bits_per_cell)
    # role 'k' (kept) hidden state: the macro must work, and leave it alone, whatever it holds
    kept = {app.binding[op.name]: app.used_cells(op) for op in app.spec.var_operands() if op.role == 'k'}
    names = sorted(by_var)
    total_bits = sum(by_var.values())
    space = 1 << total_bits
    exhaustive = space <= EXHAUSTIVE_LIMIT

    def plan(pass_index: int, rng: random.Random) -> Dict[str, int]:
        values: Dict[str, int] = {}
        for var in variables:  # everything random first (upper cells, bystanders, write-only destinations)
            if var.hidden:  # library state is clean (0) unless the macro documents it as an input
                if by_var.get(var.name):
                    values[var.name] = harness.boundary_value(rng, by_var[var.name])
                else:
                    values[var.name] = harness.boundary_value(rng, kept[var.name]) if kept.get(var.name) and rng.random() < 0.2 else 0
                    if var.stale_ok and rng.random() < 0.3:  # a carry left set by an earlier documented macro
                        values[var.name] = harness.boundary_value(rng, var.length)
            else:
                values[var.name] = harness.boundary_value(rng, var.bits_per_cell * var.length)
        if exhaustive:
            rest = pass_index
            for name in names:
                bits = by_var[name]
                low = rest & ((1 << bits) - 1)
                rest >>= bits
                values[name] = (values[name] & ~((1 << bits) - 1)) | low
        return values

    return plan, (space if exhaustive else 0), exhaustive


def init_text(needs: str, w: int) -> str:
    if needs == 'none':
        return 'stl.startup'
    if needs == 'hex':
        return 'stl.startup_and_init_all 20'
    return needs  # an explicit init block


def violation_key(v: Dict[str, Any]) -> str:
    """mechanism key: macro, its form (scalar / n-vector overload) and what disagreed - never operand values."""
    form = '' if v.get('form', 'n') == 'n' else '[scalar]'
    return f'{v["macro"]}{form}/{v["what"]}'


class Recorder:
    def __init__(self, prop: str) -> None:
        self.prop = prop
        self.counters: Dict[str, Any] = {}
        self.violations: List[Dict[str, Any]] = []
        self.hashes: List[str] = []
        self.samples: List[Any] = []

    def count(self, key: str, n: int = 1) -> None:
        self.counters[key] = self.counters.get(key, 0) + n

    def program(self, apps: List[App], variables: List[Var], w: int, init: str, passes: int,
                plan: Callable[[int, random.Random], Dict[str, int]], rng: random.Random, label: str, journal: Any,
                fast_slice: int = 0, keep_going: bool = False) -> Optional[Monitor]:
        text = harness.render_program(apps, variables, w, init)
        journal.note({'program': text[:4000], 'w': w, 'label': label})
        path, labels, error = harness.assemble_program(text, w, tag=self.prop.lower())
        self.count('programs_rendered')
        if path is None or labels is None:
            self.count('programs_not_assembled')
            self.counters.setdefault('assembly_errors', [])
            short = f'{label} w={w}: {error[:160]}'
            if len(self.counters['assembly_errors']) < 8:
                self.counters['assembly_errors'].append(short)
            return None
        monitor = Monitor(apps, variables, labels, w, passes, plan, random.Random(rng.getrandbits(64)), keep_going=keep_going)
        result = harness.run_monitored(path, monitor)
        self.count('programs_run')
        self.count('monitor_evaluations', monitor.checks)
        self.count('distinct_operand_cases', len(monitor.case_keys))
        self.count('applications_monitored', monitor.applications)
        self.count('variable_cells_compared', monitor.cells_compared)
        self.count('unspecified_cases_skipped', monitor.skipped_unspecified)
        self.count('applications_checked_with_a_stale_carry', monitor.stale_cases)
        self.count(f'width/{w}')
        for key, value in monitor.branches_seen.items():
            self.counters.setdefault('branches_seen', {})
            self.counters['branches_seen'][key] = self.counters['branches_seen'].get(key, 0) + value
        for app in apps:
            self.counters.setdefault('macros', {})
            self.counters['macros'][app.spec.macro] = self.counters['macros'].get(app.spec.macro, 0) + 1
        for v in (monitor.all_violations if monitor.violation is not None else []):
            key = violation_key(v)
            if sum(1 for x in self.violations if x['key'] == key) < 2:
                self.violations.append({'key': key, 'what': f'{v["macro"]} ({v["doc"]}) n={v["n"]} w={w}: {v["detail"]}; operands {v["pass_values"]} '
                                                            f'consts {v["consts"]} after {v["sequence_so_far"]}',
                                        'replay': {**v, 'program': text[:6000], 'label': label}})
        if monitor.violation is not None:
            if not result['finished']:
                self.count('programs_stopped_at_violation')
        elif not result['finished']:
            obs = result['obs']
            key = f'run-ended-early/{obs.get("cause")}'
            macros = sorted({a.spec.macro for a in apps})
            if sum(1 for x in self.violations if x['key'].startswith('run-ended-early')) < 3:
                self.violations.append({'key': f'{macros[0] if len(macros) == 1 else "sequence"}/{key}',
                                        'what': f'{label} w={w}: run ended with {obs.get("cause")} {obs.get("exc")} after {monitor.applications} '
                                                f'applications (pass {monitor.pass_index}); operands {monitor.pass_values}; last {monitor.history[-6:]}',
                                        'replay': {'program': text[:6000], 'obs': {k: str(v) for k, v in obs.items()}, 'w': w}})
        elif fast_slice:
            # the same program on the pure-Python fast loop: an engine defect must not masquerade as a library defect
            mon2 = Monitor(apps, variables, labels, w, min(passes, fast_slice), plan, random.Random(1), keep_going=keep_going)
            res2 = harness.run_monitored(path, mon2, engine='fast')
            self.count('fast_engine_slices')
            if keep_going and mon2.violation is not None and res2['finished']:
                # other operand values than the native run above: a library discrepancy that run did not reach, not an engine one
                for v in mon2.all_violations:
                    key = violation_key(v)
                    if sum(1 for x in self.violations if x['key'] == key) < 2:
                        self.violations.append({'key': key, 'what': f'{v["macro"]} ({v["doc"]}) n={v["n"]} w={w}: {v["detail"]}; operands '
                                                                    f'{v["pass_values"]} consts {v["consts"]} after {v["sequence_so_far"]} '
                                                                    f'(fast-engine slice)',
                                                'replay': {**v, 'program': text[:6000], 'label': label}})
            elif mon2.violation is not None or not res2['finished']:
                self.violations.append({'key': 'fast-engine-slice-disagrees', 'what': f'{label}: {mon2.violation or res2["obs"]}',
                                        'replay': {'program': text[:6000]}})
        return monitor


def shard_single(rec: Recorder, specs: List[Spec], spec_indices: List[int], spec_seed: Any, tier: str, journal: Any,
                 hidden: Sequence[Var] = ()) -> None:
    rng = rng_for(*spec_seed)
    for index in spec_indices:
        spec = specs[index]
        n_values = list(spec.n_values)
        widths = list(spec.widths)
        combos = list(itertools.product(n_values, widths))
        long_lengths = set()
        if tier == 'quick':
            rng.shuffle(combos)
            # two of the short lengths, and EVERY long one (n >= 9: loop counters, indices and carries that need more than one
            # hex / three bits) once, with fewer passes
            long_combos = []
            for n in sorted({n for n in n_values if n >= 9}):
                long_combos.append((n, rng.choice(widths)))
            long_lengths = {n for n, _ in long_combos}
            short = [c for c in combos if c[0] not in long_lengths]
            # ... and always the 16-bit length (n = 4 hexes / 16 bits: sizes computed with #(4n) or #n change there)
            sixteen = [c for c in short if c[0] in (4, 16)][:1]
            combos = ([c for c in short if c not in sixteen][:2] if len(n_values) > 1 else short[:1]) + sixteen + long_combos
        for n, w in combos:
            app = None
            if hidden:
                # (C04) operand lengths may depend on the constants: draw those first
                for _ in range(40):
                    consts = harness.draw_consts(rng, spec, n, w)
                    if consts is None:
                        continue
                    variables, pool = variables_for_single(rng, spec, n, consts, hidden)
                    app = harness.bind(rng, spec, n, w, pool, consts)
                    if app is not None:
                        break
            else:
                variables, pool = variables_for_single(rng, spec, n)
                for _ in range(10):
                    app = harness.bind(rng, spec, n, w, pool)
                    if app is not None:
                        break
            if app is None:
                rec.count('unbindable')
                continue
            plan, space, exhaustive = single_value_plan(app, variables)
            passes = space if exhaustive else (2500 if tier == 'quick' else 20000)
            if n in long_lengths and not exhaustive:
                passes = 300
                rec.count('long_length_programs')
            mon = rec.program([app], variables, w, init_text(spec.needs, w), passes, plan, rng, f'single:{spec.macro}/{n}', journal,
                              fast_slice=150)
            if mon is not None:
                rec.hashes.append(case_hash([spec.macro, spec.doc, n, w, app.consts]))
                rec.count('exhaustive_programs' if exhaustive else 'sampled_programs')
                if exhaustive:
                    rec.count('exhaustive_operand_cases', passes)
                if len(rec.samples) < 1:
                    rec.samples.append({'macro': spec.macro, 'doc': spec.doc, 'n': n, 'w': w, 'passes': passes, 'exhaustive': exhaustive,
                                        'consts': app.consts, 'last_operands': {k: hex(v) for k, v in mon.pass_values.items()}})
            # aliased binding where the documentation allows it
            if spec.alias_ok:
                a, b = spec.alias_ok[0]
                alias_app = App(spec, n, dict(app.binding), dict(app.consts), list(app.labels))
                alias_app.binding[b] = alias_app.binding[a]
                plan2, space2, ex2 = single_value_plan(alias_app, variables)
                rec.program([alias_app], variables, w, init_text(spec.needs, w), min(space2, 4096) if ex2 else 1000, plan2, rng,
                            f'alias:{spec.macro}/{n}', journal)
                rec.count('aliased_programs')


def shard_sequence(rec: Recorder, specs: List[Spec], seed: Any, programs: int, tier: str, journal: Any, kinds: List[str], needs: str,
                   hidden: Sequence[Var] = (), keep_going: bool = False) -> None:
    rng = rng_for(*seed)
    for index in range(programs):
        w = rng.choice([16, 32, 64]) if needs == 'none' else rng.choice([32, 64])
        usable = [s for s in specs if w in s.widths]
        variables: List[Var] = []
        pool: Dict[str, List[Var]] = {'bit': [], 'hex': []}
        for kind in kinds:
            for k in range(rng.choice([3, 4, 5])):
                var = Var(f'{kind[0]}{k}', kind, rng.choice([1, 2, 4, 6, 8] if kind == 'bit' else [4, 8, 12, 16] if kind == 'field'
                                                            else [1, 2, 3, 4]))
                variables.append(var)
                pool.setdefault(kind, []).append(var)
        if hidden:
            variables.extend(hidden)
            pool['hidden'] = list(hidden)
        count = rng.choice([10, 20, 40]) if w > 16 else rng.choice([4, 8])
        apps = harness.build_apps(rng, usable, w, count, pool)
        if not apps:
            continue

        def plan(pass_index: int, prng: random.Random, variables: List[Var] = variables) -> Dict[str, int]:
            return {v.name: (harness.boundary_value(prng, v.length) if v.kind == 'field' and v.length
                             and prng.random() < (0.3 if v.stale_ok else 0.05) else 0)
                    if v.hidden else harness.boundary_value(prng, v.bits_per_cell * v.length) for v in variables}

        passes = 400 if tier == 'quick' else 4000
        mon = rec.program(apps, variables, w, init_text(needs, w), passes, plan, rng, f'sequence#{index}', journal,
                          fast_slice=20 if index % 3 == 0 else 0, keep_going=keep_going)
        if mon is not None:
            rec.count('sequence_programs')
            rec.hashes.append(case_hash([[a.spec.macro for a in apps], [a.binding for a in apps], w]))
            if len(rec.samples) < 1:
                rec.samples.append({'sequence': [f'{a.spec.macro} n={a.n} {a.binding}' for a in apps[:10]], 'w': w, 'passes': passes})
    engines.cleanup_tmpdir()
