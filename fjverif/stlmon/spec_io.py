"""
Spec table for the INPUT / PRINT / CAST / buffer-helper macros (C09).

One entry per documented macro, transcribed from the comment above its `def` (file:line in `doc`); the bodies were
read only for operand order and kinds.  The oracles are the small reference renderers/parsers below - raw
little-endian bytes, hex digits with the documented case/prefix options, decimal signed/unsigned without leading
zeros, ASCII<->value casts, bit<->hex casts, line/text buffers.

model(ctx) -> Res   (iomon.Res: exact output bits, input bits consumed, documented operand updates, branch,
                     operands the documentation leaves unspecified, eof = "the documented behaviour needs more input")
Conventions (same as spec_bit.py): an operand the comment does not say is changed must be unchanged; cells beyond the
documented [:n] must be unchanged.

Transcription decisions where the comment needs interpretation (all listed in the evidence `assumptions`):
  D1  a numeral with no digits reads as 0 (input_dec_*; backed by "a leading '+' stops with dst=0").
  D2  on the documented error branch / error flag the destination's content is UNSPECIFIED (input_as_hex,
      input_dec_uint/int, ascii2bin/dec/hex); for the multi-byte input_as_hex the number of bytes consumed after the
      offending one is unspecified too (between "up to the bad byte" and "all n").
  D3  print_int/print_hex_int with x_prefix: sign first, then "0x", then the magnitude ("-0x1f"); the prefix is the
      literal "0x" in both letter cases (the comment spells it "0x").
  D4  hex.print_as_digit n / hex.input_as_hex n: "the hexadecimal representation of x[:n]" is n digits, most
      significant first (the way a number is written).
  D5  bit.dec2ascii / print_dec_uint.print_char are documented for decimal digits: values 10..15 are outside the
      documented domain and are not generated.
  D6  a device-level end of input in the middle of a token is not a library matter: the only demand is that the macro
      asks for the next bit (so the run ends with EOF), having printed nothing and disturbed no foreign variable.
"""

from __future__ import annotations

import random
from typing import Callable, Dict, List, Optional, Tuple

from fjverif.stlmon.harness import Operand as O
from fjverif.stlmon.iomon import Bits, Case, Ctx, IOApp, IOSpec, Res, bits_of, bits_of_bytes

HEXW = (32, 64)


# ============================================================================ reference renderers / parsers
def signed(value: int, bits: int) -> int:
    return value - (1 << bits) if value >> (bits - 1) else value


def text(s: str) -> Bits:
    return bits_of_bytes(s.encode('latin-1'))


def hex_digit_char(d: int, upper: bool) -> str:
    return ('0123456789ABCDEF' if upper else '0123456789abcdef')[d]


def render_hex_fixed(value: int, digits: int, upper: bool) -> str:
    return ''.join(hex_digit_char((value >> (4 * (digits - 1 - i))) & 15, upper) for i in range(digits))


def render_hex_uint(value: int, prefix: bool, upper: bool) -> str:
    digits = ''
    while value:
        digits = hex_digit_char(value & 15, upper) + digits
        value >>= 4
    return ('0x' if prefix else '') + (digits or '0')


def render_hex_int(value: int, bits: int, prefix: bool, upper: bool) -> str:
    s = signed(value, bits)
    return ('-' if s < 0 else '') + render_hex_uint(abs(s), prefix, upper)


def render_dec(value: int) -> str:
    if value < 0:
        return '-' + render_dec(-value)
    digits = ''
    while value:
        digits = chr(0x30 + value % 10) + digits
        value //= 10
    return digits or '0'


HEX_VALUE = {**{0x30 + i: i for i in range(10)}, **{0x61 + i: 10 + i for i in range(6)}, **{0x41 + i: 10 + i for i in range(6)}}


def parse_dec(data: bytes, is_signed: bool) -> Optional[Tuple[int, int]]:
    """(value, index of the stop byte) - None when the data ends before a stop byte was seen."""
    i, neg, value = 0, False, 0
    if is_signed:
        if not data:
            return None
        if data[0] == 0x2D:
            neg, i = True, 1
    while True:
        if i >= len(data):
            return None
        b = data[i]
        if 0x30 <= b <= 0x39:
            value = value * 10 + (b - 0x30)
            i += 1
        else:
            return (-value if neg else value), i


def truthy(c: int) -> bool:
    return c != 0


# ============================================================================ models: hex/input.fj
def m_input_bits(count_of: Callable[[Ctx], int], dst: str) -> Callable[[Ctx], Res]:
    """dst = the next `count` input bits, lsb first (raw little-endian)."""
    def model(x: Ctx) -> Res:
        count = count_of(x)
        if len(x.inp) < count:
            return Res(eof=True)
        return Res(consumed=(count, count), updates={dst: sum(x.inp[i] << i for i in range(count))})
    return model


def m_input_as_hex_1(x: Ctx) -> Res:
    data = x.input_bytes()
    if len(data) < 1:
        return Res(eof=True)
    if data[0] in HEX_VALUE:
        return Res(consumed=(8, 8), updates={'hex': HEX_VALUE[data[0]]})
    return Res(consumed=(8, 8), branch='error', unspecified={'hex'})


def m_input_as_hex_n(x: Ctx) -> Optional[Res]:
    data = x.input_bytes()[:x.n]
    for i, b in enumerate(data):
        if b not in HEX_VALUE:
            if len(x.inp) < 8 * x.n:
                return None  # how far a failing application reads on is unspecified: no truncated case with a bad byte
            return Res(consumed=(8 * (i + 1), 8 * x.n), branch='error', unspecified={'hex'})
    if len(x.inp) < 8 * x.n:
        return Res(eof=True)
    value = 0
    for b in data:           # the bytes spell the number the way it is written: first character = most significant
        value = value * 16 + HEX_VALUE[b]
    return Res(consumed=(8 * x.n, 8 * x.n), updates={'hex': value})


def m_input_dec_until(is_signed: bool) -> Callable[[Ctx], Res]:
    def model(x: Ctx) -> Res:
        data = x.input_bytes()
        parsed = parse_dec(data, is_signed)
        if parsed is None:
            return Res(eof=True)
        value, stop = parsed
        used = 8 * (stop + 1)
        return Res(consumed=(used, used), updates={'dst': value % (16 ** x.n), 'stop_byte': data[stop]})
    return model


def m_input_dec(is_signed: bool) -> Callable[[Ctx], Res]:
    def model(x: Ctx) -> Res:
        data = x.input_bytes()
        parsed = parse_dec(data, is_signed)
        if parsed is None:
            return Res(eof=True)
        value, stop = parsed
        used = 8 * (stop + 1)
        if data[stop] in (0x0A, 0x00):
            return Res(consumed=(used, used), updates={'dst': value % (16 ** x.n)})
        return Res(consumed=(used, used), branch='error', unspecified={'dst'})
    return model


# ============================================================================ models: output
def m_out(render: Callable[[Ctx], Bits]) -> Callable[[Ctx], Res]:
    return lambda x: Res(out=render(x))


def m_hex_print_digit(x: Ctx) -> Res:
    if x.v['printed_something'] == 0 and x.v['hex'] == 0:
        return Res()
    return Res(out=text(hex_digit_char(x.v['hex'], truthy(x.c['use_uppercase']))), updates={'printed_something': 1})


def m_bit_print_digit(x: Ctx) -> Res:
    if x.v['printed_flag'] == 0 and x.v['hex'] == 0:
        return Res()
    return Res(out=text(hex_digit_char(x.v['hex'], True)), updates={'printed_flag': 1})


def m_print_str(x: Ctx) -> Res:
    data = x.v['x'].to_bytes(x.n, 'little')
    end = data.find(b'\0')
    return Res(out=bits_of_bytes(data if end < 0 else data[:end]))


def m_print_str_one_char(x: Ctx) -> Res:
    if x.v['char'] == 0:
        return Res(branch='end')
    return Res(out=bits_of(x.v['char'], 8))


def m_print_char(x: Ctx) -> Res:
    if x.v['char_flag'] == 0:
        return Res()
    return Res(out=text(chr(0x30 + x.v['ascii4'])))


# ============================================================================ models: casting
def m_ascii2(digits: Dict[int, int], dst: str) -> Callable[[Ctx], Res]:
    def model(x: Ctx) -> Res:
        if x.v['ascii'] in digits:
            return Res(updates={'error': 0, dst: digits[x.v['ascii']]})
        return Res(updates={'error': 1}, unspecified={dst})
    return model


def m_hex2ascii(x: Ctx) -> Res:
    return Res(updates={'ascii': ord(hex_digit_char(x.v['hex'], True))})


# ============================================================================ models: hex/strings.fj
def width_mod(x: Ctx) -> int:
    return 16 ** (x.w // 4)


def m_input_ptr_line(x: Ctx) -> Res:
    data = x.input_bytes()
    stops = [i for i, b in enumerate(data) if b in (0x0A, 0x00)]
    if not stops:
        return Res(eof=True)
    t = stops[0]
    x.store(x.v['ptr'], data[:t])
    return Res(consumed=(8 * (t + 1), 8 * (t + 1)), updates={'len': t % width_mod(x)})


def m_print_ptr_text(x: Ctx) -> Optional[Res]:
    data = x.load(x.v['ptr'], x.v['len'])
    if data is None:
        return None
    return Res(out=bits_of_bytes(data))


def m_print_ptr_line(x: Ctx) -> Optional[Res]:
    out = bytearray()
    i = 0
    while True:
        cell = x.load(x.v['ptr'] + i * x.dw, 1)
        if cell is None:
            return None
        if cell[0] == 0:
            break
        if cell[0] == 0x0A:
            out.append(0x0A)   # "A terminating '\n' is printed too (a terminating 0-byte is not); either way len excludes it"
            break
        out.append(cell[0])
        i += 1
    return Res(out=bits_of_bytes(bytes(out)), updates={'len': i})


def m_fill_bytes(x: Ctx) -> Optional[Res]:
    if x.load(x.v['ptr'], x.v['count']) is None:
        return None
    x.store(x.v['ptr'], bytes([x.v['value']]) * x.v['count'])
    return Res()


def m_copy_bytes(x: Ctx) -> Optional[Res]:
    data = x.load(x.v['src_ptr'], x.v['count'])
    if data is None or x.load(x.v['dst_ptr'], x.v['count']) is None:
        return None
    x.store(x.v['dst_ptr'], data)
    return Res()


# ============================================================================ input workloads (COMPLETE inputs)
def all_nibbles(rng, n, w, c, tier):  # type: ignore[no-untyped-def]
    return [bits_of(v, 4) for v in range(16)]


def all_bits(rng, n, w, c, tier):  # type: ignore[no-untyped-def]
    return [[0], [1]]


def all_bytes(rng, n, w, c, tier):  # type: ignore[no-untyped-def]
    return [bits_of(v, 8) for v in range(256)]


def raw_bytes(rng, n, w, c, tier):  # type: ignore[no-untyped-def]
    out = [bytes(n), bytes([0xFF]) * n, bytes(range(1, n + 1)), bytes([0x80]) + bytes(n - 1), bytes(n - 1) + bytes([0x01])]
    if n == 1:
        out += [bytes([v]) for v in range(256)]
    count = 40 if tier == 'seq' else (300 if tier == 'quick' else 3000)
    out += [bytes(rng.getrandbits(8) for _ in range(n)) for _ in range(count)]
    return [bits_of_bytes(b) for b in out]


HEX_CHARS = sorted(HEX_VALUE)
NON_HEX = [b for b in range(256) if b not in HEX_VALUE]
NON_DIGIT = [b for b in range(256) if not 0x30 <= b <= 0x39]
SPECIAL_STOPS = [0x00, 0x0A, 0x0D, 0x20, 0x2B, 0x2D, 0x2E, 0x2F, 0x3A, 0x3B, 0x3F, 0x40, 0x41, 0x61, 0x10, 0x13, 0x23, 0x29,
                 0x1A, 0x2A, 0x33 ^ 0x80, 0x39 ^ 0x40, 0xB0, 0xFF, 0x7F, 0x80, 0x03, 0x09, 0x60, 0x66, 0x47, 0x67]


def as_hex_1_inputs(rng, n, w, c, tier):  # type: ignore[no-untyped-def]
    return [bits_of(v, 8) for v in range(256)]


def as_hex_n_inputs(rng, n, w, c, tier):  # type: ignore[no-untyped-def]
    out: List[bytes] = []
    rand_valid = lambda k: bytes(rng.choice(HEX_CHARS) for _ in range(k))  # noqa: E731
    if n <= 2 and tier != 'seq':
        import itertools
        out += [bytes(t) for t in itertools.product(HEX_CHARS, repeat=n)]
    out += [b'0' * n, b'f' * n, b'F' * n, b'9' * n, b'a' * n, b'A' * n]
    count = 30 if tier == 'seq' else (200 if tier == 'quick' else 2000)
    out += [rand_valid(n) for _ in range(count)]
    if tier == 'seq':
        bad = rng.sample(NON_HEX, 6)
    elif tier == 'quick' and n > 4:
        bad = sorted(set(rng.sample(NON_HEX, 48) + [0x2F, 0x3A, 0x40, 0x47, 0x60, 0x67, 0x00, 0x0A, 0xB1, 0xE1, 0xC1, 0x10, 0x20]))
    else:
        bad = NON_HEX
    for position in range(n):          # every invalid byte at every position
        for b in bad:
            out.append(rand_valid(position) + bytes([b]) + rand_valid(n - position - 1))
    return [bits_of_bytes(b) for b in out]


def numerals(rng, n, tier):  # type: ignore[no-untyped-def]
    top = 16 ** n
    longest = len(str(top)) + 2
    out = ['', '0', '00', '007', '010', '0000000000000000000000001']
    for k in range(longest):
        out += ['1' + '0' * k, '9' * (k + 1), '1' + '0' * k + '1' if k else '11']
    for v in (top - 1, top, top + 1, top // 2, top // 2 - 1, top // 2 + 1, 2 * top + 5, 10 * top + 7, top * top + 3):
        out.append(str(v))
    if n <= 2 and tier != 'seq':
        out += [str(v) for v in range(2 * top + 2)]
    per_length = 1 if tier == 'seq' else (3 if tier == 'quick' else 12)
    for length in range(1, longest + 1):          # valid numerals of every length
        for _ in range(per_length):
            out.append(str(rng.randrange(1, 10)) + ''.join(str(rng.randrange(10)) for _ in range(length - 1)))
    return out, longest


def dec_inputs(is_signed: bool, stops_ok: Optional[List[int]]):  # type: ignore[no-untyped-def]
    """numeral + one stop byte. stops_ok = the documented terminators (error-branch macros) or None (the _until macros)."""
    def gen(rng, n, w, c, tier):  # type: ignore[no-untyped-def]
        nums, longest = numerals(rng, n, tier)
        out: List[bytes] = []
        default_stops = stops_ok or [0x0A, 0x00, 0x20, 0x2C]
        for s in nums:
            sign_options = ['', '-'] if is_signed else ['']
            for sign in sign_options:
                out.append((sign + s).encode() + bytes([rng.choice(default_stops)]))
        if tier == 'seq':
            stops = rng.sample(NON_DIGIT, 5)
        elif tier == 'quick':
            stops = sorted(set(SPECIAL_STOPS + rng.sample(NON_DIGIT, 40)))
        else:
            stops = NON_DIGIT
        for length in range(0, longest + 1):      # every invalid byte at every position
            for b in stops:
                body = ''.join(str(rng.randrange(10)) for _ in range(length))
                sign = '-' if is_signed and rng.random() < 0.4 else ''
                out.append((sign + body).encode() + bytes([b]))
        if is_signed:
            out += [b'--5\n', b'-+5\n', b'+5\n', b'- 5\n', b'5-\n', b'-\n', b'-\0', b'-0\n', b'-00\n']
        return [bits_of_bytes(b) for b in out]
    return gen


def line_inputs(rng, n, w, c, tier):  # type: ignore[no-untyped-def]
    raise AssertionError('pointer macros use `cases`')


# ============================================================================ custom workloads for the pointer macros
BUF = 36          # usable bytes per buffer in single-macro programs (+1 guard cell that no documented write reaches);
#                   long enough for lengths that cross a hex digit (15/16/17, 31/32/33)


def buf_offset(rng: random.Random) -> int:
    return rng.choice([0, 0, 1, rng.randrange(0, BUF)])


def buf_length(rng: random.Random, maximum: int) -> int:
    """a length in [0, maximum], biased to the values around a carry into the next hex digit of the length."""
    if rng.random() < 0.5:
        cands = [v for v in (0, 1, 2, 15, 16, 17, 31, 32, 33, maximum) if v <= maximum]
        return rng.choice(cands)
    return rng.randrange(0, maximum + 1)


def rand_text(rng: random.Random, length: int, forbid: Tuple[int, ...] = (0x00, 0x0A)) -> bytes:
    out = bytearray()
    while len(out) < length:
        b = rng.choice([rng.getrandbits(8), rng.randrange(0x20, 0x7F), rng.choice([0x01, 0xFF, 0x80, 0x0B, 0x09, 0x1A, 0x8A, 0xA0])])
        if b not in forbid:
            out.append(b)
    return bytes(out)


def pack(data: bytes) -> int:
    return int.from_bytes(data, 'little')


def count_of(tier: str, quick: int, thorough: int) -> int:
    return quick if tier == 'quick' else thorough


def c_input_ptr_line(rng: random.Random, app: IOApp, w: int, tier: str) -> List[Case]:
    out = []
    for _ in range(count_of(tier, 250, 2500)):
        offset = buf_offset(rng)
        length = buf_length(rng, BUF - offset)
        line = rand_text(rng, length) + bytes([rng.choice([0x0A, 0x00])])
        out.append(Case(values={'ptr': offset, 'len': rng.getrandbits(w)}, input=bits_of_bytes(line),
                        buffers={'ptr': pack(rand_text(rng, BUF + 1, ()))}))
    return out


def c_print_ptr_text(rng: random.Random, app: IOApp, w: int, tier: str) -> List[Case]:
    out = []
    for _ in range(count_of(tier, 250, 2500)):
        offset = buf_offset(rng)
        length = buf_length(rng, BUF - offset)
        content = rand_text(rng, BUF + 1, ()) if rng.random() < 0.7 else bytes(rng.choice([0, 0x0A, 0x41]) for _ in range(BUF + 1))
        out.append(Case(values={'ptr': offset, 'len': length}, buffers={'ptr': pack(content)}))
    return out


def c_print_ptr_line(rng: random.Random, app: IOApp, w: int, tier: str) -> List[Case]:
    out = []
    for _ in range(count_of(tier, 250, 2500)):
        offset = buf_offset(rng)
        length = buf_length(rng, BUF - offset)
        terminator = rng.choice([0x0A, 0x00])
        content = bytearray(rand_text(rng, BUF + 1, ()))
        content[offset:offset + length] = rand_text(rng, length)
        content[offset + length] = terminator      # offset+length <= BUF: the guard cell at the latest
        out.append(Case(values={'ptr': offset, 'len': rng.getrandbits(w)}, buffers={'ptr': pack(bytes(content))}))
    return out


def c_fill_bytes(rng: random.Random, app: IOApp, w: int, tier: str) -> List[Case]:
    out = []
    for i in range(count_of(tier, 300, 3000)):
        offset = buf_offset(rng)
        length = buf_length(rng, BUF - offset)
        out.append(Case(values={'ptr': offset, 'count': length, 'value': i % 256}, buffers={'ptr': pack(rand_text(rng, BUF + 1, ()))}))
    return out


def c_copy_bytes(rng: random.Random, app: IOApp, w: int, tier: str) -> List[Case]:
    out = []
    for _ in range(count_of(tier, 250, 2500)):
        so, do = buf_offset(rng), buf_offset(rng)
        length = buf_length(rng, BUF - max(so, do))
        out.append(Case(values={'dst_ptr': do, 'src_ptr': so, 'count': length},
                        buffers={'dst_ptr': pack(rand_text(rng, BUF + 1, ())), 'src_ptr': pack(rand_text(rng, BUF + 1, ()))}))
    return out


# ============================================================================ constants
def flag(rng, n, w):  # type: ignore[no-untyped-def]
    return rng.choice([0, 1, 0, 1, 7])


def const_bit(rng, n, w):  # type: ignore[no-untyped-def]
    return rng.choice([0, 1, 2, 255, 256])


def const_char(rng, n, w):  # type: ignore[no-untyped-def]
    return rng.choice([rng.randrange(256), rng.randrange(256), 0x141, 0x1FF00 + rng.randrange(256), 0, 0xFF, 0x0A])


def const_str(rng, n, w):  # type: ignore[no-untyped-def]
    length = rng.choice([0, 1, 2, 3, 5, 8, 13])
    data = bytearray(rng.randrange(1, 256) for _ in range(length))
    if length > 2 and rng.random() < 0.3:
        data[rng.randrange(length - 1)] = 0          # an inner zero byte is still "before it becomes all zeros"
    return int.from_bytes(bytes(data), 'little')


def m_output_str(x: Ctx) -> Res:
    value = x.c['str']
    out = bytearray()
    while value:                                     # "outputs the bytes of it (from lsB to msB) until it becomes all zeros"
        out.append(value & 0xFF)
        value >>= 8
    return Res(out=bits_of_bytes(bytes(out)))


HEX_N = tuple(range(1, 17))
BIT_N = (1, 2, 3, 4, 5, 7, 8, 9, 12, 15, 16, 17, 24, 31, 32, 33, 48, 63, 64)
BIT_N4 = (4, 8, 12, 16, 20, 24, 32, 40, 48, 56, 64)
BYTE_N = (1, 2, 3, 4, 5, 8)
# decimal printing sizes its digit buffer from n (about n*log10(2) digits): sizes well beyond a machine word are part of the domain
BIT_N_DEC = BIT_N + (103, 128, 200)
HEX_N_DEC = HEX_N + (17, 32, 49)

DIGITS_BIN = {0x30: 0, 0x31: 1}
DIGITS_DEC = {0x30 + i: i for i in range(10)}

SPECS: List[IOSpec] = [
    # ------------------------------------------------------------------------------------------ hex/input.fj
    IOSpec('hex.input_hex', 'hex.input', [O('hex', 'hex', 'w', '1')], m_input_bits(lambda x: 4, 'hex'), 'hex/input.fj:7',
           inputs=all_nibbles),
    IOSpec('hex.input', 'hex.input', [O('byte', 'hex', 'w', '2')], m_input_bits(lambda x: 8, 'byte'), 'hex/input.fj:31',
           inputs=all_bytes),
    IOSpec('hex.input', 'hex.input', [O('n', 'n'), O('bytes', 'hex', 'w', '2*n')], m_input_bits(lambda x: 8 * x.n, 'bytes'),
           'hex/input.fj:39', n_values=BYTE_N, inputs=raw_bytes),
    IOSpec('hex.input_as_hex', 'hex.input', [O('hex', 'hex', 'w', '1'), O('error', 'label')], m_input_as_hex_1, 'hex/input.fj:46',
           inputs=as_hex_1_inputs),
    IOSpec('hex.input_as_hex', 'hex.input', [O('n', 'n'), O('hex', 'hex', 'w', 'n'), O('error', 'label')], m_input_as_hex_n,
           'hex/input.fj:90', n_values=HEX_N, inputs=as_hex_n_inputs),
    IOSpec('hex.input_dec_uint_until', 'hex.input', [O('n', 'n'), O('dst', 'hex', 'w', 'n'), O('stop_byte', 'hex', 'w', '2')],
           m_input_dec_until(False), 'hex/input.fj:98', n_values=HEX_N, inputs=dec_inputs(False, None)),
    IOSpec('hex.input_dec_int_until', 'hex.input', [O('n', 'n'), O('dst', 'hex', 'w', 'n'), O('stop_byte', 'hex', 'w', '2')],
           m_input_dec_until(True), 'hex/input.fj:122', n_values=HEX_N, inputs=dec_inputs(True, None)),
    IOSpec('hex.input_dec_uint', 'hex.input', [O('n', 'n'), O('dst', 'hex', 'w', 'n'), O('error', 'label')],
           m_input_dec(False), 'hex/input.fj:160', n_values=HEX_N, inputs=dec_inputs(False, [0x0A, 0x00])),
    IOSpec('hex.input_dec_int', 'hex.input', [O('n', 'n'), O('dst', 'hex', 'w', 'n'), O('error', 'label')],
           m_input_dec(True), 'hex/input.fj:175', n_values=HEX_N, inputs=dec_inputs(True, [0x0A, 0x00])),
    # ------------------------------------------------------------------------------------------ hex/output.fj
    IOSpec('hex.output', 'hex.output', [O('hex', 'hex', 'r', '1')], m_out(lambda x: bits_of(x.v['hex'], 4)), 'hex/output.fj:8'),
    IOSpec('hex.print', 'hex.output', [O('x', 'hex', 'r', '2')], m_out(lambda x: bits_of(x.v['x'], 8)), 'hex/output.fj:62'),
    IOSpec('hex.print', 'hex.output', [O('n', 'n'), O('x', 'hex', 'r', '2*n')], m_out(lambda x: bits_of(x.v['x'], 8 * x.n)),
           'hex/output.fj:70', n_values=BYTE_N),
    IOSpec('hex.print_as_digit', 'hex.output', [O('hex', 'hex', 'r', '1'), O('use_uppercase', 'const', values=flag)],
           m_out(lambda x: text(hex_digit_char(x.v['hex'], truthy(x.c['use_uppercase'])))), 'hex/output.fj:82'),
    IOSpec('hex.print_as_digit', 'hex.output', [O('n', 'n'), O('x', 'hex', 'r', 'n'), O('use_uppercase', 'const', values=flag)],
           m_out(lambda x: text(render_hex_fixed(x.v['x'], x.n, truthy(x.c['use_uppercase'])))), 'hex/output.fj:148', n_values=HEX_N),
    IOSpec('hex.print_uint', 'hex.output', [O('n', 'n'), O('x', 'hex', 'r', 'n'), O('x_prefix', 'const', values=flag),
                                            O('use_uppercase', 'const', values=flag)],
           m_out(lambda x: text(render_hex_uint(x.v['x'], truthy(x.c['x_prefix']), truthy(x.c['use_uppercase'])))),
           'hex/output.fj:157', n_values=HEX_N),
    IOSpec('hex.print_uint.print_digit', 'hex.output', [O('hex', 'hex', 'r', '1'), O('printed_something', 'bit', 'rw', '1'),
                                                        O('use_uppercase', 'const', values=flag)],
           m_hex_print_digit, 'hex/output.fj:178'),
    IOSpec('hex.print_int', 'hex.output', [O('n', 'n'), O('x', 'hex', 'r', 'n'), O('x_prefix', 'const', values=flag),
                                           O('use_uppercase', 'const', values=flag)],
           m_out(lambda x: text(render_hex_int(x.v['x'], 4 * x.n, truthy(x.c['x_prefix']), truthy(x.c['use_uppercase'])))),
           'hex/output.fj:194', n_values=HEX_N),
    IOSpec('hex.print_dec_uint', 'hex.output', [O('n', 'n'), O('x', 'hex', 'r', 'n')],
           m_out(lambda x: text(render_dec(x.v['x']))), 'hex/output.fj:218', n_values=HEX_N_DEC),
    IOSpec('hex.print_dec_int', 'hex.output', [O('n', 'n'), O('x', 'hex', 'r', 'n')],
           m_out(lambda x: text(render_dec(signed(x.v['x'], 4 * x.n)))), 'hex/output.fj:229', n_values=HEX_N_DEC),
    # ------------------------------------------------------------------------------------------ bit/input.fj
    IOSpec('bit.input_bit', 'bit.input', [O('dst', 'bit', 'w', '1')], m_input_bits(lambda x: 1, 'dst'), 'bit/input.fj:7',
           needs='none', inputs=all_bits),
    IOSpec('bit.input', 'bit.input', [O('dst', 'bit', 'w', '8')], m_input_bits(lambda x: 8, 'dst'), 'bit/input.fj:16',
           needs='none', inputs=all_bytes),
    # "Effectively inputs an 8*n bits little endian number into dst[:8n]": first byte = least significant
    IOSpec('bit.input', 'bit.input', [O('n', 'n'), O('dst', 'bit', 'w', '8*n')], m_input_bits(lambda x: 8 * x.n, 'dst'),
           'bit/input.fj:24', n_values=BYTE_N, needs='none', inputs=raw_bytes, seq_ok=False),  # seq_ok: see DISCREPANCIES
    # ------------------------------------------------------------------------------------------ bit/output.fj
    IOSpec('bit.output', 'bit.output', [O('x', 'bit', 'r', '1')], m_out(lambda x: [x.v['x']]), 'bit/output.fj:3', needs='none'),
    IOSpec('bit.print', 'bit.output', [O('x', 'bit', 'r', '8')], m_out(lambda x: bits_of(x.v['x'], 8)), 'bit/output.fj:18',
           needs='none'),
    IOSpec('bit.print', 'bit.output', [O('n', 'n'), O('x', 'bit', 'r', '8*n')], m_out(lambda x: bits_of(x.v['x'], 8 * x.n)),
           'bit/output.fj:24', n_values=BYTE_N, needs='none'),
    IOSpec('bit.print_str', 'bit.output', [O('n', 'n'), O('x', 'bit', 'r', '8*n')], m_print_str, 'bit/output.fj:32',
           n_values=(1, 2, 3, 5, 8), needs='none'),
    IOSpec('bit._.print_str_one_char', 'bit.output', [O('char', 'bit', 'r', '8'), O('end', 'label')], m_print_str_one_char,
           'bit/output.fj:39', needs='none'),
    IOSpec('bit.print_as_digit', 'bit.output', [O('x', 'bit', 'r', '1')], m_out(lambda x: text('01'[x.v['x']])), 'bit/output.fj:49',
           needs='none'),
    # "prints x[:n] as n ascii-characters ('0's and '1's, lsb first)"
    IOSpec('bit.print_as_digit', 'bit.output', [O('n', 'n'), O('x', 'bit', 'r', 'n')],
           m_out(lambda x: text(''.join('01'[(x.v['x'] >> i) & 1] for i in range(x.n)))), 'bit/output.fj:57',
           n_values=(1, 2, 3, 4, 8, 13, 32, 64), needs='none', seq_ok=False),  # seq_ok: see DISCREPANCIES
    IOSpec('bit.print_hex_uint', 'bit.output', [O('n', 'n'), O('x', 'bit', 'r', 'n'), O('x_prefix', 'const', values=flag)],
           m_out(lambda x: text(render_hex_uint(x.v['x'], truthy(x.c['x_prefix']), True))), 'bit/output.fj:71', n_values=BIT_N4,
           needs='none'),
    IOSpec('bit.print_hex_uint.print_digit', 'bit.output', [O('hex', 'bit', 'r', '4'), O('printed_flag', 'bit', 'rw', '1')],
           m_bit_print_digit, 'bit/output.fj:96', needs='none'),
    IOSpec('bit.print_hex_int', 'bit.output', [O('n', 'n'), O('x', 'bit', 'r', 'n'), O('x_prefix', 'const', values=flag)],
           m_out(lambda x: text(render_hex_int(x.v['x'], x.n, truthy(x.c['x_prefix']), True))), 'bit/output.fj:117', n_values=BIT_N4,
           needs='none'),
    IOSpec('bit.print_dec_uint', 'bit.output', [O('n', 'n'), O('x', 'bit', 'r', 'n')], m_out(lambda x: text(render_dec(x.v['x']))),
           'bit/output.fj:146', n_values=BIT_N_DEC, needs='none'),
    IOSpec('bit.print_dec_uint.print_char', 'bit.output', [O('ascii4', 'bit', 'r', '4'), O('char_flag', 'bit', 'r', '1')],
           m_print_char, 'bit/output.fj:212', needs='none', valid=lambda n, v, c, w: v['ascii4'] <= 9, seq_ok=False),
    IOSpec('bit.print_dec_int', 'bit.output', [O('n', 'n'), O('x', 'bit', 'r', 'n')],
           m_out(lambda x: text(render_dec(signed(x.v['x'], x.n)))), 'bit/output.fj:225', n_values=BIT_N_DEC, needs='none'),
    # ------------------------------------------------------------------------------------------ bit/casting.fj
    IOSpec('bit.bin2ascii', 'bit.casting', [O('ascii', 'bit', 'w', '8'), O('bin', 'bit', 'r', '1')],
           lambda x: Res(updates={'ascii': 0x30 + x.v['bin']}), 'bit/casting.fj:19', needs='none'),
    IOSpec('bit.dec2ascii', 'bit.casting', [O('ascii', 'bit', 'w', '8'), O('dec', 'bit', 'r', '4')],
           lambda x: Res(updates={'ascii': 0x30 + x.v['dec']}), 'bit/casting.fj:29', needs='none',
           valid=lambda n, v, c, w: v['dec'] <= 9, seq_ok=False),
    IOSpec('bit.hex2ascii', 'bit.casting', [O('ascii', 'bit', 'w', '8'), O('hex', 'bit', 'r', '4')], m_hex2ascii, 'bit/casting.fj:40',
           needs='none'),
    IOSpec('bit.ascii2bin', 'bit.casting', [O('error', 'bit', 'w', '1'), O('bin', 'bit', 'w', '1'), O('ascii', 'bit', 'r', '8')],
           m_ascii2(DIGITS_BIN, 'bin'), 'bit/casting.fj:67', needs='none'),
    IOSpec('bit.ascii2dec', 'bit.casting', [O('error', 'bit', 'w', '1'), O('dec', 'bit', 'w', '4'), O('ascii', 'bit', 'r', '8')],
           m_ascii2(DIGITS_DEC, 'dec'), 'bit/casting.fj:91', needs='none'),
    IOSpec('bit.ascii2hex', 'bit.casting', [O('error', 'bit', 'w', '1'), O('hex', 'bit', 'w', '4'), O('ascii', 'bit', 'r', '8')],
           m_ascii2(HEX_VALUE, 'hex'), 'bit/casting.fj:118', needs='none', seq_ok=False),  # seq_ok: see DISCREPANCIES
    # ------------------------------------------------------------------------------------------ casting.fj
    IOSpec('stl.bit2hex', 'stl.casting', [O('hex', 'hex', 'w', '1'), O('bit', 'bit', 'r', '1')],
           lambda x: Res(updates={'hex': x.v['bit']}), 'casting.fj:8'),
    IOSpec('stl.bit2hex', 'stl.casting', [O('n', 'n'), O('hex', 'hex', 'w', '(n+3)//4'), O('bit', 'bit', 'r', 'n')],
           lambda x: Res(updates={'hex': x.v['bit']}), 'casting.fj:19', n_values=(1, 2, 3, 4, 5, 7, 8, 9, 13, 16, 31, 32, 63, 64)),
    IOSpec('stl.hex2bit', 'stl.casting', [O('bit', 'bit', 'w', '4'), O('hex', 'hex', 'r', '1')],
           lambda x: Res(updates={'bit': x.v['hex']}), 'casting.fj:35'),
    IOSpec('stl.hex2bit', 'stl.casting', [O('n', 'n'), O('bit', 'bit', 'w', '4*n'), O('hex', 'hex', 'r', 'n')],
           lambda x: Res(updates={'bit': x.v['hex']}), 'casting.fj:46', n_values=HEX_N),
    # ------------------------------------------------------------------------------------------ hex/strings.fj
    IOSpec('hex.input_ptr_line', 'hex.strings', [O('ptr', 'ptr', 'r', 'w//4'), O('len', 'hex', 'w', 'w//4')], m_input_ptr_line,
           'hex/strings.fj:7', cases=c_input_ptr_line, seq_ok=False),
    IOSpec('hex.print_ptr_text', 'hex.strings', [O('ptr', 'ptr', 'r', 'w//4'), O('len', 'hex', 'r', 'w//4')], m_print_ptr_text,
           'hex/strings.fj:31', cases=c_print_ptr_text, seq_ok=False),
    IOSpec('hex.print_ptr_line', 'hex.strings', [O('ptr', 'ptr', 'r', 'w//4'), O('len', 'hex', 'w', 'w//4')], m_print_ptr_line,
           'hex/strings.fj:54', cases=c_print_ptr_line, seq_ok=False),
    IOSpec('hex.fill_bytes', 'hex.strings', [O('ptr', 'ptr', 'r', 'w//4'), O('count', 'hex', 'r', 'w//4'), O('value', 'hex', 'r', '2')],
           m_fill_bytes, 'hex/strings.fj:86', cases=c_fill_bytes, seq_ok=False),
    IOSpec('hex.copy_bytes', 'hex.strings', [O('dst_ptr', 'ptr', 'r', 'w//4'), O('src_ptr', 'ptr', 'r', 'w//4'),
                                             O('count', 'hex', 'r', 'w//4')],
           m_copy_bytes, 'hex/strings.fj:107', cases=c_copy_bytes, seq_ok=False),
    # ------------------------------------------------------------------------------------------ runlib.fj
    IOSpec('stl.output_bit', 'runlib', [O('bit', 'const', values=const_bit)], m_out(lambda x: [1 if x.c['bit'] else 0]),
           'runlib.fj:152', needs='none'),
    IOSpec('stl.output_char', 'runlib', [O('ascii', 'const', values=const_char)], m_out(lambda x: bits_of(x.c['ascii'] & 0xFF, 8)),
           'runlib.fj:158', needs='none'),
    IOSpec('stl.output', 'runlib', [O('str', 'str', values=const_str)], m_output_str, 'runlib.fj:164', needs='none'),
]

FAMILIES = sorted({s.family for s in SPECS})

# Entries where the unchanged library disagrees with its own comment (found by this check, spec NOT bent). They stay in
# the single-macro programs (which report them); they are kept out of the random sequences only because a sequence stops
# at its first violation and would then never reach the applications behind it.
DISCREPANCIES = {
    'bit.input n, dst': 'bit/input.fj:24 documents a little endian number (first byte = least significant); the first byte lands in '
                        'the MOST significant byte of dst',
    'bit.print_as_digit n, x': "bit/output.fj:57 documents \"lsb first\"; the characters come out msb first",
    'bit.ascii2hex': 'bit/casting.fj:118 does not say ascii is modified; for ascii in 0x40-0x47 / 0x60-0x67 its low three bits are '
                     'incremented (also on the error path, e.g. 0x40 -> 0x41)',
}

# documented macros of the anchored files that have no entry, with the reason
NOT_COVERED = {
    'bit.print_dec_uint.div10_step': 'inner step of bit.print_dec_uint that calls label-functions (div10, xor) and a return register '
                                     'owned by its caller; it cannot be applied on its own, it runs inside every bit/hex print_dec_* case',
    'bit.str': 'a data-definition macro (no run-time behaviour); its layout is checked statically by the c09 "static" shard',
}
