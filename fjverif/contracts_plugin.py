"""
Runtime contracts (icontract) applied from OUTSIDE to classes of the tree under test (DESIGN 3.10) - a secondary
oracle: class invariants and postconditions on the .fjm Reader/Writer and the bit-level IO devices.

Used in two ways: (1) as a pytest plugin (`pytest -p fjverif.contracts_plugin`) so that the repository's own
455 tests run with the contracts on, (2) imported by checks that drive the same classes with generated workloads.
Every condition is a named function with an explicit `error=`; evaluations are counted, and zero evaluations
means the tier is inconclusive (references bound before decoration bypass a contract).
"""

from __future__ import annotations

import json
import os
from typing import Any, Dict

COUNTS: Dict[str, int] = {}
BROKEN: list = []


class ContractBroken(AssertionError):
    pass


def _count(name: str) -> None:
    COUNTS[name] = COUNTS.get(name, 0) + 1


def _note(name: str, detail: str) -> None:
    if len(BROKEN) < 20:
        BROKEN.append({'contract': name, 'detail': detail[:300]})


# ------------------------------------------------------------------ Reader: what was loaded is an image
def reader_memory_inside_segments(self: Any) -> bool:
    if not hasattr(self, 'memory_segments') or not hasattr(self, 'memory'):
        return True  # construction failed before the image existed
    _count('reader_memory_inside_segments')
    spans = sorted((s.segment_start, s.segment_start + s.segment_length) for s in self.memory_segments)
    import bisect

    starts = [a for a, _ in spans]
    top = 1 << self.memory_width
    for key in self.memory:
        if key >= top:
            continue
        i = bisect.bisect_right(starts, key) - 1
        if i < 0 or not (spans[i][0] <= key < spans[i][1]):
            # reading outside a segment with a non-Stop garbage handling legitimately materialises the word
            if getattr(self, 'garbage_handling', 0) != 0:
                continue
            _note('reader_memory_inside_segments', f'memory key {key:#x} outside every segment {spans[:4]}')
            return False
    return True


def reader_segments_disjoint(self: Any) -> bool:
    if not hasattr(self, 'memory_segments'):
        return True
    _count('reader_segments_disjoint')
    spans = sorted((s.segment_start, s.segment_start + s.segment_length) for s in self.memory_segments if s.segment_length)
    for (a0, a1), (b0, b1) in zip(spans, spans[1:]):
        if b0 < a1:
            _note('reader_segments_disjoint', f'{(a0, a1)} overlaps {(b0, b1)}')
            return False
    return True


def reader_words_fit_width(self: Any) -> bool:
    if not hasattr(self, 'memory'):
        return True
    _count('reader_words_fit_width')
    top = 1 << self.memory_width
    for key, value in self.memory.items():
        if not (0 <= value < top):
            _note('reader_words_fit_width', f'word {key:#x} = {value:#x} does not fit {self.memory_width} bits')
            return False
    return True


# ------------------------------------------------------------------ Writer: what was accepted is representable
def writer_segments_disjoint_and_in_pool(self: Any) -> bool:
    if not hasattr(self, 'segments'):
        return True
    _count('writer_segments_disjoint_and_in_pool')
    spans = sorted((s, s + n) for s, n, _, _ in self.segments)
    for (a0, a1), (b0, b1) in zip(spans, spans[1:]):
        if b0 < a1:
            _note('writer_segments', f'{(a0, a1)} overlaps {(b0, b1)}')
            return False
    for s, n, ds, dn in self.segments:
        if dn > n or dn % 2 or s % 2 or n % 2 or n <= 0:
            _note('writer_segments', f'segment {(s, n, ds, dn)} is not representable')
            return False
    return True


# ------------------------------------------------------------------ bit-level devices: partial-byte state
def fixedio_partial_byte_state(self: Any) -> bool:
    _count('fixedio_partial_byte_state')
    ok = 0 <= self.bits_to_write_in_output_byte < 8 and 0 <= self.bits_to_read_in_input_byte <= 8 \
        and 0 <= self.current_output_byte < (1 << max(self.bits_to_write_in_output_byte, 0) if self.bits_to_write_in_output_byte else 1) \
        and isinstance(self._output, bytes)
    if not ok:
        _note('fixedio_partial_byte_state', f'write bits {self.bits_to_write_in_output_byte}, read bits {self.bits_to_read_in_input_byte}, '
                                            f'partial byte {self.current_output_byte:#x}')
    return ok


def keyboard_partial_state(self: Any) -> bool:
    _count('keyboard_partial_state')
    ok = 0 <= self._output_bits_count < 8 and self.tic >= 0 and 0 <= self._current_output_byte < (1 << self._output_bits_count if self._output_bits_count else 1)
    if not ok:
        _note('keyboard_partial_state', f'bits {self._output_bits_count} byte {self._current_output_byte:#x} tic {self.tic}')
    return ok


_applied = False


def apply() -> bool:
    """decorate the classes of the tree under test in place (so that every later instantiation is checked)."""
    global _applied
    if _applied:
        return True
    try:
        import icontract
    except ImportError:
        return False
    from flipjump.fjm import fjm_reader, fjm_writer
    import importlib

    fixed_mod = importlib.import_module('flipjump.interpreter.io_devices.FixedIO')   # (the package re-exports the class
    kb_mod = importlib.import_module('flipjump.interpreter.io_devices.KeyboardIO')   #  under the sub-module's name)

    inv = icontract.invariant
    # the Reader conditions are POSTCONDITIONS OF CONSTRUCTION, not class invariants: a device may legitimately write words
    # outside the declared segments through DeviceMemory later on (tests/unit/test_device_memory.py does), so "every key of
    # .memory lies inside a segment" only describes the freshly loaded image
    reader = fjm_reader.Reader
    init = reader.__init__
    for cond in (reader_memory_inside_segments, reader_segments_disjoint, reader_words_fit_width):
        init = icontract.ensure(cond, error=lambda self, cond=cond: ContractBroken(cond.__name__))(init)
    reader.__init__ = init
    writer = inv(writer_segments_disjoint_and_in_pool, error=lambda self: ContractBroken('writer_segments_disjoint_and_in_pool'))(fjm_writer.Writer)
    fjm_writer.Writer = writer
    fixed = inv(fixedio_partial_byte_state, error=lambda self: ContractBroken('fixedio_partial_byte_state'))(fixed_mod.FixedIO)
    fixed_mod.FixedIO = fixed
    keyboard = inv(keyboard_partial_state, error=lambda self: ContractBroken('keyboard_partial_state'))(kb_mod.KeyboardIO)
    kb_mod.KeyboardIO = keyboard
    # names already imported elsewhere (`from m import C`) bypass the decoration: rebind the ones the code base uses
    import flipjump
    import sys

    for module in list(sys.modules.values()):
        name = getattr(module, '__name__', '') or ''
        if not name.startswith(('flipjump', 'tests')):
            continue
        for attr, new in (('Reader', reader), ('Writer', writer), ('FixedIO', fixed), ('KeyboardIO', keyboard)):
            old = getattr(module, attr, None)
            if isinstance(old, type) and old is not new and old.__name__ == attr and getattr(old, '__module__', '').startswith('flipjump'):
                setattr(module, attr, new)
    del flipjump
    _applied = True
    return True


# ------------------------------------------------------------------ pytest plugin interface
def pytest_configure(config: Any) -> None:
    apply()


def pytest_collection_finish(session: Any) -> None:
    apply()  # test modules imported during collection bound the names again


def pytest_sessionfinish(session: Any, exitstatus: int) -> None:
    out = os.environ.get('FJVERIF_CONTRACTS_OUT')
    if out:
        with open(out, 'w') as f:
            json.dump({'counts': COUNTS, 'broken': BROKEN, 'exitstatus': int(exitstatus)}, f)
