"""
The reference FlipJump machine - the executable form of the C01 statement.

Written from the property statement (per op: fetch the flip word, emit an output bit if it
addresses the two output bits, consume one input bit if the op covers the input bit, flip,
only then fetch the jump word and jump), NOT from any of the three engines.  It is the oracle
of C01/C07/C15/C18/C19, so it is kept small and has no dependency on flipjump.

Addresses are unbounded Python integers; a word is valid iff it lies inside a segment.
"""

from __future__ import annotations

import bisect
from typing import Callable, Dict, Iterable, List, Optional, Sequence, Set, Tuple

LOOPING, EOF, NULL_IP, MEM_ERROR, CUT = 'looping', 'EOF', 'ip<2w', 'runtime-memory-error', 'cut'


class RefFault(Exception):
    """an access outside every segment."""

    def __init__(self, bit_address: int, substep: str):
        super().__init__(hex(bit_address))
        self.bit_address = bit_address
        self.substep = substep


class RefEOF(Exception):
    pass


class Segments:
    def __init__(self, segments: Iterable[Tuple[int, int]]):
        self.list: List[Tuple[int, int]] = sorted((int(s), int(n)) for s, n in segments)
        self._starts = [s for s, _ in self.list]

    def contains(self, word: int) -> bool:
        i = bisect.bisect_right(self._starts, word) - 1
        if i < 0:
            return False
        s, n = self.list[i]
        return s <= word < s + n

    def words(self) -> Iterable[int]:
        for s, n in self.list:
            yield from range(s, s + n)

    def total(self) -> int:
        return sum(n for _, n in self.list)


class RefMachine:
    def __init__(
        self,
        w: int,
        segments: Iterable[Tuple[int, int]],
        memory: Dict[int, int],
        input_bytes: bytes = b'',
        ring_len: Optional[int] = None,
        lazy: Optional[Callable[['RefMachine', int, str], int]] = None,
        track: bool = False,
    ):
        self.w = w
        self.ww = w.bit_length() - 1
        self.mask = (1 << w) - 1
        self.seg = segments if isinstance(segments, Segments) else Segments(segments)
        self.mem: Dict[int, int] = dict(memory)
        self.ip = 0
        self.ops = 0
        self.out_bits: List[int] = []
        self.io_log: List[Tuple[str, int]] = []  # ('w', bit) / ('r', bit) / ('r', -1) for EOF
        self._in = input_bytes
        self._in_pos = 0  # bit cursor
        self.ring_len = ring_len
        self.ring: List[int] = []
        self.lazy = lazy
        self.track = track
        self.features: Set[str] = set()
        self.touched: Set[int] = set()
        self.visits: Dict[int, int] = {}
        self.substep = 'start'
        self.cause: Optional[str] = None
        self.fault_address: Optional[int] = None
        # hooks (C18/C19): called at IO points; may raise to model a failing device
        self.read_hook: Optional[Callable[['RefMachine'], Optional[bool]]] = None
        self.write_hook: Optional[Callable[['RefMachine', bool], None]] = None
        self.io_calls = 0
        self.cur_f = 0

    # ------------------------------------------------------------ memory
    def word(self, word: int, role: str) -> int:
        if not self.seg.contains(word):
            raise RefFault(word * self.w, role)
        if self.track:
            self.touched.add(word)
        try:
            return self.mem[word]
        except KeyError:
            if self.lazy is not None:
                v = self.lazy(self, word, role) & self.mask
            else:
                v = 0
                if self.track:
                    self.features.add('lazy-zero-read')
            self.mem[word] = v
            return v

    def fetch(self, bit_address: int, role: str) -> int:
        wi, off = divmod(bit_address, self.w)
        if off == 0:
            return self.word(wi, role)
        lo = self.word(wi, role)
        hi = self.word(wi + 1, role + '-hi')
        return ((lo >> off) | (hi << (self.w - off))) & self.mask

    def peek(self, word: int) -> int:
        """device-style read: no fault, no lazy callback; absent = 0."""
        return self.mem.get(word, 0)

    def poke(self, word: int, value: int) -> None:
        self.mem[word] = value & self.mask

    # ------------------------------------------------------------ io
    def _read_bit(self) -> bool:
        self.io_calls += 1
        if self.read_hook is not None:
            forced = self.read_hook(self)
            if forced is not None:
                self.io_log.append(('r', int(forced)))
                return bool(forced)
        if self._in_pos >= 8 * len(self._in):
            self.io_log.append(('r', -1))
            raise RefEOF()
        bit = (self._in[self._in_pos >> 3] >> (self._in_pos & 7)) & 1
        self._in_pos += 1
        self.io_log.append(('r', bit))
        return bool(bit)

    def _write_bit(self, bit: bool) -> None:
        self.io_calls += 1
        if self.write_hook is not None:
            self.write_hook(self, bit)
        self.out_bits.append(int(bit))
        self.io_log.append(('w', int(bit)))

    # ------------------------------------------------------------ one op
    def step(self) -> Optional[str]:
        """execute one op. returns a termination cause or None. a RefFault/RefEOF is turned
        into the cause; exceptions raised by hooks propagate with the state left mid-op."""
        w, dw = self.w, 2 * self.w
        ip = self.ip
        in_addr = 3 * w + w.bit_length()
        track = self.track
        if self.ring_len is not None:
            self.ring.append(ip)
            if len(self.ring) > self.ring_len:
                del self.ring[0]
        if track:
            self.visits[ip] = self.visits.get(ip, 0) + 1
            if ip % w:
                self.features.add('unaligned-op')
            elif ip % dw:
                self.features.add('w-aligned-odd-op')
        try:
            self.substep = 'flip-fetch'
            f = self.fetch(ip, 'flip-fetch')
            self.cur_f = f
            self.substep = 'output'
            if f == dw or f == dw + 1:
                if track:
                    self.features.add('output')
                self._write_bit(f == dw + 1)
            self.substep = 'input'
            if ip <= in_addr < ip + dw:
                if track:
                    self.features.add('input-unaligned' if ip % w else 'input')
                bit = self._read_bit()
                self.substep = 'input-store'
                wi, off = divmod(in_addr, w)
                v = self.word(wi, 'input-store')
                self.mem[wi] = (v | (1 << off)) if bit else (v & ~(1 << off))
            self.substep = 'flip'
            wi, off = divmod(f, w)
            v = self.word(wi, 'flip')
            self.mem[wi] = v ^ (1 << off)
            if track:
                if ip <= f < ip + w:
                    self.features.add('self-flip-flipword')
                elif ip + w <= f < ip + dw:
                    self.features.add('self-flip-jumpword')
            self.substep = 'jump-fetch'
            j = self.fetch(ip + w, 'jump-fetch')
        except RefFault as fault:
            self.cause, self.fault_address = MEM_ERROR, fault.bit_address
            if track:
                self.features.add('fault@' + fault.substep)
            return self.cause
        except RefEOF:
            self.cause = EOF
            return self.cause
        self.substep = 'done'
        self.ops += 1
        if j == ip and not (ip <= f < ip + dw):
            self.cause = LOOPING
            return self.cause
        if track and j == ip:
            self.features.add('selfloop-with-selfflip')
        if j < dw:
            self.cause = NULL_IP
            return self.cause
        self.ip = j
        return None

    def run(self, max_ops: int) -> str:
        while self.ops < max_ops:
            cause = self.step()
            if cause is not None:
                return cause
        self.cause = CUT
        return CUT

    def output_bytes(self) -> bytes:
        bits = self.out_bits
        out = bytearray()
        for i in range(0, len(bits) - len(bits) % 8, 8):
            out.append(sum(bits[i + k] << k for k in range(8)))
        return bytes(out)


def image_from_segments(segments: Sequence[Tuple[int, int, Sequence[int]]]) -> Tuple[List[Tuple[int, int]], Dict[int, int]]:
    """(start, length, data) triples -> (segment list, memory dict of the non-zero words)."""
    segs, mem = [], {}
    for start, length, data in segments:
        segs.append((start, length))
        for i, v in enumerate(data):
            if v:
                mem[start + i] = v
    return segs, mem
