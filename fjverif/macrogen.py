"""
Programs over the MACRO language, generated from a binding-explicit AST (DESIGN 3.6): every identifier
occurrence carries the binding it is MEANT to denote (positional parameter, @-local, global label,
rep iterator, constant).  Two renderings of the same AST are produced:

  * the macro program (spellings drawn from a tiny pool, so that caller and callee names collide), optionally
    split over several files at top-level statement boundaries;
  * the hand-inlined program: every call replaced by its body with the arguments substituted (in parentheses),
    each expansion's locals renamed apart, rep(n, i) unrolled for i = 0..n-1.

The inliner works on the AST, not on text, so it cannot reproduce a capture bug of the implementation.
It also predicts the NAME each macro-local label gets in the debug-label table (expansion path), for C16.
"""

from __future__ import annotations

import random
from typing import Any, Dict, List, Optional, Tuple

POOL = ['a', 'b', 'i', 'x', 'd', 'n']
NS_NAMES = ['p', 'q', 'r', 's']


def pick_ns(rng: random.Random) -> List[str]:
    """a namespace path: mostly none or one level, sometimes two, three or four levels deep."""
    r = rng.random()
    depth = 0 if r < 0.5 else 1 if r < 0.76 else 2 if r < 0.9 else 3 if r < 0.97 else 4
    if depth == 1:
        return [rng.choice(NS_NAMES[:2])]
    return NS_NAMES[:depth] if rng.random() < 0.7 else rng.sample(NS_NAMES, depth)


class MacroDef:
    def __init__(self, index: int, base: str, ns: List[str], params: List[str], locals_: List[str]):
        self.index, self.base, self.ns, self.params, self.locals = index, base, ns, params, locals_
        self.globals_used: List[str] = []       # full names of global labels referenced (declared after '<')
        self.extern: Optional[str] = None       # base name of a '>' extern label this macro declares (such a macro is expanded once)
        self.label_param = False                # parameter 0 is DECLARED as a label in the body (argument must be a bare name)
        self.pad_param = False                  # parameter 0 is the alignment of a `pad` in the body (argument must be a number)
        self.body: List[Dict[str, Any]] = []
        self.def_line = 0
        self.file = ''

    @property
    def full(self) -> str:
        return '.'.join(self.ns + [self.base])

    def table_name(self) -> str:
        return self.full if not self.params else f'{self.full}({len(self.params)})'


class Generated:
    def __init__(self) -> None:
        self.w = 64
        self.files: List[Tuple[str, str]] = []        # (short name, text)
        self.inlined: str = ''
        self.expected_labels: Dict[str, str] = {}     # name in the macro program's table -> unique label in the inlined program
        self.features: Dict[str, int] = {}
        self.collisions = 0                           # how many identifier occurrences collide in spelling with another binding
        self.calls_expanded = 0
        self.continuations = 0                        # statements broken over two physical lines
        self.expansion_starts: List[Tuple[str, str, bool]] = []   # (expansion path, label of the inlined program at its start, is a rep iteration)


class Gen:
    def __init__(self, rng: random.Random, w: int):
        self.rng = rng
        self.w = w
        self.macros: List[MacroDef] = []
        self.globals: List[Tuple[str, List[str]]] = []   # (base, ns path) of global labels, in program order
        self.consts: Dict[str, int] = {}
        self.top: List[Dict[str, Any]] = []
        self.out = Generated()
        self.out.w = w
        self.uid = 0

    # ------------------------------------------------------------------ expressions (binding-explicit)
    def expr(self, leaves: List[Any], depth: int = 2) -> Any:
        rng = self.rng
        if depth == 0 or not leaves or rng.random() < 0.35:
            if leaves and rng.random() < 0.75:
                return ('name', rng.choice(leaves))
            return ('lit', rng.choice([0, 1, 2, self.w, 2 * self.w, 5, 64, 1000]))
        op = rng.choice(['+', '+', '-', '*', '^'])
        left = self.expr(leaves, depth - 1)
        right = ('lit', rng.choice([1, 2, 3, self.w])) if op == '*' else self.expr(leaves, depth - 1)
        return ('bin', op, left, right)

    def feature(self, name: str) -> None:
        self.out.features[name] = self.out.features.get(name, 0) + 1

    # ------------------------------------------------------------------ building the program
    def build(self) -> None:
        rng = self.rng
        n_macros = rng.choice([2, 3, 4, 6])
        # macros are a DAG: macro k may only call macros with a larger index (no recursion)
        for k in range(n_macros):
            ns = pick_ns(rng)
            base = rng.choice(['m', 'f', 'g'])
            n_params = rng.choice([0, 1, 1, 2, 3])
            names = rng.sample(POOL, min(len(POOL), n_params + rng.choice([0, 1, 1, 2])))
            params, locals_ = names[:n_params], names[n_params:]
            if any(m.full == '.'.join(ns + [base]) and len(m.params) == n_params for m in self.macros):
                base = base + str(k)
            self.macros.append(MacroDef(k, base, ns, params, locals_))
        # special macros, only ever called from the top level: one declaring an extern label, one declaring its first parameter
        self.special_calls: List[Tuple[MacroDef, Optional[str]]] = []
        self.late_consts: List[Tuple[str, int]] = []
        self.ns_consts: List[Tuple[List[str], str, int]] = []
        if rng.random() < 0.5:
            ns = [] if rng.random() < 0.5 else [rng.choice(NS_NAMES)]
            m = MacroDef(len(self.macros), 'ex', ns, rng.sample(POOL, rng.choice([0, 1])), [])
            m.extern = rng.choice(['e0', 'ext', 'a_e'])
            self.macros.append(m)
            self.globals.append((m.extern, ns))
            self.special_calls.append((m, None))
            self.feature('extern-label-macros')
        if rng.random() < 0.5:
            ns = [] if rng.random() < 0.5 else [rng.choice(NS_NAMES)]
            names = rng.sample(POOL, rng.choice([1, 2]))
            m = MacroDef(len(self.macros), 'lp', ns, names, [])
            m.label_param = True
            self.macros.append(m)
            for k in range(rng.choice([1, 2])):
                fresh = f'fr{k}'
                self.globals.append((fresh, []))
                self.special_calls.append((m, fresh))
            self.feature('label-parameter-macros')
        if rng.random() < 0.4:
            # a macro that pads by its first parameter, expanded several times with different alignments
            m = MacroDef(len(self.macros), 'pd', pick_ns(rng)[:1], rng.sample(POOL, rng.choice([1, 2])), [])
            m.pad_param = True
            self.macros.append(m)
            for n in rng.sample([1, 2, 3, 4, 5, 8], rng.choice([2, 3])):
                self.special_calls.append((m, n))
            self.feature('pad-by-parameter-macros')
        # global labels (some spelled like parameters / iterators), constants
        self.declared_by_macros = list(self.globals)
        for _ in range(rng.choice([1, 2, 3, 4])):
            base = rng.choice(POOL + ['t', 'u'])
            ns = pick_ns(rng)
            if (base, ns) not in self.globals:
                self.globals.append((base, ns))
        for k in range(rng.choice([0, 1, 2])):
            self.consts[f'K{k}'] = rng.choice([0, 1, 3, self.w, 100])
        for m in reversed(self.macros):
            self.fill_body(m)
        self.fill_top()
        # constants spelled like parameters / locals / iterators (never like a global label of this program)
        global_bases = {base for base, _ in self.globals}
        free = [name for name in POOL if name not in global_bases]
        self.late_consts = [(name, rng.choice([0, 3, 7, 1000])) for name in rng.sample(free, min(len(free), rng.choice([0, 0, 1, 2])))]
        used = {name for name, _ in self.late_consts}
        self.ns_consts = []
        for name in [n for n in free if n not in used][:rng.choice([0, 0, 1, 2])]:
            ns = pick_ns(rng) or [NS_NAMES[0]]
            if (name, ns) not in self.globals:
                self.ns_consts.append((ns, name, rng.choice([1, 5, 12])))
        if self.late_consts:
            self.feature('constants-spelled-like-parameters-defined-last')
        if self.ns_consts:
            self.feature('namespace-constants-spelled-like-locals')

    def global_leaves_for(self, m: Optional[MacroDef]) -> List[Any]:
        out = []
        for base, ns in self.globals:
            full = '.'.join(ns + [base])
            if m is not None and m.extern is not None and base == m.extern:
                continue
            if m is not None and base in m.params + m.locals and (not ns or ns == m.ns):
                continue  # a global spelled like one of the macro's own names is shadowed inside it when it is a bare name, or
                #          lives in the macro's OWN namespace (the one namespace alias parameters get). in any other namespace -
                #          an enclosing one included - it is a different name, and the macro can refer to it
            if m is not None and base in m.params + m.locals:
                self.out.features['globals-of-other-namespaces-spelled-like-own-names'] = \
                    self.out.features.get('globals-of-other-namespaces-spelled-like-own-names', 0) + 1
            out.append(('global', full))
        return out

    def fill_body(self, m: MacroDef) -> None:
        rng = self.rng
        leaves: List[Any] = [('param', i) for i in range(len(m.params))] + [('local', name) for name in m.locals]
        leaves += [('const', k) for k in self.consts]
        leaves += self.global_leaves_for(m)
        declared = set()
        callees = [c for c in self.macros if c.index > m.index and c.extern is None and not c.label_param and not c.pad_param]
        if m.extern is not None:
            m.body.append({'kind': 'externlabel', 'name': m.extern})
            m.body.append(self.op_stmt(leaves))
        if m.label_param:
            m.body.append({'kind': 'paramlabel'})
            m.body.append(self.op_stmt(leaves))
        if m.pad_param:
            m.body.append(self.op_stmt(leaves))
            m.body.append({'kind': 'pad', 'n': None, 'exprs': [('name', ('param', 0))]})
            m.body.append(self.op_stmt(leaves))
        n_stmts = rng.choice([1, 2, 3, 4, 5])
        for _ in range(n_stmts):
            undeclared = [name for name in m.locals if name not in declared]
            r = rng.random()
            if undeclared and r < 0.3:
                name = undeclared[0]
                declared.add(name)
                m.body.append({'kind': 'label', 'name': name})
                m.body.append(self.op_stmt(leaves))
            elif r < 0.08:
                m.body.append(self.wflip_stmt(leaves))
            elif r < 0.12:
                m.body.append({'kind': 'pad', 'n': rng.choice([1, 2, 2, 4]), 'exprs': []})
                m.body.append(self.op_stmt(leaves))
            elif callees and r < 0.6:
                m.body.append(self.call_stmt(rng.choice(callees), leaves, m))
            elif callees and r < 0.78:
                m.body.append(self.rep_stmt(rng.choice(callees), leaves, m))
            else:
                m.body.append(self.op_stmt(leaves))
        for name in m.locals:
            if name not in declared:
                m.body.append({'kind': 'label', 'name': name})
                m.body.append(self.op_stmt(leaves))
        used = set()
        for st in m.body:
            for e in st.get('exprs', []):
                used |= {leaf[1] for leaf in self.leaves_of(e) if leaf[0] == 'global'}
        m.globals_used = sorted(used)

    def leaves_of(self, e: Any) -> List[Any]:
        if e is None or e[0] in ('lit', 'dollar'):
            return []
        if e[0] == 'name':
            return [e[1]]
        return self.leaves_of(e[2]) + self.leaves_of(e[3])

    def op_stmt(self, leaves: List[Any]) -> Dict[str, Any]:
        rng = self.rng
        form = rng.choice(['f;j', 'f;j', ';j', 'f;', ';'])
        flip = self.expr(leaves) if 'f' in form else None
        jump = self.expr(leaves + [('dollar',)]) if 'j' in form else None
        return {'kind': 'op', 'form': form, 'exprs': [e for e in (flip, jump) if e is not None], 'flip': flip, 'jump': jump}

    def wflip_stmt(self, leaves: List[Any]) -> Dict[str, Any]:
        """wflip <word-aligned address expr>, <small value>[, <return expr>] - the chain ops land in the wflip area of both programs"""
        rng = self.rng
        self.feature('wflips-in-macros')
        addr = self.expr(leaves, 1)
        ret = self.expr(leaves + [('dollar',)], 1) if rng.random() < 0.5 else None
        return {'kind': 'wflip', 'addr': addr, 'value': rng.choice([0, 1, 3, 5, 6, 0b1010]), 'ret': ret,
                'exprs': [e for e in (addr, ret) if e is not None]}

    def call_stmt(self, callee: MacroDef, leaves: List[Any], caller: Optional[MacroDef]) -> Dict[str, Any]:
        args = [self.expr(leaves) for _ in callee.params]
        self.feature('calls')
        return {'kind': 'call', 'callee': callee.index, 'args': args, 'exprs': args}

    def rep_stmt(self, callee: MacroDef, leaves: List[Any], caller: Optional[MacroDef]) -> Dict[str, Any]:
        rng = self.rng
        iterator = rng.choice(POOL)
        # inside the rep's arguments the iterator shadows whatever else is spelled like it: such names cannot be referenced there
        names = caller.params + caller.locals if caller else []
        usable = []
        for leaf in leaves:
            if leaf[0] == 'param' and caller and caller.params[leaf[1]] == iterator:
                continue
            if leaf[0] == 'local' and leaf[1] == iterator:
                continue
            if leaf[0] == 'global' and leaf[1] == iterator:
                continue
            usable.append(leaf)
        del names
        count_leaves = [leaf for leaf in usable if leaf[0] == 'const']
        count = rng.choice([0, 1, 2, 3, 3, 5])
        count_expr: Any = ('lit', count)
        if count_leaves and rng.random() < 0.3:
            k = rng.choice(count_leaves)
            count = self.consts[k[1]] % 4
            count_expr = ('bin', '-', ('name', k), ('lit', self.consts[k[1]] - count)) if self.consts[k[1]] >= count else ('lit', count)
        args = [self.expr(usable + [('iter', iterator), ('iter', iterator)]) for _ in callee.params]
        self.feature('reps')
        if count == 0:
            self.feature('rep-zero')
        return {'kind': 'rep', 'callee': callee.index, 'iter': iterator, 'count': count, 'count_expr': count_expr, 'args': args,
                'exprs': args + [count_expr]}

    def fill_top(self) -> None:
        rng = self.rng
        leaves: List[Any] = [('global', '.'.join(ns + [base])) for base, ns in self.globals] + [('const', k) for k in self.consts]
        items: List[Dict[str, Any]] = [{'kind': 'op', 'form': ';j', 'exprs': [], 'flip': None, 'jump': ('lit', 4 * self.w)}]
        pending = [g for g in self.globals if g not in self.declared_by_macros]
        rng.shuffle(pending)
        specials = list(self.special_calls)
        for _ in range(rng.choice([3, 5, 8])):
            r = rng.random()
            if pending and r < 0.35:
                base, ns = pending.pop()
                items.append({'kind': 'glabel', 'base': base, 'ns': ns})
                items.append(self.op_stmt(leaves))
            elif specials and r < 0.5:
                items.append(self.special_call(specials.pop(), leaves))
            elif r < 0.7:
                items.append(self.call_stmt(rng.choice(self.ordinary_macros()), leaves, None))
            elif r < 0.82:
                items.append(self.rep_stmt(rng.choice(self.ordinary_macros()), leaves, None))
            else:
                items.append(self.op_stmt(leaves))
        for base, ns in pending:
            items.append({'kind': 'glabel', 'base': base, 'ns': ns})
            items.append(self.op_stmt(leaves))
        for special in specials:
            items.append(self.special_call(special, leaves))
        self.top = items

    def ordinary_macros(self) -> List[MacroDef]:
        return [m for m in self.macros if m.extern is None and not m.label_param and not m.pad_param]

    def special_call(self, special: Tuple[MacroDef, Optional[str]], leaves: List[Any]) -> Dict[str, Any]:
        callee, fresh = special
        args = [self.expr(leaves) for _ in callee.params]
        if callee.pad_param:
            args[0] = ('lit', fresh)                # a number: the callee pads by it
        elif fresh is not None:
            args[0] = ('name', ('global', fresh))   # a bare name: the callee declares it as a label
        self.feature('calls')
        return {'kind': 'call', 'callee': callee.index, 'args': args, 'exprs': args}

    # ------------------------------------------------------------------ rendering the macro program
    def spell(self, leaf: Any, m: Optional[MacroDef], cur_ns: List[str]) -> str:
        kind = leaf[0]
        if kind == 'param':
            assert m is not None
            return m.params[leaf[1]]
        if kind in ('local', 'iter', 'const'):
            return leaf[1]
        if kind == 'global':
            full = leaf[1]
            parts = full.split('.')
            # relative spelling: k leading dots climb k-1 namespaces from the current one
            target = parts[:-1]
            if cur_ns[:len(target)] == target and (target or self.rng.random() < 0.3) and cur_ns and self.rng.random() < 0.6:
                self.out.features['relative-names'] = self.out.features.get('relative-names', 0) + 1
                if len(cur_ns) - len(target) >= 2:
                    self.out.features['relative-names-3+dots'] = self.out.features.get('relative-names-3+dots', 0) + 1
                return '.' * (len(cur_ns) - len(target) + 1) + parts[-1]
            return full
        raise ValueError(leaf)

    def render_expr(self, e: Any, m: Optional[MacroDef], cur_ns: List[str]) -> str:
        if e[0] == 'lit':
            return str(e[1])
        if e[0] == 'dollar':
            return '$'
        if e[0] == 'name':
            if e[1] == ('dollar',):
                return '$'
            return self.spell(e[1], m, cur_ns)
        return f'({self.render_expr(e[2], m, cur_ns)} {e[1]} {self.render_expr(e[3], m, cur_ns)})'

    def callee_spelling(self, callee: MacroDef, cur_ns: List[str]) -> str:
        if cur_ns and cur_ns[:len(callee.ns)] == callee.ns and (callee.ns or self.rng.random() < 0.3) and self.rng.random() < 0.6:
            self.out.features['relative-names'] = self.out.features.get('relative-names', 0) + 1
            if len(cur_ns) - len(callee.ns) >= 2:
                self.out.features['relative-names-3+dots'] = self.out.features.get('relative-names-3+dots', 0) + 1
            return '.' * (len(cur_ns) - len(callee.ns) + 1) + callee.base
        return callee.full

    def render_stmt(self, st: Dict[str, Any], m: Optional[MacroDef], cur_ns: List[str], indent: str) -> str:
        if st['kind'] == 'op':
            mask = (1 << self.w) - 1  # keep every word inside [0, 2^w): out-of-range words are (rightly) rejected
            f = f'(({self.render_expr(st["flip"], m, cur_ns)}) & {mask})' if st['flip'] is not None else ''
            j = f'(({self.render_expr(st["jump"], m, cur_ns)}) & {mask})' if st['jump'] is not None else ''
            return f'{indent}{f};{j}'
        if st['kind'] == 'label':
            return f'{indent}{st["name"]}:'
        if st['kind'] == 'externlabel':
            return f'{indent}{st["name"]}:'
        if st['kind'] == 'paramlabel':
            assert m is not None
            return f'{indent}{m.params[0]}:'
        if st['kind'] == 'pad':
            assert st['n'] is not None or m is not None
            return f'{indent}pad {st["n"]}' if st['n'] is not None else f'{indent}pad {m.params[0]}'
        if st['kind'] == 'wflip':
            mask = ((1 << self.w) - 1) & ~(self.w - 1)
            text = f'{indent}wflip (({self.render_expr(st["addr"], m, cur_ns)}) & {mask}), {st["value"]}'
            if st['ret'] is not None:
                text += f', (({self.render_expr(st["ret"], m, cur_ns)}) & {(1 << self.w) - 1})'
            return text
        if st['kind'] == 'glabel':
            return f'{indent}{st["base"]}:'
        callee = self.macros[st['callee']]
        args = ', '.join(f'({self.render_expr(a, m, cur_ns)})' for a in st['args'])
        name = self.callee_spelling(callee, cur_ns)
        if st['kind'] == 'call':
            return f'{indent}{name} {args}'.rstrip()
        return f'{indent}rep({self.render_expr(st["count_expr"], m, cur_ns)}, {st["iter"]}) {name} {args}'.rstrip()

    @staticmethod
    def physical(lines: List[str]) -> int:
        """number of physical source lines rendered so far (an entry may hold a backslash-newline continuation)."""
        return sum(entry.count('\n') + 1 for entry in lines)

    def maybe_continue(self, text: str, st: Dict[str, Any]) -> str:
        """now and then break an op / wflip statement over two physical lines with a backslash-newline: every later statement
        of the file is one line further down, and the expansion paths name physical lines."""
        if st['kind'] not in ('op', 'wflip') or self.rng.random() >= 0.1:
            return text
        mark = ';' if st['kind'] == 'op' else ', '
        head, sep, tail = text.partition(mark)
        if not sep:
            return text
        self.out.continuations = getattr(self.out, 'continuations', 0) + 1
        return f'{head}{sep}\\\n    {tail}'

    def render_macro(self, m: MacroDef, lines: List[str], short: str) -> None:
        indent = '    ' * len(m.ns)
        for depth, part in enumerate(m.ns):
            lines.append('    ' * depth + f'ns {part} {{')
        header = f'{indent}def {m.base}'
        if m.params:
            header += ' ' + ', '.join(m.params)
        if m.locals:
            header += ' @ ' + ', '.join(m.locals)
        if m.globals_used:
            header += ' < ' + ', '.join(self.spell(('global', g), m, m.ns) for g in m.globals_used)
        if m.extern is not None:
            header += ' > ' + m.extern
        lines.append(header + ' {')
        m.def_line, m.file = self.physical(lines), short
        for st in m.body:
            lines.append(self.maybe_continue(self.render_stmt(st, m, m.ns, indent + '    '), st))
            st['line'], st['file'] = self.physical(lines), short
        lines.append(indent + '}')
        for depth in reversed(range(len(m.ns))):
            lines.append('    ' * depth + '}')

    def render(self, n_files: int) -> None:
        """units = constant definitions, macro definitions (anywhere: before or after use), top-level statements."""
        rng = self.rng
        units: List[Tuple[str, Any]] = [('const', k) for k in self.consts]
        macro_units = [('macro', m) for m in self.macros]
        top_units: List[Tuple[str, Any]] = []
        i = 0
        while i < len(self.top):
            st = self.top[i]
            if st['kind'] == 'glabel':
                top_units.append(('glabel+op', (st, self.top[i + 1])))
                i += 2
            else:
                top_units.append(('stmt', st))
                i += 1
        first = top_units[0]
        rest = top_units[1:]
        # interleave macro definitions among the top-level statements
        positions = sorted(rng.randrange(len(rest) + 1) for _ in macro_units)
        merged: List[Tuple[str, Any]] = [first]
        mi = 0
        for idx in range(len(rest) + 1):
            while mi < len(macro_units) and positions[mi] == idx:
                merged.append(macro_units[mi])
                mi += 1
            if idx < len(rest):
                merged.append(rest[idx])
        units = units + merged
        # split into files at unit boundaries (constants stay in the first file: they are parse-time, textual)
        cuts = sorted(rng.sample(range(len(self.consts) + 1, len(units)), min(n_files - 1, max(0, len(units) - len(self.consts) - 1)))) \
            if n_files > 1 and len(units) - len(self.consts) > 1 else []
        chunks: List[List[Tuple[str, Any]]] = []
        prev = 0
        for c in cuts + [len(units)]:
            chunks.append(units[prev:c])
            prev = c
        for fi, chunk in enumerate(chunks):
            short = f'f{fi + 1}'
            lines: List[str] = []
            if fi == 0:
                # constants that live in a namespace, defined before everything else: only their qualified / dotted spelling means
                # them - a bare parameter, local label or iterator of the same spelling inside that namespace is still itself
                for ns, name, value in self.ns_consts:
                    for depth, part in enumerate(ns):
                        lines.append('    ' * depth + f'ns {part} {{')
                    lines.append('    ' * len(ns) + f'{name} = {value}')
                    for depth in reversed(range(len(ns))):
                        lines.append('    ' * depth + '}')
            for kind, payload in chunk:
                if kind == 'const':
                    lines.append(f'{payload} = {self.consts[payload]}')
                elif kind == 'macro':
                    self.render_macro(payload, lines, short)
                elif kind == 'stmt':
                    lines.append(self.maybe_continue(self.render_stmt(payload, None, [], ''), payload))
                    payload['line'], payload['file'] = self.physical(lines), short
                else:
                    lab, op = payload
                    for depth, part in enumerate(lab['ns']):
                        lines.append('    ' * depth + f'ns {part} {{')
                    ind = '    ' * len(lab['ns'])
                    lines.append(f'{ind}{lab["base"]}:')
                    lines.append(self.maybe_continue(self.render_stmt(op, None, lab['ns'], ind), op))
                    op['line'], op['file'] = self.physical(lines), short
                    for depth in reversed(range(len(lab['ns']))):
                        lines.append('    ' * depth + '}')
            if fi == len(chunks) - 1 and self.late_consts:
                # constants defined AFTER everything that could be mistaken for a use of them: a parameter, a local label or an
                # iterator of the same spelling keeps meaning what its macro says
                for name, value in self.late_consts:
                    lines.append(f'{name} = {value}')
            if False:
                for ns, name, value in self.ns_consts:
                    for depth, part in enumerate(ns):
                        lines.append('    ' * depth + f'ns {part} {{')
                    lines.append('    ' * len(ns) + f'{name} = {value}')
                    for depth in reversed(range(len(ns))):
                        lines.append('    ' * depth + '}')
            text = '\n'.join(lines) + '\n'
            if rng.random() < 0.12:  # a file saved with CRLF line endings is the same program, line for line
                text = text.replace('\n', '\r\n')
                self.out.features['crlf-files'] = self.out.features.get('crlf-files', 0) + 1
            self.out.files.append((short, text))

    # ------------------------------------------------------------------ the hand inliner (on the AST)
    def inline_expr(self, e: Any, env: Dict[Any, str]) -> str:
        if e[0] == 'lit':
            return str(e[1])
        if e[0] == 'dollar':
            return '$'
        if e[0] == 'name':
            leaf = e[1]
            if leaf == ('dollar',):
                return '$'
            if leaf[0] == 'const':
                return str(self.consts[leaf[1]])
            if leaf[0] == 'global':
                return 'G_' + leaf[1].replace('.', '_')
            return env[leaf]
        return f'({self.inline_expr(e[2], env)} {e[1]} {self.inline_expr(e[3], env)})'

    def inline_stmts(self, stmts: List[Dict[str, Any]], m: Optional[MacroDef], env: Dict[Any, str], prefix: str, out: List[str]) -> None:
        for st in stmts:
            kind = st['kind']
            if kind == 'op':
                mask = (1 << self.w) - 1
                f = f'(({self.inline_expr(st["flip"], env)}) & {mask})' if st['flip'] is not None else ''
                j = f'(({self.inline_expr(st["jump"], env)}) & {mask})' if st['jump'] is not None else ''
                out.append(f'{f};{j}')
            elif kind == 'externlabel':
                assert m is not None
                full = '.'.join(m.ns + [st['name']])
                unique = 'G_' + full.replace('.', '_')
                out.append(f'{unique}:')
                self.out.expected_labels[full] = unique
            elif kind == 'paramlabel':
                unique = env[('param', 0)].strip('()')   # the argument is a bare global name
                out.append(f'{unique}:')
                self.out.expected_labels[unique[2:]] = unique
            elif kind == 'pad':
                out.append(f'pad {st["n"]}' if st['n'] is not None else f'pad {env[("param", 0)]}')
            elif kind == 'wflip':
                mask = ((1 << self.w) - 1) & ~(self.w - 1)
                text = f'wflip (({self.inline_expr(st["addr"], env)}) & {mask}), {st["value"]}'
                if st['ret'] is not None:
                    text += f', (({self.inline_expr(st["ret"], env)}) & {(1 << self.w) - 1})'
                out.append(text)
            elif kind == 'label':
                unique = env[('local', st['name'])]
                out.append(f'{unique}:')
                self.out.expected_labels[f'{prefix}---{st["name"]}'] = unique
            elif kind == 'glabel':
                full = '.'.join(st['ns'] + [st['base']])
                unique = 'G_' + full.replace('.', '_')
                out.append(f'{unique}:')
                self.out.expected_labels[full] = unique
            else:
                callee = self.macros[st['callee']]
                here = f'{st["file"]}:l{st["line"]}'
                iterations: List[Optional[int]] = [None] if kind == 'call' else list(range(st['count']))
                for it in iterations:
                    call_env = dict(env)
                    if it is not None:
                        call_env[('iter', st['iter'])] = str(it)
                    arg_texts = [f'({self.inline_expr(a, call_env)})' for a in st['args']]
                    if it is None:
                        step = f'{here}:{callee.table_name()}'
                    else:
                        step = f'{here}:rep{it}:{callee.table_name()}'
                    new_prefix = f'{prefix}---{step}' if prefix else step
                    new_env: Dict[Any, str] = {}
                    for idx, _ in enumerate(callee.params):
                        new_env[('param', idx)] = arg_texts[idx]
                    for name in callee.locals:
                        self.uid += 1
                        new_env[('local', name)] = f'L{self.uid}_{name}'
                    self.out.calls_expanded += 1
                    # (a label of the inlined program's own marks where this expansion starts: the macro program's table must
                    # name that address somehow - a source label, or the expansion's synthetic start label)
                    self.uid += 1
                    out.append(f'S{self.uid}_start:')
                    self.out.expansion_starts.append((new_prefix, f'S{self.uid}_start', it is not None))
                    self.inline_stmts(callee.body, callee, new_env, new_prefix, out)

    def inline(self) -> None:
        out: List[str] = []
        self.inline_stmts(self.top, None, {}, '', out)
        self.out.inlined = '\n'.join(out) + '\n'

    def count_collisions(self) -> None:
        """spelling collisions between different bindings that are simultaneously in play (what hygiene is about)."""
        plain_globals = {base for base, ns in self.globals if not ns}
        total = 0
        for m in self.macros:
            own = set(m.params + m.locals)
            for st in m.body:
                if st['kind'] in ('call', 'rep'):
                    callee = self.macros[st['callee']]
                    callee_names = set(callee.params + callee.locals)
                    for a in st['args']:
                        for leaf in self.leaves_of(a):
                            name = m.params[leaf[1]] if leaf[0] == 'param' else leaf[1] if leaf[0] in ('local', 'iter') else \
                                leaf[1].split('.')[-1] if leaf[0] == 'global' else None
                            if name and (name in callee_names):
                                total += 1
                    if st['kind'] == 'rep' and (st['iter'] in own or st['iter'] in plain_globals or st['iter'] in callee_names):
                        total += 1
        for st in self.top:
            if st['kind'] in ('call', 'rep'):
                callee = self.macros[st['callee']]
                callee_names = set(callee.params + callee.locals)
                for a in st['args']:
                    for leaf in self.leaves_of(a):
                        if leaf[0] == 'global' and leaf[1].split('.')[-1] in callee_names:
                            total += 1
                if st['kind'] == 'rep' and (st['iter'] in plain_globals or st['iter'] in callee_names):
                    total += 1
        self.out.collisions = total


def generate(rng: random.Random, w: Optional[int] = None, n_files: Optional[int] = None) -> Generated:
    w = w or rng.choice([16, 32, 64])
    gen = Gen(rng, w)
    gen.build()
    gen.render(n_files or rng.choice([1, 1, 2, 3]))
    gen.inline()
    gen.count_collisions()
    return gen.out
