"""C14 - every assembly failure is a specific library diagnostic (DESIGN 4, C14)."""

from __future__ import annotations

import contextlib
import io
import random
import re
import resource
import signal
from pathlib import Path
from typing import Any, Dict, List, Optional, Tuple

from fjverif import engines, primgen
from fjverif.common import REPO_ROOT, case_hash, rng_for

PROPERTY = 'C14'
LEVEL = 'exploration'
NATIVE_VARIANT = None
CATCH_ALL_TEXT = 'Unknown exception during assembling'


def plan(tier: str, seed: int) -> List[Dict[str, Any]]:
    quick = tier == 'quick'
    out = []
    for i in range(6 if quick else 24):
        out.append({'kind': 'grammar', 'seed': seed, 'shard': i, 'rounds': 12 if quick else 300, 'timeout_s': 1500 if quick else 7200})
    for i in range(8 if quick else 32):
        out.append({'kind': 'mutate', 'seed': seed, 'shard': i, 'cases': 500 if quick else 12000, 'timeout_s': 1500 if quick else 7200})
    for spec in out[2::5]:   # (python -O strips assert statements and sets __debug__ to False)
        spec['env'] = {'PYTHONOPTIMIZE': '1'}
    out.append({'kind': 'stl', 'seed': seed, 'shard': 0, 'cases': 30 if quick else 400, 'timeout_s': 3000})
    out.append({'kind': 'blowup', 'seed': seed, 'shard': 0, 'timeout_s': 1500})
    return out


# ------------------------------------------------------------------------------ grammar-derived invalid programs
def grammar_cases(rng: random.Random) -> List[Dict[str, Any]]:
    """one (or a few) programs per error class; 'mention' = substrings of which the message must contain one."""
    w = rng.choice([8, 16, 32, 64])
    dw = 2 * w
    n = rng.randrange(2, 50)
    name = rng.choice(['foo', 'bar_1', 'm', 'Zq'])
    lbl = rng.choice(['here', 'x1', 'loop', 'q'])
    cases: List[Dict[str, Any]] = []

    def add(cls: str, text: Any, mention: Optional[List[str]] = None, **kw: Any) -> None:
        cases.append({'class': cls, 'text': text, 'mention': mention or [], 'w': kw.pop('w', w), **kw})

    filler = '\n'.join(f';$' for _ in range(rng.randrange(0, 4)))
    pre = f';{2 * dw}\n{filler}\n'
    line_of = lambda text: str(text.count('\n') + 1)  # noqa: E731
    # lexing
    for bad in ('`', '!', '\\', '\x01', 'é', '€', "'ab'", "'\\q'", '"abc', '0x', '0b2', '1e5e', '@@'):
        prog = pre + f';{bad}\n'
        add('lexing', prog, [line_of(pre)] if bad not in ('0x', '0b2', '1e5e', '@@') else [])
    # characters that are white space to Python's str methods / regexes but not to the language (space and tab only), and
    # other invisible ones: at the start, in the middle and at the end of a statement
    for bad in rng.sample(['\x0b', '\x0c', '\x1c', '\x1d', '\x1e', '\x1f', '\x85', '\xa0', '\u2028', '\u2029', '\u3000', '\u200b',
                           '\ufeff', '\x7f', '\x00', '\x1b'], 5):
        where = rng.randrange(3)
        prog = pre + (f'{bad};1\n' if where == 0 else f';1{bad}+2\n' if where == 1 else f';1 {bad}\n')
        add('lexing', prog, [line_of(pre)])
    # literals in every notation the lexer's patterns accept (upper-case prefixes included): valid - and never the catch-all
    for good in ("'\\X41'", '"\\X41\\x42"', "'\\x7f'", '0X1f', '0B101', '"a\\tb\\0"', "'\\\\'", '"\\X00\\XfF"', "'\\''", '"\\""'):
        add('valid-literals', pre + f';{good}\n', [])
    # a label in front of every kind of statement, on one line: at the top level, in a namespace and in a macro body
    for k, stmt in enumerate((f'{lbl}k = 5', ';', f'wflip {lbl}, 1', f'pad 2', f'rep(2, i) {name}f i', f'{name}f 3', '5;', f';{lbl}')):
        inner = f'{lbl}: {stmt}\n'
        macro = f'def {name}f a {{\n  ;a\n}}\n'
        if stmt.startswith(('pad',)):
            add('valid-statement-forms', macro + pre + inner, [])
            continue
        add('valid-statement-forms', macro + pre + inner, [])
        add('valid-statement-forms', macro + pre + f'ns n{k} {{\n  {inner}}}\n', [])
        add('valid-statement-forms', macro + f'def {name}g @ {lbl} {{\n  {inner}}}\n' + pre + f'{name}g\n', [])
    # syntax
    for bad in (';;', 'def m {', '}', 'a b c :', 'wflip 1', 'wflip 1,', 'rep(3) m', 'rep(3, i)', 'ns {\n}', 'def a.b {\n}',
                '1 < 2 < 3;', 'pad', '(1;', '1);', ';1 +', '; * 2', 'x = ', '= 5', 'def m a a {\n;\n}', f'{lbl}: {lbl}2: ;',
                'segment', 'reserve', ': ;', 'def {\n}', 'ns x {\n;\n', '1 ? 2;', '? 1 : 2;', 'wflip 1, 2, 3, 4', '$ = 5',
                'def m @ {\n;\n}', 'def m < {\n;\n}', '5:'):
        add('syntax', pre + bad + '\n', [])  # the message names the file and (when there is a token) its line
    # unknown macro / arity
    add('unknown-macro', pre + f'{name} 1, {n}\n', [name])
    add('unknown-macro', pre + f'ns a {{\n  def {name} {{\n ;\n }}\n}}\n{name}\n', [name])
    add('arity', f'def {name} a {{\n;a\n}}\n' + pre + f'{name} 1, 2\n', [name])
    add('arity', f'def {name} a, b {{\n;a+b\n}}\n' + pre + f'{name} 1\n', [name])
    add('unknown-macro-in-rep', pre + f'rep({n % 5 + 1}, i) {name} i\n', [name])
    depth = rng.randrange(1, 6)
    chain = ''.join(f'def c{i} {{\n  c{i + 1}\n}}\n' for i in range(depth)) + f'def c{depth} {{\n  {name}\n}}\n'
    add('unknown-macro-at-depth', chain + pre + 'c0\n', [name])
    # duplicates
    add('duplicate-macro', f'def {name} {{\n;\n}}\ndef {name} {{\n;\n}}\n' + pre, [name])
    add('duplicate-label', pre + f'{lbl}:\n;\n{lbl}:\n;\n', [lbl])
    add('duplicate-label-via-macro', f'def {name} > {lbl} {{\n{lbl}:\n;\n}}\n' + pre + f'{name}\n{name}\n', [lbl])
    add('redeclared-constant', f'{lbl} = 5\n{lbl} = 6\n' + pre, [lbl])
    add('label-is-constant', f'{lbl} = 5\n' + pre + f'{lbl}:\n;\n', [lbl])
    add('param-is-constant', f'{lbl} = 5\ndef {name} {lbl} {{\n;{lbl}\n}}\n' + pre, [lbl])
    # unknown label
    add('unknown-label', pre + f';nolabel_{lbl}\n', [f'nolabel_{lbl}'])
    add('unknown-label', pre + f'wflip nolabel_{lbl}, 1\n', [f'nolabel_{lbl}'])
    add('unknown-label-in-macro', f'def {name} < g_{lbl} {{\n;g_{lbl}\n}}\n' + pre + f'{name}\n', [f'g_{lbl}'])
    add('dollar-in-argument', f'def {name} a {{\n;a\n}}\n' + pre + f'{name} $\n', ['$'])
    add('bad-label-swap', f'def {name} p {{\np:\n;\n}}\n' + pre + f'{name} {n}\n', ['p', str(n)])
    # alignment / layout
    add('segment-unaligned', pre + f'segment {dw * (n % 5 + 3) + rng.randrange(1, w)}\n;\n', ['segment'])
    add('reserve-unaligned', pre + f'reserve {rng.randrange(1, w)}\n', ['reserve'])
    add('segment-odd-word', pre + f'segment {dw * (n % 5 + 3) + w}\n;\n', ['segment'])
    add('reserve-odd-words', pre + f'reserve {w}\n;\n', ['segment', 'reserve'])
    add('pad-nonpositive', pre + f'pad {rng.choice(["0", "0-1", "1-2", "0*5"])}\n', ['pad'])
    add('pad-unresolved', pre + f'pad later_{lbl}\n;\nlater_{lbl}:\n', ['pad', f'later_{lbl}'])
    add('pad-unaligned', pre + f'reserve {w}\npad 2\n', ['pad'])
    add('segment-unresolved', pre + f'segment later_{lbl}\n;\nlater_{lbl}:\n', ['segment', f'later_{lbl}'])
    add('reserve-unresolved', pre + f'reserve later_{lbl}\n;\nlater_{lbl}:\n', ['reserve', f'later_{lbl}'])
    add('rep-unresolved', f'def {name} a {{\n;a\n}}\n' + pre + f'rep(later_{lbl}, i) {name} i\nlater_{lbl}:\n', ['rep', f'later_{lbl}'])
    add('segment-overlap', pre + f';\n;\nsegment {dw}\n;\n;\n', ['segment', 'verlap'])
    add('segment-overlap', f'segment {4 * dw}\n;\n;\nsegment 0\n;\n;\n;\n;\n;\n;\n', ['segment', 'verlap'])
    add('segment-in-macro', f'def {name} {{\nsegment {dw * 4}\n}}\n' + pre, ['segment', name])
    add('reserve-in-macro', f'def {name} {{\nreserve {dw}\n}}\n' + pre, ['reserve', name])
    add('no-first-op', f'def {name} {{\n;\n}}\n// nothing at address 0\n', ['address 0', 'first op'])
    add('no-first-op', f'segment {dw * 8}\n;\n;\n', ['address 0', 'first op'])
    add('no-first-op', '\n\n// only comments\n', ['address 0', 'first op'])
    add('beyond-memory', pre + f'segment {(1 << w)}\n;\n', ['segment', 'space', 'memory', hex(1 << w)], w=w)
    add('beyond-memory', pre + f'segment {(1 << w) - dw}\n;\n;\n', ['segment', 'space', 'memory'], w=w)
    if w <= 16:
        add('beyond-memory', '\n'.join([';$'] * ((1 << w) // dw + 2)) + '\n', ['space', 'memory', 'segment'], w=w)
        # astronomically many repetitions of something that emits code: at a small width the memory is full after at most
        # 2^w/2w ops, so the assembler is expected to stop there (bounded work: the hang verdict applies)
        body = rng.choice(['5;8', ';', 'wflip 64, 3', '5;8\n  ;', 'pad 2\n  1;2'])
        count = rng.choice(['1<<40', '1<<200', str(10 ** 30), '(1<<64)-1'])
        add('beyond-memory', f'def tb_{lbl} {{\n  {body}\n}}\n' + pre + f'rep({count}, i) tb_{lbl}\n', ['space', 'memory'], w=w, bounded=True)
        add('beyond-memory', f'def tc_{lbl} k {{\n  {body}\n  ;k-k\n}}\n' + pre + f'rep({count}, i) tc_{lbl} i\n', ['space', 'memory'], w=w, bounded=True)
        add('beyond-memory', pre + f'pad {count}\n', ['space', 'memory', 'pad'], w=w, bounded=True)
    # out-of-range values
    for text, m in ((';0-1', ['-1', '0x1']), (f';1<<{w}', [hex(1 << w), str(1 << w)]), (f'1<<{w};', [hex(1 << w), str(1 << w)]),
                    ('0-5;', ['-5', '0x5']), (f'wflip 0, 1<<{w}', ['space', hex(1 << w)]), (f'wflip 0-{w}, 1', [f'-{w}', hex(w)]),
                    (f'wflip 0, 1, 0-{dw}', [f'-{dw}', hex(dw)]), ('wflip 0, 0-1', ['space', '-1']),
                    (f'wflip (1<<{w})-1, 3', [hex((1 << w)), hex((1 << w) - 1)])):
        add('out-of-range', pre + text + '\n', m + [line_of(pre)], version=rng.randrange(4))
    # arithmetic errors at the three evaluation stages
    for op_text, mention in (('1/0', ['/']), ('5%0', ['%']), ('1<<(0-1)', ['<<']), ('1>>(0-2)', ['>>']), ('2**(0-1)', ['**'])):
        add('expr-parse-stage', pre + f';{op_text}\n', mention + [line_of(pre)])
        add('expr-parse-stage', pre + f'k_{lbl} = {op_text}\n;k_{lbl}\n', mention + [line_of(pre)])
        add('expr-parse-stage', pre + f'segment {op_text}\n', mention + [line_of(pre)])
        zero = op_text.replace('0)', 'zz)').replace('/0', '/zz').replace('%0', '%zz').replace('(0-1)', '(zz-1)').replace('(0-2)', '(zz-2)')
        add('expr-param-stage', f'def {name} zz {{\n;{zero}\n}}\n' + pre + f'{name} 0\n', mention + [name])
        add('expr-param-stage', f'def {name} zz {{\nrep({zero}, i) {name}2 i\n}}\ndef {name}2 a {{\n;a\n}}\n' + pre + f'{name} 0\n', mention + [name])
        lab = op_text.replace('/0', '/lz').replace('%0', '%lz').replace('(0-1)', '(lz-1)').replace('(0-2)', '(lz-2)')
        add('expr-label-stage', f'lz:\n' + pre + f';{lab}\n', mention + ['lz'])
        add('expr-label-stage', f'lz:\n' + pre + f'wflip {lab}, 1\n', mention + ['lz'])
    # recursion
    add('recursion', f'def {name} {{\n  {name}\n}}\n' + pre + f'{name}\n', ['recursi', name], max_recursion_depth=rng.choice([5, 50, 900, 1500]))
    add('recursion', f'def a1 {{\n  b1\n}}\ndef b1 {{\n  a1\n}}\n' + pre + 'a1\n', ['recursi'], max_recursion_depth=rng.choice([7, 200, 900]))
    depth = rng.choice([30, 900])
    # (one op per level: where the levels allowed do not fit the address space, "not enough space" is the earlier, equally true, diagnosis)
    add('recursion', f'def {name} x {{\n  ;x\n  {name} x+1\n}}\n' + pre + f'{name} 0\n',
        ['recursi', name] + (['space'] if depth * dw >= (1 << w) - 8 * dw else []), max_recursion_depth=depth)
    # the depth limit reached by nesting that is NOT a recursion: a chain of distinct macros, one name with growing arity
    chain = rng.choice([12, 60, 130])
    text = ''.join(f'def c{i}_{lbl} {{\n  c{i + 1}_{lbl}\n}}\n' for i in range(chain)) + f'def c{chain}_{lbl} {{\n  ;\n}}\n'
    add('recursion', text + pre + f'c0_{lbl}\n', ['depth', 'recursi', f'_{lbl}'], max_recursion_depth=rng.choice([5, chain // 2, chain - 1]))
    arity = rng.choice([8, 20])
    text = ''.join(f'def g_{lbl} {", ".join(f"p{k}" for k in range(i))} {{\n  g_{lbl} {", ".join(["1"] * (i + 1))}\n}}\n' for i in range(arity))
    text += f'def g_{lbl} {", ".join(f"p{k}" for k in range(arity))} {{\n  ;\n}}\n'
    add('recursion', text + pre + f'g_{lbl}\n', ['depth', 'recursi', f'g_{lbl}'], max_recursion_depth=rng.choice([3, arity // 2, arity - 1]))
    # constants of thousands of digits: as literals, and inside statements that fail for another reason (their message shows them)
    nines = '9' * rng.choice([4301, 5000, 9000])
    huge = rng.choice([nines, '(1<<20000)', '(0-(1<<15000))', '0x' + 'f' * 5000])
    for text, mention in ((f';{nines}\n', []), (f'kx_{lbl} = {nines}\n;kx_{lbl}\n', []), (f';never_declared_{lbl} + {huge}\n', [f'never_declared_{lbl}']),
                          (f';1/0 + {huge}\n', ['/']), (f'def hm_{lbl} a {{\n;a/0\n}}\nhm_{lbl} {huge}\n', ['/', f'hm_{lbl}']),
                          (f'segment {huge}\n;\n', ['segment', 'space']), (f'reserve {huge}\n', ['reserve', 'space', 'memory']),
                          (f'wflip {huge}, 1\n', []), (f'wflip 0, {huge}\n', []), (f'lz_{lbl}:\n;lz_{lbl} + {huge}\n', []),
                          (f'def hm_{lbl} a {{\n;a\n}}\nhm_{lbl} {huge}, {huge}\n', [f'hm_{lbl}']),
                          (f';{nines} {nines}\n', []), (f'{nines}:\n;\n', []), (f'pad (0-{nines})\n', ['pad']), (f'pad {huge}*0\n', ['pad']),
                          (f'def hr_{lbl} a {{\n;a\n}}\nrep(0-{nines}, i) hr_{lbl} i\n', ['rep', f'hr_{lbl}']),
                          (f'segment (0-{huge})\n;\n', ['segment', 'space']), (f'reserve (0-{huge})\n', ['reserve', 'space']),
                          (f'wflip (0-{huge}), 1\n', []), (f'kq_{lbl} = {huge}\nkq_{lbl} = 5\n;kq_{lbl}\n', [f'kq_{lbl}']),
                          (f';{huge} ? never_declared_{lbl} : 1\n', [f'never_declared_{lbl}']), (f'x_{lbl} = {huge} {huge}\n', []),
                          (f'segment {huge}\nfar_{lbl}:\n', []), (f'segment {nines}*{w}\nfar_{lbl}:\n', []), (f'reserve {nines}*{w}\n', []),
                          (f'def hu_{lbl} {{\n  never_defined_macro_{lbl}\n}}\nrep({nines}, i) hu_{lbl}\n', []),
                          (f'def hv_{lbl} a {{\n  never_defined_macro_{lbl} a\n}}\nrep(2, i) hv_{lbl} {huge}\n', [])):
        # (which of several true diagnoses comes first - the huge operand, "not enough space", the undeclared name - depends on the
        # stage that meets the statement: this class is about never reaching the catch-all, the message content is left open)
        add('huge-constant', pre + text, [])
        del mention
    # a user label spelled like one the assembler declares for itself
    k = rng.choice([0, 1])
    seg1, seg2 = min(dw * 64, (1 << w) // 8), min(dw * 128, (1 << w) // 4)
    add('internal-name', pre + 'ns _ {\n' + f'segment {seg1}\n;\n' * k + f'segment {seg2}\nwflip_area_start_{k if rng.random() < 0.7 else 0}:\n;\n}}\n',
        ['wflip_area_start', 'twice'])
    # the same collision in the other order: the user label first, the segment that declares the internal one after it
    add('internal-name', pre + f'ns _ {{\nwflip_area_start_{k}:\n}}\n;\n' + f'segment {seg1}\n;\n' * (k + 1), ['wflip_area_start', 'twice'])
    deep = rng.choice([300, 1200, 3000])
    add('deep-expression', f'lz:\n' + pre + ';' + 'lz+1+' * deep + '1\n', [])
    add('deep-expression', pre + ';' + '(' * deep + '1' + ')' * deep + '\n', [])
    add('deep-expression', f'lz:\n' + pre + ';' + '-' .join(['('] * 1) + 'lz' + '*2' * deep + ')\n', [])
    # files
    add('missing-file', None, ['No such file', 'file'], files='missing')
    add('invalid-utf8', b';\n// caf\xe9 \xff\xfe\n;\n', ['utf', 'decode', 'encod'])
    add('invalid-utf8', pre.encode() + b'x_\xc3\x28 = 5\n', ['utf', 'decode', 'encod'])
    add('repeated-file', pre, ['repeated'], files='twice')
    return cases


# ------------------------------------------------------------------------------ mutation of valid programs
# '**' and huge shift counts are deliberately absent: between large operands they ask CPython for an astronomically
# large value - an uninterruptible computation; those inputs live in the separate 'arithmetic-blowup' class.
TOKENS = [';', ':', ',', '(', ')', '{', '}', '$', '=', 'def', 'ns', 'rep', 'wflip', 'pad', 'segment', 'reserve', '+', '-', '*', '/',
          '%', '>>', '&', '|', '^', '~', '#', '?', '<', '>', '==', '!=', '&&', '||', '@', '0', '1', '0-1', '1<<7', 'x', 'L0',
          'L1', 'w', '\n', '"', "'", '.', '..a', 'a.b', '//', '\\']


def tokenize(text: str) -> List[str]:
    return re.findall(r'\n|//|[A-Za-z_][A-Za-z_0-9]*|0[xX][0-9a-fA-F]+|0[bB][01]+|[0-9]+|\'[^\n]{1,4}?\'|<<|>>|==|!=|&&|\|\||\*\*|<=|>=|[ \t]+|.', text)


def mutate_text(rng: random.Random, text: str) -> Tuple[Any, str]:
    kind = rng.choice(['token-delete', 'token-insert', 'token-replace', 'token-swap', 'token-dup', 'byte', 'line-delete', 'line-dup',
                       'truncate'])
    if kind == 'byte':
        data = bytearray(text.encode())
        if data:
            for _ in range(rng.choice([1, 1, 3])):
                data[rng.randrange(len(data))] = rng.choice([rng.getrandbits(8), rng.randrange(0x20, 0x7F), 0, 0xFF, 0xC3, 0x0A])
        return bytes(data), kind
    if kind.startswith('line'):
        lines = text.split('\n')
        i = rng.randrange(len(lines))
        if kind == 'line-delete':
            del lines[i]
        else:
            lines.insert(i, lines[i])
        return '\n'.join(lines), kind
    if kind == 'truncate':
        return text[:rng.randrange(len(text) + 1)], kind
    toks = tokenize(text)
    if not toks:
        return text, kind
    i = rng.randrange(len(toks))
    if kind == 'token-delete':
        del toks[i]
    elif kind == 'token-insert':
        toks.insert(i, rng.choice(TOKENS))
    elif kind == 'token-replace':
        toks[i] = rng.choice(TOKENS)
    elif kind == 'token-swap':
        j = rng.randrange(len(toks))
        toks[i], toks[j] = toks[j], toks[i]
    else:
        toks.insert(i, toks[i])
    return ''.join(toks), kind


MACRO_SNIPPETS = [
    'def m1 a, b @ l1 < G {\n  a; l1\nl1:\n  ;b + G\n}\nG:\n;\nm1 5, G\n',
    'ns n1 {\n  def f x {\n    ;x\n    .g x+1\n  }\n  def g x {\n    x;\n  }\n}\nn1.f 64\n',
    'def r3 i {\n  ;i*w\n}\nrep(3, j) r3 j\n',
    'K = 3\ndef t a @ loop {\nloop:\n  ;loop\n  wflip a, K\n}\nt 128\npad 4\n',
]


# ------------------------------------------------------------------------------ running one case
_FIRED: List[str] = []


def _alarm(signum, frame):  # type: ignore[no-untyped-def]
    _FIRED.append('cpu' if signum == signal.SIGPROF else 'wall')
    raise KeyboardInterrupt('fjverif watchdog')


class Runner:
    def __init__(self, journal: Any):
        self.counters: Dict[str, Any] = {}
        self.violations: List[Dict[str, Any]] = []
        self.hashes: List[str] = []
        self.journal = journal
        self.dir = engines.tmpdir()
        self.hung_classes: set = set()
        self.option_draws = 0

    def count(self, key: str, n: int = 1) -> None:
        self.counters[key] = self.counters.get(key, 0) + n

    def bad(self, key: str, what: str, case: Dict[str, Any]) -> None:
        if sum(1 for v in self.violations if v['key'] == key) < 3:
            rep = dict(case)
            if isinstance(rep.get('text'), bytes):
                rep['text_hex'] = rep.pop('text').hex()
            self.violations.append({'key': key, 'what': what, 'replay': rep})

    def run(self, case: Dict[str, Any], watchdog: float = 30.0) -> str:
        import flipjump
        from flipjump.fjm.fjm_consts import FJMVersion
        from flipjump.fjm.fjm_reader import Reader

        cls = case['class']
        src = self.dir / 'c14_a.fj'
        out = self.dir / 'c14_out.fjm'
        files = [src]
        text = case.get('text')
        if case.get('files') == 'missing':
            files = [self.dir / 'does_not_exist.fj']
        else:
            if isinstance(text, bytes):
                src.write_bytes(text)
            else:
                src.write_bytes((text or '').encode('utf-8', 'surrogatepass') if not isinstance(text, bytes) else text)
            if case.get('files') == 'twice':
                files = [src, src]
        if out.exists():
            out.unlink()
        jcase = dict(case)
        if isinstance(jcase.get('text'), bytes):
            jcase['text'] = jcase['text'].hex()
        self.journal.note(jcase)
        kwargs: Dict[str, Any] = {}
        if case.get('max_recursion_depth'):
            kwargs['max_recursion_depth'] = case['max_recursion_depth']
        # the optional outputs of an assembly are part of it: the debugging-labels file and the macro-usage statistics
        self.option_draws += 1
        if self.option_draws % 3 == 0:
            kwargs['debugging_file_path'] = self.dir / 'c14_out.fjd'
            self.count('assemblies_with_a_debugging_file')
        if self.option_draws % 7 == 0:
            kwargs['show_statistics'] = True
            self.count('assemblies_with_statistics')
        if cls in self.hung_classes:
            self.count('cases_skipped_after_a_hang_of_their_class')
            return 'skipped'
        # two watchdogs: CPU time consumed by this process (a verdict for tiny sources: machine load cannot cause it) and a much
        # longer wall-clock one (never a verdict)
        del _FIRED[:]
        old = signal.signal(signal.SIGALRM, _alarm)
        old_prof = signal.signal(signal.SIGPROF, _alarm)
        signal.setitimer(signal.ITIMER_REAL, watchdog * 6)
        signal.setitimer(signal.ITIMER_PROF, watchdog)
        import sys

        old_limit = sys.getrecursionlimit()
        outcome = 'ok'
        exc: Optional[BaseException] = None
        try:
            with contextlib.redirect_stdout(io.StringIO()):
                flipjump.assemble(files, out, memory_width=case.get('w', 64), use_stl=case.get('stl', False),
                                  fjm_version=FJMVersion(case.get('version', 1)), print_time=False,
                                  warning_as_errors=case.get('werror', True), **kwargs)
        except flipjump.FlipJumpException as e:
            exc = e
            outcome = 'catch-all' if CATCH_ALL_TEXT in str(e) else 'library'
        except KeyboardInterrupt:
            outcome = 'timeout'
        except BaseException as e:  # noqa: B902
            exc = e
            outcome = 'raw'
        finally:
            signal.setitimer(signal.ITIMER_PROF, 0)
            signal.setitimer(signal.ITIMER_REAL, 0)
            signal.signal(signal.SIGALRM, old)
            signal.signal(signal.SIGPROF, old_prof)
            sys.setrecursionlimit(max(old_limit, 1000))
        self.count('monitor_evaluations')
        self.count(f'outcome/{outcome}')
        self.count(f'class/{cls}/{outcome}')
        text_probe = text if isinstance(text, str) else (text or b'').decode('latin-1') if isinstance(text, bytes) else ''
        amplifying = bool(re.search(r'\b(pad|rep|reserve|segment)\b|<<|\*\*', text_probe))
        if outcome == 'timeout' and amplifying and cls.startswith(('mutation/', 'stl/')):
            # a mutated source that can ask for an astronomically large layout (pad/rep/reserve/segment operand, shifts):
            # unbounded work, not a hang of the error handling - reported, never a verdict
            self.count('timeouts_on_size_amplifying_mutants')
        elif outcome == 'catch-all' and amplifying and cls.startswith(('mutation/', 'stl/')) and isinstance(exc.__cause__ if exc else None, MemoryError):
            self.count('memory_exhaustion_on_size_amplifying_mutants')
        elif (outcome == 'timeout' and _FIRED[:1] == ['cpu'] and (not amplifying or case.get('bounded')) and len(text_probe) < 20000
              and not cls.startswith(('mutation/', 'stl/')) and cls != 'arithmetic-blowup'):
            # "never hangs": a source of a few lines, without any construct that can ask for a large layout, kept assemble() busy
            # for `watchdog` seconds of CPU time (ordinary cases of these classes take milliseconds)
            self.hung_classes.add(cls)
            self.bad(f'hang/{cls}', f'{cls}: assemble() of a {len(text_probe)}-character source did not return within {watchdog:.0f} s of CPU time', case)
        elif outcome == 'timeout':
            self.count('watchdog_timeouts')
            self.counters.setdefault('watchdog_timeout_classes', [])
            if cls not in self.counters['watchdog_timeout_classes']:
                self.counters['watchdog_timeout_classes'].append(cls)
            self.counters.setdefault('watchdog_timeout_cases', [])
            if len(self.counters['watchdog_timeout_cases']) < 3:
                t = case.get('text')
                self.counters['watchdog_timeout_cases'].append({'class': cls, 'w': case.get('w'), 'text': (t.hex() if isinstance(t, bytes) else str(t))[:1500]})
        elif outcome == 'catch-all' and cls == 'arithmetic-blowup' and isinstance(exc.__cause__ if exc else None, MemoryError):
            self.count('blowup_hit_the_address_space_limit')  # resource exhaustion under RLIMIT_AS: reported, not a verdict
        elif outcome == 'catch-all':
            cause = exc.__cause__ if exc is not None else None
            self.bad(f'catch-all/{cls}/{type(cause).__name__}', f'{cls}: generic failure wrapping {cause!r}', case)
        elif outcome == 'raw':
            self.bad(f'raw/{cls}/{type(exc).__name__}', f'{cls}: raw {exc!r}', case)
        elif outcome == 'library' and case.get('mention'):
            message = str(exc)
            if not any(tok.lower() in message.lower() for tok in case['mention']):
                self.bad(f'message-does-not-name-construct/{cls}', f'{cls}: message {message[:200]!r} mentions none of {case["mention"]}', case)
            else:
                self.count('messages_checked')
        if outcome != 'ok' and out.exists():
            try:
                reader = Reader(out)  # "loads": the reader accepts the leftover as a memory image (whether or not it has a first op)
                self.bad(f'failed-assembly-left-a-loadable-file/{cls}',
                         f'{cls}: after {outcome} the output path holds a file the reader loads ({len(reader.memory_segments)} segments)', case)
            except flipjump.FlipJumpException:
                self.count('failed_assembly_left_unloadable_file')
            except Exception as e:  # noqa: B902
                self.bad(f'reader-raw-on-leftover/{type(e).__name__}', f'{cls}: leftover output makes the reader raise {e!r}', case)
        return outcome


def shard_grammar(spec: Dict[str, Any], runner: Runner) -> List[Any]:
    rng = rng_for(spec['seed'], PROPERTY, 'grammar', spec['shard'])
    samples = []
    for _ in range(spec['rounds']):
        for case in grammar_cases(rng):
            outcome = runner.run(case)
            if outcome == 'ok':
                runner.count(f'unexpected-success/{case["class"]}')
            t = case.get('text')
            runner.hashes.append(case_hash([case['class'], t.hex() if isinstance(t, bytes) else t, case.get('w')]))
            if len(samples) < 2 and case['class'] in ('expr-param-stage', 'duplicate-label-via-macro'):
                samples.append({'class': case['class'], 'text': case['text'], 'w': case['w'], 'outcome': outcome})
    return samples


def shard_mutate(spec: Dict[str, Any], runner: Runner) -> List[Any]:
    rng = rng_for(spec['seed'], PROPERTY, 'mutate', spec['shard'])
    samples = []
    for index in range(spec['cases']):
        if index % 5 == 4:
            w = rng.choice([16, 32, 64])
            base = rng.choice(MACRO_SNIPPETS) + '\n'.join(primgen.generate(rng, w, 4, flaws=False).lines)
        else:
            prog = primgen.generate(rng, flaws=rng.random() < 0.3)
            w, base = prog.w, prog.text()
        text: Any = base
        label = 'valid'
        for _ in range(rng.choice([0, 1, 1, 1, 2, 3])):
            if isinstance(text, bytes):
                break
            text, label = mutate_text(rng, text)
        probe = text if isinstance(text, str) else text.decode('latin-1')
        if any(not re.fullmatch(r'\s*[0-9]{1,3}\s*', m) for m in re.findall(r'rep\s*\(([^,\n]*)', probe)):
            runner.count('mutants_skipped_unbounded_rep')  # rep(<huge or symbolic count>) is an unbounded-work program, not an error
            continue
        if re.search(r'<<\s*\(?\s*(0[xX][0-9a-fA-F]{2,}|0[bB][01]{5,}|[0-9]{2,}|9)', probe):
            # a mutated shift count >= 9 turns small constants into astronomically large pad / reserve / segment operands:
            # size-amplifying (unbounded-work) programs, like rep(<huge>) - not error-handling material
            runner.count('mutants_skipped_size_amplifying_shift')
            continue
        case = {'class': f'mutation/{label}', 'text': text, 'mention': [], 'w': w, 'version': rng.randrange(4),
                'werror': rng.random() < 0.8}
        outcome = runner.run(case)
        runner.hashes.append(case_hash([text.hex() if isinstance(text, bytes) else text, w]))
        if index == 3:
            samples.append({'class': case['class'], 'text': text if isinstance(text, str) else text.hex(), 'w': w, 'outcome': outcome})
    return samples


def shard_stl(spec: Dict[str, Any], runner: Runner) -> List[Any]:
    """mutations of small stl-using programs (the failures then surface deep inside library macros)."""
    rng = rng_for(spec['seed'], PROPERTY, 'stl', spec['shard'])
    root = REPO_ROOT / 'programs'
    names = ['print_tests/hello_world.fj', 'print_tests/cat.fj', 'simple_math_checks/nadd.fj', 'sanity_checks/rep.fj']
    bases = [(root / n).read_text() for n in names if (root / n).exists()]
    for index in range(spec['cases']):
        text, label = mutate_text(rng, rng.choice(bases))
        if index % 6 == 0:
            text = rng.choice(bases) + rng.choice(['\nhex.add 1\n', '\nstl.output 1/0\n', '\nbit.mov 2\n', '\nhex.print_uint 0-1, x, 1, 1\n',
                                                   '\nrep(1<<20, i) stl.nope\n', '\nhex.vec 1<<(0-1)\n'])
            label = 'stl-misuse'
        case = {'class': f'stl/{label}', 'text': text, 'mention': [], 'w': 64, 'version': 3, 'stl': True}
        runner.run(case, watchdog=120.0)
        runner.hashes.append(case_hash([text.hex() if isinstance(text, bytes) else text]))
    return []


def shard_blowup(spec: Dict[str, Any], runner: Runner) -> List[Any]:
    """expressions whose VALUE is astronomically large: confined here, under an address-space limit and a short
    watchdog; a timeout is reported (inconclusive-class), never a verdict."""
    for text in (';1<<(1<<36)\n', ';2**(2**30)\n', 'x = 1<<(1<<33)\n;x>>(1<<33)\n', ';(1<<(1<<22))>>(1<<22)\n', ';#(1<<(1<<25))\n'):
        case = {'class': 'arithmetic-blowup', 'text': ';\n' + text, 'mention': [], 'w': 64}
        runner.run(case, watchdog=15.0)
    return []


def run_shard(spec: Dict[str, Any], journal: Any) -> Dict[str, Any]:
    soft, hard = resource.getrlimit(resource.RLIMIT_AS)
    resource.setrlimit(resource.RLIMIT_AS, (6 << 30, hard))
    runner = Runner(journal)
    samples = {'grammar': shard_grammar, 'mutate': shard_mutate, 'stl': shard_stl, 'blowup': shard_blowup}[spec['kind']](spec, runner)
    engines.cleanup_tmpdir()
    return {'counters': runner.counters, 'violations': runner.violations, 'hashes': runner.hashes, 'samples': samples,
            'evaluations': runner.counters.get('monitor_evaluations', 0)}


def replay_case(record: Dict[str, Any], journal: Any) -> Dict[str, Any]:
    runner = Runner(journal)
    case = dict(record)
    if 'text_hex' in case:
        case['text'] = bytes.fromhex(case.pop('text_hex'))
    runner.run(case)
    return {'counters': runner.counters, 'violations': runner.violations, 'evaluations': 1, 'hashes': []}


def finalize(tier: str, seed: int, counters: Dict[str, Any], evaluations: int, distinct: int) -> Dict[str, Any]:
    inconclusive = []
    classes = {k.split('/')[1] for k in counters if k.startswith('class/')}
    for needed in ('lexing', 'syntax', 'unknown-macro', 'duplicate-label', 'arity', 'segment-unaligned', 'segment-overlap',
                   'out-of-range', 'expr-parse-stage', 'expr-param-stage', 'expr-label-stage', 'recursion', 'invalid-utf8', 'mutation',
                   'stl'):
        if needed not in classes:
            inconclusive.append(f'error class {needed} never generated')
    non_blowup_timeouts = [c for c in counters.get('watchdog_timeout_classes', []) if c != 'arithmetic-blowup']
    if non_blowup_timeouts:
        inconclusive.append(f'assemble() exceeded the watchdog on classes {non_blowup_timeouts}')
    if counters.get('outcome/library', 0) < 200:
        inconclusive.append('fewer than 200 library diagnostics observed')
    return {
        'coverage': {
            'rule': 'grammar-derived invalid programs, one generator per error class (lexing, syntax, unknown/duplicate macro and '
                    'label, arity, alignment, overlap, out-of-range words, division by zero / negative shift / negative exponent at '
                    'the parse, parameter and label stages, recursion, deep expressions, bad pad/rep/segment/reserve operands, '
                    'invalid UTF-8, missing/repeated files) at random widths and versions, plus token-/byte-/line-level mutations '
                    'of generated valid programs and of stl programs. oracle: exception type, not the catch-all, message names '
                    'the construct (where known), no loadable output left behind. evaluation = one assemble() call',
        },
        'inconclusive': inconclusive,
        'assumptions': ['"never hangs" restated: each assemble() of a < 20 KiB source returns within 30 s (120 s with the stl); '
                        'astronomically large constant values are confined to their own class and only reported',
                        'a pre-existing output file is not considered "left behind" by a failed assembly (fresh paths only)'],
    }
