"""C18 - a device failure or interrupt stops the run at a consistent point (DESIGN 4, C18)."""

from __future__ import annotations

import copy
import os
import random
import signal
import subprocess
import sys
from typing import Any, Dict, List, Optional, Tuple

from fjverif import engines, imagegen
from fjverif.common import case_hash, rng_for
from fjverif.refmachine import RefEOF, RefFault, RefMachine

PROPERTY = 'C18'
LEVEL = 'fault_enumeration'
NATIVE_VARIANT = 'opt'
FAULTS = ['ioerr', 'eof', 'foreign', 'kbint', 'badbool']
POLL = 1 << 18


FOREIGN_FAMILY = [ValueError, RuntimeError, OSError, BrokenPipeError, TimeoutError, ConnectionResetError, FileNotFoundError, KeyError,
                  IndexError, ZeroDivisionError, OverflowError, AssertionError, AttributeError, TypeError, StopIteration, EOFError,
                  UnicodeDecodeError, NotImplementedError, RecursionError, MemoryError, BufferError, ImportError]


class Injected(Exception):
    """raised inside the reference machine's IO hook at the chosen call index."""


def plan(tier: str, seed: int) -> List[Dict[str, Any]]:
    quick = tier == 'quick'
    out = []
    for i in range(10 if quick else 40):
        out.append({'kind': 'sync', 'seed': seed, 'shard': i, 'cases': 28 if quick else 260, 'timeout_s': 1500 if quick else 7200})
    for i in range(3 if quick else 8):
        out.append({'kind': 'async-python', 'seed': seed, 'shard': i, 'cases': 12 if quick else 120, 'trials': 60, 'timeout_s': 1500 if quick else 7200})
    for i in range(3 if quick else 8):
        out.append({'kind': 'async-native', 'seed': seed, 'shard': i, 'cases': 8 if quick else 60, 'timeout_s': 1500 if quick else 7200})
    long_configs = [{'engine': 'native'}] if quick else [{'engine': 'native'}, {'engine': 'native', 'ring': 5}, {'engine': 'native', 'no_flat': True},
                                                          {'engine': 'native', 'measure': True}]
    for i, config in enumerate(long_configs):
        out.append({'kind': 'long-run', 'seed': seed, 'shard': i, 'configs': [config], 'timeout_s': 3000})
    return out


CONFIGS = [
    {'engine': 'featured', 'ring': 5}, {'engine': 'fast'}, {'engine': 'fast', 'ring': 5}, {'engine': 'native'},
    {'engine': 'native', 'ring': 5}, {'engine': 'native', 'no_flat': True}, {'engine': 'native', 'no_flat': True, 'ring': 3},
    {'engine': 'native', 'flat_max_words': 5}, {'engine': 'native', 'measure': True},
    {'engine': 'native', 'ring': 0}, {'engine': 'fast', 'ring': 0}, {'engine': 'native', 'no_flat': True, 'ring': 0},   # (a ring of length 0 is a ring)
]


# ------------------------------------------------------------------------------ reference with an injected fault
def ref_with_fault(case: Dict[str, Any], k: int, ring_len: Optional[int]) -> Tuple[RefMachine, str, bool]:
    """run the reference until IO call index k raises. returns (machine, 'r'|'w', reached)."""
    m = RefMachine(case['w'], [tuple(s) for s in case['segments']], {int(a): int(v) for a, v in case['mem']},
                   bytes.fromhex(case['input']), ring_len=ring_len, track=True)
    state = {'dir': ''}

    def read_hook(machine: RefMachine) -> Optional[bool]:
        if machine.io_calls - 1 == k:
            state['dir'] = 'r'
            raise Injected()
        return None

    def write_hook(machine: RefMachine, bit: bool) -> None:
        if machine.io_calls - 1 == k:
            state['dir'] = 'w'
            raise Injected()

    m.read_hook, m.write_hook = read_hook, write_hook
    try:
        m.run(1 << 22)
    except Injected:
        return m, state['dir'], True
    return m, '', False


class BadBool:
    def __bool__(self) -> bool:
        raise ValueError('fjverif badbool')


def judge_sync(case: Dict[str, Any], k: int, fault: str, config: Dict[str, Any], path: Any, counters: Dict[str, Any]
               ) -> Optional[Tuple[str, str]]:
    from flipjump.utils.exceptions import FlipJumpRuntimeException, IODeviceException, IOReadOnEOF

    ring_len = config.get('ring')
    ref, direction, reached = ref_with_fault(case, k, ring_len)
    if not reached:
        return None
    if fault == 'badbool' and direction != 'r':
        return None

    class DeviceFailure(IODeviceException):
        pass

    class ForeignBase(BaseException):
        """not an Exception subclass, not KeyboardInterrupt: must not be swallowed or mangled."""

    thrown: Dict[str, Any] = {}

    def on_call(device: Any, d: str, index: int) -> Any:
        if index != k:
            return None
        if fault == 'ioerr':
            thrown['exc'] = DeviceFailure('device failed')
        elif fault == 'eof':
            thrown['exc'] = IOReadOnEOF('injected eof')
        elif fault == 'foreign':
            # any Exception that is not the library's: every built-in family (an "except OSError" or "except LookupError" clause
            # somewhere on the way out must not let one family through unwrapped)
            family = FOREIGN_FAMILY[(k + len(case['mem'])) % len(FOREIGN_FAMILY)]
            thrown['exc'] = family('foreign failure') if family is not UnicodeDecodeError else UnicodeDecodeError('utf-8', b'\xff', 0, 1, 'foreign failure')
            counters.setdefault('foreign_exception_classes', {})
            counters['foreign_exception_classes'][family.__name__] = counters['foreign_exception_classes'].get(family.__name__, 0) + 1
        elif fault == 'kbint':
            thrown['exc'] = KeyboardInterrupt()
        elif fault == 'systemexit-like':
            thrown['exc'] = ForeignBase('base exception')
        elif fault == 'badbool':
            return BadBool()
        raise thrown['exc']

    Device = engines.make_recording_device()
    device = Device(bytes.fromhex(case['input']), on_call=on_call)
    try:
        obs = engines.run_engine(path, config, device)
    except BaseException as exc:  # ForeignBase escapes run_engine's own handler only if it is re-raised there
        obs = {'cause': 'exception', 'exc_obj': exc, 'exc': {'type': type(exc).__name__}}
    counters['monitor_evaluations'] = counters.get('monitor_evaluations', 0) + 1
    counters.setdefault('faults', {})
    counters['faults'][f'{fault}@{direction}'] = counters['faults'].get(f'{fault}@{direction}', 0) + 1
    label = engines.config_label(config)
    exc_obj = obs.get('exc_obj')

    # 1. classification of what leaves run()
    if fault == 'eof' and direction == 'r':
        # an end-of-input from read_bit is the EOF termination at this op
        ref_plain = imagegen.reference_run({**case, 'input': ''}, ring_len=ring_len) if False else None
        del ref_plain
        if obs['cause'] != 'EOF':
            return 'classification/eof-read', f'{label}: IOReadOnEOF from read_bit gave {obs["cause"]} {obs.get("exc")}'
        if obs['ops'] != ref.ops:
            return 'op-count', f'{label}: EOF at call {k}: ops {obs["ops"]} want {ref.ops}'
    elif fault in ('ioerr', 'eof'):
        if exc_obj is not thrown.get('exc'):
            return 'classification/library-io-exception-not-unchanged', \
                   f'{label}: {fault} at {direction}-call {k}: run() gave {obs["cause"]} {obs.get("exc")}, want the same exception object'
    elif fault in ('foreign', 'badbool'):
        if not isinstance(exc_obj, FlipJumpRuntimeException):
            return 'classification/foreign-not-wrapped', f'{label}: {fault}: run() gave {obs["cause"]} {obs.get("exc")}'
        cause = exc_obj.__cause__
        if fault == 'foreign' and cause is not thrown.get('exc'):
            return 'classification/foreign-cause-lost', f'{label}: wrapped exception has cause {cause!r}'
        if fault == 'badbool' and not isinstance(cause, ValueError):
            return 'classification/foreign-cause-lost', f'{label}: badbool wrapped with cause {cause!r}'
    elif fault == 'kbint':
        if obs['cause'] != 'keyboard-interrupt':
            return 'classification/interrupt', f'{label}: KeyboardInterrupt from the device gave {obs["cause"]} {obs.get("exc")}'
        if obs['ops'] != ref.ops:
            return 'op-count', f'{label}: interrupt at call {k}: ops {obs["ops"]} want {ref.ops}'
        want_ring = None if ring_len is None else ref.ring[-ring_len:]
        if obs['ring'] != want_ring:
            tag = 'native' if config['engine'] == 'native' else config['engine']
            empty = 'lost' if not obs['ring'] else 'wrong'
            return f'last-ops-{empty}-on-interrupt/{tag}', f'{label}: last-ops {obs["ring"]} want {want_ring}'
    elif fault == 'systemexit-like':
        if exc_obj is not thrown.get('exc'):
            return 'classification/base-exception-not-propagated', f'{label}: BaseException subclass gave {obs["cause"]} {obs.get("exc")}'

    # 2. device-side record and memory are those of the ops executed before the stop
    if [tuple(e) for e in device.log] != ref.io_log:
        return 'io-record', f'{label}: {fault}@{k}: device saw {device.log[-5:]} want {ref.io_log[-5:]}'
    if device.memory is not None:
        words = sorted(w for w in ref.touched | {int(a) for a, _ in case['mem']} if ref.seg.contains(w))
        got = engines.read_words(device, words)
        diff = [(w, got[w], ref.peek(w)) for w in words if got[w] != ref.peek(w)]
        counters['memory_words_compared'] = counters.get('memory_words_compared', 0) + len(words)
        if diff:
            return 'memory-state', f'{label}: {fault}@{direction}{k}: memory differs {diff[:3]} (ref stopped at substep {ref.substep})'
    return None


def shard_sync(spec: Dict[str, Any], journal: Any) -> Dict[str, Any]:
    rng = rng_for(spec['seed'], PROPERTY, 'sync', spec['shard'])
    counters: Dict[str, Any] = {}
    violations: List[Dict[str, Any]] = []
    hashes: List[str] = []
    samples: List[Any] = []
    done = 0
    attempts = 0
    while done < spec['cases'] and attempts < spec['cases'] * 40:
        attempts += 1
        case = imagegen.generate_case(rng, max_ops=2000)
        ref = imagegen.reference_run(case)
        n_calls = ref.io_calls
        if n_calls == 0:
            continue
        done += 1
        path = engines.tmpdir() / 'c18.fjm'
        engines.write_case(case, path, rng.randrange(4))
        ks = list(range(n_calls)) if n_calls <= 10 else sorted(rng.sample(range(n_calls), 10))
        counters['io_call_indices_enumerated'] = counters.get('io_call_indices_enumerated', 0) + len(ks)
        for k in ks:
            for config in CONFIGS:
                for fault in rng.sample(FAULTS, 3):
                    journal.note({'case': case, 'k': k, 'fault': fault, 'config': config})
                    res = judge_sync(case, k, fault, config, path, counters)
                    if res is not None:
                        violations.append({'key': res[0], 'what': res[1],
                                           'replay': {'kind': 'sync', 'case': case, 'k': k, 'fault': fault, 'config': config}})
        hashes.append(case_hash(case))
        if len(samples) < 1:
            samples.append({'case': {'w': case['w'], 'geom': case['geom'], 'segments': case['segments'][:4]}, 'io_calls': n_calls,
                            'faulted_call_indices': ks, 'faults': FAULTS, 'configs': [engines.config_label(c) for c in CONFIGS]})
    engines.cleanup_tmpdir()
    return {'counters': counters, 'violations': violations[:60], 'hashes': hashes, 'samples': samples,
            'evaluations': counters.get('monitor_evaluations', 0)}



# ------------------------------------------------------------------------------ a run of more than 2^32 ops before the stop
def shard_long_run(spec: Dict[str, Any], journal: Any) -> Dict[str, Any]:
    """a loop of L ops, one of which writes an output bit; the device interrupts at its K-th call, with K*L beyond 2^32 ops.
    the op count of call k is a + k*L (measured on the reference machine for the first calls, which the engine must also
    reproduce), so the count after billions of ops is known without the reference walking them."""
    rng = rng_for(spec['seed'], PROPERTY, 'long-run', spec['shard'])
    counters: Dict[str, Any] = {}
    violations: List[Dict[str, Any]] = []
    w = 64
    loop_ops = 16384
    first = 4                                   # word of the first loop op (op 0 jumps over the input/output op at word 2)
    scratch = first + 2 * loop_ops + 1          # a data word behind the loop
    out_at = rng.randrange(loop_ops)
    mem: Dict[int, int] = {0: scratch * w, 1: first * w, 2: 0, 3: 0}
    for i in range(loop_ops):
        word = first + 2 * i
        mem[word] = 2 * w if i == out_at else scratch * w + (i % w)
        mem[word + 1] = (first + 2 * ((i + 1) % loop_ops)) * w
    mem[scratch - 1], mem[scratch] = 0, 0
    case = {'w': w, 'segments': [[0, scratch + 1]], 'mem': [[k, v] for k, v in sorted(mem.items())], 'input': '', 'geom': 'long-loop', 'cuts': []}
    per_call = []
    for k in range(3):
        ref, _direction, reached = ref_with_fault(case, k, None)
        if not reached:
            return {'counters': counters, 'violations': [], 'hashes': [], 'samples': [], 'evaluations': 0,
                    'inconclusive': ['long-run: the reference machine did not reach the output op']}
        per_call.append(ref.ops)
    if per_call[1] - per_call[0] != loop_ops or per_call[2] - per_call[1] != loop_ops:
        return {'counters': counters, 'violations': [], 'hashes': [], 'samples': [], 'evaluations': 0,
                'inconclusive': [f'long-run: op counts of the first calls are not linear: {per_call}']}
    path = engines.tmpdir() / 'c18long.fjm'
    engines.write_case(case, path, 1)
    beyond = (1 << 32) // loop_ops + rng.randrange(1, 40)
    samples: List[Any] = []
    for config in spec['configs']:
        for k in (1, beyond):
            def on_call(device: Any, d: str, index: int, k: int = k) -> Any:
                if index == k:
                    raise KeyboardInterrupt()
                return None
            Device = engines.make_recording_device()
            device = Device(b'', on_call=on_call)
            device.log = _CountingLog()           # (hundreds of thousands of identical entries: counted, not kept)
            journal.note({'long-run': engines.config_label(config), 'k': k, 'out_at': out_at})
            obs = engines.run_engine(path, config, device, watchdog_s=900.0)
            counters['monitor_evaluations'] = counters.get('monitor_evaluations', 0) + 1
            want = per_call[0] + k * loop_ops
            label = engines.config_label(config)
            if obs['cause'] == 'harness-interrupt':
                counters['long_runs_cut_by_the_watchdog'] = counters.get('long_runs_cut_by_the_watchdog', 0) + 1
                continue
            if k == beyond:
                counters['runs_beyond_2^32_ops'] = counters.get('runs_beyond_2^32_ops', 0) + 1
                counters['largest_op_count_checked'] = max(counters.get('largest_op_count_checked', 0), want)
            if obs['cause'] != 'keyboard-interrupt':
                violations.append({'key': 'classification/interrupt', 'what': f'{label}: interrupt at call {k} of a long loop gave {obs["cause"]} {obs.get("exc")}',
                                   'replay': {'kind': 'long-run', 'out_at': out_at, 'k': k, 'config': config}})
            elif obs['ops'] != want:
                violations.append({'key': 'op-count/long-run', 'what': f'{label}: interrupt at call {k}: {obs["ops"]} ops reported, {want} executed '
                                                                         f'(difference {want - obs["ops"]})',
                                   'replay': {'kind': 'long-run', 'out_at': out_at, 'k': k, 'config': config}})
            elif device.calls != k + 1 or device.log.count != k:
                violations.append({'key': 'io-record', 'what': f'{label}: long loop: device saw {device.calls} calls ({device.log.count} completed), want {k + 1} ({k})',
                                   'replay': {'kind': 'long-run', 'out_at': out_at, 'k': k, 'config': config}})
            if k == beyond and not samples:
                samples.append({'long_run': label, 'loop_ops': loop_ops, 'interrupted_at_call': k, 'ops_reported': obs['ops'], 'ops_expected': want})
    engines.cleanup_tmpdir()
    return {'counters': counters, 'violations': violations, 'hashes': [case_hash([out_at, beyond])], 'samples': samples,
            'evaluations': counters.get('monitor_evaluations', 0)}


class _CountingLog:
    def __init__(self) -> None:
        self.count = 0

    def append(self, entry: Any) -> None:
        self.count += 1


# ------------------------------------------------------------------------------ asynchronous interrupts
def substates(ref: RefMachine) -> List[Tuple[List[Tuple[str, int]], Dict[int, int], bool]]:
    """the states a sequential interpreter can be in while executing the NEXT op of `ref` (which has completed
    k ops): (io log, memory, ip-already-in-ring). derived from the property's per-op order."""
    m = copy.deepcopy(ref)
    m.write_hook = None  # (the read hook stays: it is the scripted input source)
    w, dw, ip = m.w, 2 * m.w, m.ip
    in_addr = 3 * w + w.bit_length()
    out: List[Tuple[List[Tuple[str, int]], Dict[int, int], bool]] = []

    def snap(ring: bool) -> None:
        out.append((list(m.io_log), dict(m.mem), ring))

    snap(False)
    snap(True)
    try:
        f = m.fetch(ip, 'flip-fetch')
        snap(True)
        if f == dw or f == dw + 1:
            m._write_bit(f == dw + 1)
            snap(True)
        if ip <= in_addr < ip + dw:
            bit = m._read_bit()
            snap(True)
            wi, off = divmod(in_addr, w)
            v = m.word(wi, 'input-store')
            m.mem[wi] = (v | (1 << off)) if bit else (v & ~(1 << off))
            snap(True)
        wi, off = divmod(f, w)
        v = m.word(wi, 'flip')
        m.mem[wi] = v ^ (1 << off)
        snap(True)
    except (RefFault, RefEOF):
        pass
    return out


def loop_case(rng: random.Random, w: int) -> Dict[str, Any]:
    """an endless loop of L ops (aligned and unaligned), each flipping a scratch bit; some ops emit output only on
    the first pass (the flip toggles the flip word's own low bit afterwards)."""
    n = rng.randrange(2, 24)
    base = 8
    mem: Dict[int, int] = {}
    scratch = base + 2 * n + 4
    segs = [[0, scratch + 8]]
    if w >= 32 and rng.random() < 0.5:
        far = (1 << rng.choice([15, 20, 24])) + 2 * rng.randrange(0, 50)
        segs.append([far, 8])
        scratch_words = [scratch, scratch + 1, far, far + 3]
    else:
        scratch_words = [scratch, scratch + 1, scratch + 5]
    slots = [base + 2 * i for i in range(n)]
    mem[0] = rng.choice(scratch_words) * w + rng.randrange(w)
    mem[1] = slots[0] * w
    for i, s in enumerate(slots):
        mem[s] = rng.choice(scratch_words) * w + rng.randrange(w)
        mem[s + 1] = slots[(i + 1) % n] * w
    return {'w': w, 'segments': segs, 'mem': sorted([k, v] for k, v in mem.items() if v), 'geom': 'endless-loop',
            'input': '', 'cuts': [5]}


def shard_async_native(spec: Dict[str, Any], journal: Any) -> Dict[str, Any]:
    from flipjump.interpreter import fjm_run

    rng = rng_for(spec['seed'], PROPERTY, 'async-native', spec['shard'])
    counters: Dict[str, Any] = {}
    violations: List[Dict[str, Any]] = []
    hashes: List[str] = []
    samples: List[Any] = []
    Device = engines.make_recording_device()

    def handler(signum: int, frame: Any) -> None:
        raise KeyboardInterrupt('fjverif async')

    for index in range(spec['cases']):
        w = rng.choice([16, 32, 64])
        case = loop_case(rng, w)
        config = rng.choice([{'engine': 'native'}, {'engine': 'native', 'no_flat': True}, {'engine': 'native', 'ring': 4},
                             {'engine': 'native', 'flat_max_words': 9}, {'engine': 'native', 'measure': True}])
        path = engines.tmpdir() / 'c18-loop.fjm'
        engines.write_case(case, path, 1)
        delay = rng.choice([0.0005, 0.002, 0.004, 0.008, 0.015])
        use_sigint = index % 3 == 2
        journal.note({'case': case, 'config': config, 'delay': delay})
        device = Device(b'')
        engines.apply_env(config)
        kwargs: Dict[str, Any] = {}
        if config.get('ring') is not None:
            kwargs['last_ops_debugging_list_length'] = config['ring']
        if config.get('flat_max_words'):
            kwargs['flat_max_words'] = config['flat_max_words']
        helper = None
        old_alarm = signal.signal(signal.SIGALRM, handler)
        old_int = signal.signal(signal.SIGINT, signal.default_int_handler)
        try:
            if use_sigint:  # a REAL SIGINT from another process
                helper = subprocess.Popen(['/bin/sh', '-c', f'sleep {delay + 0.05}; kill -INT {os.getpid()}'])
            else:
                signal.setitimer(signal.ITIMER_REAL, delay)
            safety = None
            try:
                stats = fjm_run.run(path, io_device=device, **kwargs)
            finally:
                signal.setitimer(signal.ITIMER_REAL, 0)
                del safety
        except KeyboardInterrupt:
            stats = None
        finally:
            signal.signal(signal.SIGALRM, old_alarm)
            signal.signal(signal.SIGINT, old_int)
            engines.clear_env()
            if helper is not None:
                helper.wait()
        counters['monitor_evaluations'] = counters.get('monitor_evaluations', 0) + 1
        counters['async_native_runs'] = counters.get('async_native_runs', 0) + 1
        label = engines.config_label(config)

        def bad(key: str, what: str) -> None:
            violations.append({'key': key, 'what': f'{label}: {what}',
                               'replay': {'kind': 'async-native', 'case': case, 'config': config, 'delay': delay}})

        if stats is None:
            if device.memory is None:
                # the signal landed while run() was still loading the file (before its try block and before the engine
                # attached the memory): the run had not started - not a statement about stopping a run
                counters['interrupt_before_run_loop'] = counters.get('interrupt_before_run_loop', 0) + 1
            else:
                bad('async/interrupt-escaped-run', 'KeyboardInterrupt propagated out of fjm_run.run after the run had started')
            continue
        if str(stats.termination_cause) != 'keyboard-interrupt':
            bad('async/classification', f'cause {stats.termination_cause}')
            continue
        k = int(stats.op_counter)
        counters.setdefault('async_native_op_counts', [])
        if k not in counters['async_native_op_counts']:
            counters['async_native_op_counts'].append(k)
        if k > (1 << 23):
            counters['async_native_skipped_far'] = counters.get('async_native_skipped_far', 0) + 1
            continue
        ref = RefMachine(case['w'], [tuple(s) for s in case['segments']], {int(a): int(v) for a, v in case['mem']}, b'',
                         ring_len=config.get('ring'), track=False)
        ref.run(k) if k else None
        words = sorted({int(a) for a, _ in case['mem']} | set(ref.mem))
        got = engines.read_words(device, words)
        diff = [(wd, got[wd], ref.peek(wd)) for wd in words if got[wd] != ref.peek(wd)]
        counters['memory_words_compared'] = counters.get('memory_words_compared', 0) + len(words)
        if diff:
            bad('async/memory-state', f'after {k} ops memory differs {diff[:3]}')
        if config.get('ring') is not None:
            got_ring = [int(a) for a in stats.last_ops_addresses]
            want = ref.ring[-config['ring']:]
            if got_ring != want and got_ring != (want + [ref.ip])[-config['ring']:]:
                bad('last-ops-lost-on-interrupt/native' if not got_ring else 'async/last-ops-wrong',
                    f'after {k} ops last-ops {got_ring} want {want}')
        if k:
            hashes.append(case_hash([case, k]))
        if len(samples) < 1 and k:
            samples.append({'loop_ops': len(case['mem']) // 2, 'w': w, 'config': label, 'interrupted_at_op': k, 'delay_s': delay})
    engines.cleanup_tmpdir()
    return {'counters': counters, 'violations': violations[:40], 'hashes': hashes, 'samples': samples,
            'evaluations': counters.get('monitor_evaluations', 0)}


def io_loop_case(rng: random.Random, w: int) -> Dict[str, Any]:
    """an endless loop that also performs IO: some ops emit output bits, and the loop passes through the input
    op at 2w whose jump word (word 3) takes the input bit at bit #w - both variants lead back into the loop."""
    n = rng.randrange(3, 12)
    base = 8
    dw = 2 * w
    slots = [base + 2 * i for i in range(2 * n)]
    scratch = slots[-1] + 4
    mem: Dict[int, int] = {}
    ring_order = slots[::2] if rng.random() < 0.5 else slots[:n]
    # op 0 -> input op at 2w -> (bit 0: entry_a / bit 1: entry_b) -> ... loop ... -> back to 2w
    entry_a = None
    for cand in range(base, base + 4 * n, 4):  # a slot pair (s, s+2) whose addresses differ exactly in bit #w
        if (cand * w) & dw == 0 and cand in ring_order or True:
            entry_a = cand
            break
    entry_a = entry_a - (entry_a * w & dw) // w if (entry_a * w) & dw else entry_a
    entry_b = entry_a + 2
    mem[0] = scratch * w + rng.randrange(w)
    mem[1] = dw
    mem[2] = (scratch + 1) * w + rng.randrange(w)   # flip word of the input op
    mem[3] = entry_a * w                              # its jump word: bit #w is overwritten by the input bit
    chain = [entry_a, entry_b] + [s for s in slots if s not in (entry_a, entry_b)][:n]
    for i, slot in enumerate(chain):
        r = rng.random()
        if r < 0.35:
            mem[slot] = dw + rng.randrange(2)          # output op (flips bit 0/1 of word 2 = the input op's flip word)
        else:
            mem[slot] = (scratch + rng.randrange(3)) * w + rng.randrange(w)
        nxt = chain[i + 1] if i + 1 < len(chain) else None
        if slot == entry_a:
            nxt = chain[2] if len(chain) > 2 else None
        mem[slot + 1] = (nxt * w) if nxt is not None else dw   # the last op returns to the input op
    return {'w': w, 'segments': [[0, scratch + 8]], 'mem': sorted([k, v] for k, v in mem.items() if v), 'geom': 'io-loop',
            'input': '', 'cuts': [5]}


def input_bit_for(call_index: int, salt: int) -> bool:
    x = ((call_index + 1) * 0x9E3779B1 ^ salt) & 0xFFFFFFFF
    x = (x * 0x85EBCA6B) & 0xFFFFFFFF
    return (x >> 15) & 1 == 1


def shard_async_python(spec: Dict[str, Any], journal: Any) -> Dict[str, Any]:
    """REAL asynchronous interrupts of the pure-Python loops: setitimer + a handler raising KeyboardInterrupt, at
    random delays, on endless IO loops. CPython delivers the signal only at its own eval-breaker points, so every
    observed stop is one the interpreter can really have. The state must equal a sub-step state of the next op."""
    from flipjump.interpreter import fjm_run

    rng = rng_for(spec['seed'], PROPERTY, 'async-python', spec['shard'])
    counters: Dict[str, Any] = {}
    violations: List[Dict[str, Any]] = []
    hashes: List[str] = []
    samples: List[Any] = []
    Device = engines.make_recording_device()

    def handler(signum: int, frame: Any) -> None:
        raise KeyboardInterrupt('fjverif async')

    old_alarm = signal.signal(signal.SIGALRM, handler)
    try:
        for index in range(spec['cases']):
            w = rng.choice([16, 32, 64])
            case = io_loop_case(rng, w)
            salt = rng.getrandbits(16)
            path = engines.tmpdir() / 'c18-ioloop.fjm'
            engines.write_case(case, path, 1)
            for trial in range(spec.get('trials', 60)):
                config = {'engine': rng.choice(['fast', 'featured']), 'ring': 5}
                delay = rng.uniform(0.0002, 0.004)
                journal.note({'case': case, 'config': config, 'delay': delay, 'salt': salt})

                def on_call(device: Any, d: str, idx: int) -> Any:
                    return input_bit_for(idx, salt) if d == 'r' else None

                device = Device(b'', on_call=on_call, atomic=True)
                engines.apply_env(config)
                stats = None
                escaped = False
                try:
                    signal.setitimer(signal.ITIMER_REAL, delay)
                    try:
                        stats = fjm_run.run(path, io_device=device, last_ops_debugging_list_length=5,
                                            profile=config['engine'] == 'featured')
                    finally:
                        signal.setitimer(signal.ITIMER_REAL, 0)
                except KeyboardInterrupt:
                    escaped = True
                finally:
                    engines.clear_env()
                label = engines.config_label(config)

                def bad(key: str, what: str) -> None:
                    violations.append({'key': key, 'what': f'{label}: {what}',
                                       'replay': {'kind': 'async-python', 'case': case, 'config': config, 'salt': salt, 'delay': delay}})

                if escaped:
                    if device.memory is None:
                        counters['interrupt_before_run_loop'] = counters.get('interrupt_before_run_loop', 0) + 1
                    else:
                        bad('async/interrupt-escaped-run', 'KeyboardInterrupt propagated out of fjm_run.run after the run loop started')
                    continue
                assert stats is not None
                counters['monitor_evaluations'] = counters.get('monitor_evaluations', 0) + 1
                counters['async_python_interrupts'] = counters.get('async_python_interrupts', 0) + 1
                if str(stats.termination_cause) != 'keyboard-interrupt':
                    bad('async/classification', f'cause {stats.termination_cause} after {stats.op_counter} ops on an endless loop')
                    continue
                k = int(stats.op_counter)
                if device.memory is None:
                    # interrupted inside run() but before the engine attached the memory: nothing may have been executed
                    counters['interrupt_before_attach'] = counters.get('interrupt_before_attach', 0) + 1
                    if k != 0 or device.calls:
                        bad('async/inconsistent-state', f'no memory attached yet, but {k} ops / {device.calls} IO calls reported')
                    continue
                ref = RefMachine(case['w'], [tuple(sg) for sg in case['segments']], {int(a): int(v) for a, v in case['mem']}, b'',
                                 ring_len=64, track=False)
                ref.read_hook = lambda machine: input_bit_for(machine.io_calls - 1, salt)
                if k:
                    ref.run(k)
                if ref.cause not in (None, 'cut'):
                    bad('async/op-count', f'reported {k} ops but the reference terminates ({ref.cause}) after {ref.ops}')
                    continue
                ref.cause = None
                words = sorted({int(a) for a, _ in case['mem']} | set(ref.mem))
                got_mem = engines.read_words(device, words)
                # the device log does not contain the scripted replies; compare the write events and the call count
                got_writes = [e for e in device.log if e[0] == 'w']
                ring = [int(a) for a in stats.last_ops_addresses]
                matched = False
                for io_log, mem, ring_has_ip in substates(ref):
                    if [e for e in io_log if e[0] == 'w'] != [tuple(e) for e in got_writes]:
                        continue
                    if len(io_log) != device.calls:
                        continue
                    if any(got_mem[wd] != mem.get(wd, 0) for wd in words):
                        continue
                    if ring != (ref.ring + ([ref.ip] if ring_has_ip else []))[-5:]:
                        continue
                    matched = True
                    break
                counters.setdefault('async_python_op_counts_seen', [])
                if len(counters['async_python_op_counts_seen']) < 40 and k not in counters['async_python_op_counts_seen']:
                    counters['async_python_op_counts_seen'].append(k)
                if not matched:
                    bad('async/inconsistent-state', f'reported {k} ops; device calls {device.calls}, writes {len(got_writes)}, ring {ring} '
                                                    f'match no sub-step of op {k + 1}')
                elif k:
                    hashes.append(case_hash([case, salt, k]))
            if len(samples) < 1:
                samples.append({'w': case['w'], 'loop_words': len(case['mem']), 'trials': spec.get('trials', 60),
                                'op_counts_seen': counters.get('async_python_op_counts_seen', [])[:10]})
    finally:
        signal.signal(signal.SIGALRM, old_alarm)
    engines.cleanup_tmpdir()
    return {'counters': counters, 'violations': violations[:40], 'hashes': hashes, 'samples': samples,
            'evaluations': counters.get('monitor_evaluations', 0)}


def run_shard(spec: Dict[str, Any], journal: Any) -> Dict[str, Any]:
    return {'sync': shard_sync, 'long-run': shard_long_run, 'async-native': shard_async_native, 'async-python': shard_async_python}[spec['kind']](spec, journal)


def replay_case(record: Dict[str, Any], journal: Any) -> Dict[str, Any]:
    counters: Dict[str, Any] = {}
    violations = []
    if record.get('kind') == 'sync':
        path = engines.tmpdir() / 'c18-replay.fjm'
        engines.write_case(record['case'], path, 1)
        res = judge_sync(record['case'], record['k'], record['fault'], record['config'], path, counters)
        if res is not None:
            violations.append({'key': res[0], 'what': res[1], 'replay': record})
    return {'counters': counters, 'violations': violations, 'evaluations': 1, 'hashes': []}


def shard_crash(spec: Dict[str, Any], res: Dict[str, Any]) -> Optional[Dict[str, Any]]:
    """a device failure or an interrupt that takes the whole interpreter process down (a fatal signal, not a timeout and not
    this harness's memory budget) did not stop the run "at a consistent point": the journal holds the case."""
    rc = res.get('rc')
    if isinstance(rc, int) and rc < 0 and res.get('journal'):
        return {'key': f'process-died/{spec.get("kind", "sync")}/signal{-rc}',
                'what': f'the worker died with signal {-rc} while handling a device failure / interrupt: {res.get("log_tail", "")[-200:]}',
                'replay': {'journal': res['journal']}}
    return None


def finalize(tier: str, seed: int, counters: Dict[str, Any], evaluations: int, distinct: int) -> Dict[str, Any]:
    inconclusive = []
    faults = counters.get('faults', {})
    for f in ('ioerr@r', 'ioerr@w', 'eof@r', 'eof@w', 'foreign@r', 'foreign@w', 'kbint@r', 'kbint@w', 'badbool@r'):
        if not faults.get(f):
            inconclusive.append(f'fault class {f} never injected')
    if counters.get('async_python_interrupts', 0) < 50:
        inconclusive.append(f'only {counters.get("async_python_interrupts", 0)} asynchronous interrupts landed in the Python loops')
    if not counters.get('runs_beyond_2^32_ops'):
        inconclusive.append('no run of more than 2^32 ops was interrupted')
    if len([k for k in counters.get('async_native_op_counts', []) if k > 0]) < 1:
        inconclusive.append('no native asynchronous interrupt landed after the first poll (op count > 0)')
    return {
        'coverage': {
            'rule': 'sync: for generated programs, EVERY IO call index k (<= 10 sampled when more) x fault kinds (library IO '
                    'error, IOReadOnEOF from read and from write, foreign exception, KeyboardInterrupt, non-bool reply whose '
                    '__bool__ raises, BaseException subclass) x 9 engine/storage/ring configurations, judged against the '
                    'reference machine stopped at the same call; async-native: endless generated loops interrupted by '
                    'setitimer/SIGINT from a helper process, state checked at the reported op count; async-python: '
                    'real setitimer-driven KeyboardInterrupt at random delays on endless IO loops in the fast and featured '
                    'loops (CPython delivers it only at its own eval-breaker points), state must equal a sub-step state of '
                    'the next op. evaluation = one faulted run',
        },
        'inconclusive': inconclusive,
        'assumptions': ['native signal polls happen every 2^18 ops (constant not overridable): asynchronous native interrupts '
                        'are observed only there; device-raised KeyboardInterrupt covers every op index',
                        'for exceptions that leave run(), op count and last-ops list are not observable (no statistics object)'],
    }
