"""C19 - devices see the same program memory under every engine (DESIGN 4, C19)."""

from __future__ import annotations

import hashlib
import random
from typing import Any, Callable, Dict, List, Optional, Tuple

from fjverif import engines, imagegen
from fjverif.common import case_hash, rng_for
from fjverif.refmachine import CUT, RefMachine

PROPERTY = 'C19'
LEVEL = 'exploration'
NATIVE_VARIANT = 'opt'
MAGIC64 = imagegen.MAGIC64

CONFIGS = [
    {'engine': 'featured'}, {'engine': 'fast'}, {'engine': 'native'}, {'engine': 'native', 'no_flat': True},
    {'engine': 'native', 'ring': 3}, {'engine': 'native', 'flat_max_words': 5}, {'engine': 'native', 'measure': True},
    {'engine': 'native', 'no_flat': True, 'ring': 2},
]


def plan(tier: str, seed: int) -> List[Dict[str, Any]]:
    quick = tier == 'quick'
    out = []
    for i in range(8 if quick else 32):
        out.append({'kind': 'script', 'seed': seed, 'shard': i, 'cases': 180 if quick else 1500, 'timeout_s': 1500 if quick else 7200})
    for i in range(4 if quick else 16):
        out.append({'kind': 'streams', 'seed': seed, 'shard': i, 'cases': 5000 if quick else 40000, 'timeout_s': 1500 if quick else 7200})
    for i in range(4 if quick else 16):
        out.append({'kind': 'programs', 'seed': seed, 'shard': i, 'cases': 40 if quick else 300, 'timeout_s': 1500 if quick else 7200})
    return out


# ------------------------------------------------------------------------------ (a) scripted device access during a run
def make_script(rng: random.Random, case: Dict[str, Any], n_calls: int) -> Dict[int, List[List[Any]]]:
    """per IO call index, a few memory accesses at in-segment addresses (code about to run, touched data, lazy zeros,
    far segments, both sides of window cuts and page edges)."""
    w = case['w']
    mask = (1 << w) - 1
    segs = case['segments']
    assigned = [int(a) for a, _ in case['mem']]
    script: Dict[int, List[List[Any]]] = {}

    def address() -> int:
        r = rng.random()
        if assigned and r < 0.45:
            base = rng.choice(assigned)
            return base + rng.choice([0, 0, 1, -1, 2])
        s, n = rng.choice(segs)
        return s + rng.choice([0, n - 1, rng.randrange(n), min(n - 1, rng.randrange(64))])

    def in_seg(a: int) -> bool:
        return any(s <= a < s + n for s, n in segs)

    for call in range(-1, n_calls):   # call -1 = inside attach_memory, before the first op
        if rng.random() < (0.35 if call >= 0 else 0.5):
            continue
        actions: List[List[Any]] = []
        for _ in range(rng.choice([1, 1, 2, 4])):
            a = address()
            if not in_seg(a):
                continue
            kind = rng.random()
            if kind < 0.4:
                actions.append(['rw', a])
            elif kind < 0.75:
                value = rng.choice([0, 1, mask, rng.getrandbits(w), MAGIC64 & mask, rng.getrandbits(w) | (1 << (w - 1)),
                                    rng.choice(assigned) * w if assigned else 0, (1 << 70) + 5])
                actions.append(['ww', a, value])
            elif w >= 16 and in_seg((a if rng.random() < 0.3 else (a & ~1)) + 1):
                # (the packed byte of the op at a bit address lives in the word after it: the address is usually an op's, i.e. an
                # even word, but any word-aligned address is an address)
                op_bit = (a if in_seg(a + 1) and rng.random() < 0.5 else (a & ~1)) * w
                if not in_seg(op_bit // w + 1):
                    continue
                if kind < 0.88:
                    actions.append(['rb', op_bit])
                else:
                    actions.append(['wb', op_bit, rng.getrandbits(9)])
        if actions:
            script[call] = actions
    return script


def apply_actions_model(m: RefMachine, actions: List[List[Any]], reads: List[int]) -> None:
    w = m.w
    dbit = w.bit_length()
    for act in actions:
        if act[0] == 'rw':
            reads.append(m.peek(act[1]))
        elif act[0] == 'ww':
            m.poke(act[1], act[2])
        elif act[0] == 'rb':
            reads.append((m.peek(act[1] // w + 1) >> dbit) & 0xFF)
        elif act[0] == 'wb':
            word = act[1] // w + 1
            m.poke(word, (m.peek(word) & ~(0xFF << dbit)) | ((act[2] & 0xFF) << dbit))


def apply_actions_device(memory: Any, actions: List[List[Any]], reads: List[int]) -> None:
    for act in actions:
        if act[0] == 'rw':
            reads.append(int(memory.read_word(act[1])))
        elif act[0] == 'ww':
            memory.write_word(act[1], act[2])
        elif act[0] == 'rb':
            reads.append(int(memory.read_data_byte(act[1])))
        elif act[0] == 'wb':
            memory.write_data_byte(act[1], act[2])


def reference_with_script(case: Dict[str, Any], script: Dict[int, List[List[Any]]], max_ops: int) -> Tuple[RefMachine, List[int]]:
    m = RefMachine(case['w'], [tuple(s) for s in case['segments']], {int(a): int(v) for a, v in case['mem']},
                   bytes.fromhex(case['input']), ring_len=64, track=True)
    reads: List[int] = []

    def read_hook(machine: RefMachine) -> Optional[bool]:
        apply_actions_model(machine, script.get(machine.io_calls - 1, []), reads)
        return None

    def write_hook(machine: RefMachine, bit: bool) -> None:
        apply_actions_model(machine, script.get(machine.io_calls - 1, []), reads)

    m.read_hook, m.write_hook = read_hook, write_hook
    apply_actions_model(m, script.get(-1, []), reads)   # what the device does when it is attached sees the loaded image
    m.run(max_ops)
    return m, reads


def shard_script(spec: Dict[str, Any], journal: Any) -> Dict[str, Any]:
    rng = rng_for(spec['seed'], PROPERTY, 'script', spec['shard'])
    counters: Dict[str, Any] = {}
    violations: List[Dict[str, Any]] = []
    hashes: List[str] = []
    samples: List[Any] = []
    Device = engines.make_recording_device()
    # ('top' is left to C01/C07: what happens one word past the 2^64-bit space is their known finding, not a device matter)
    geoms = ['compact', 'gaps', 'page-edge', 'cache-alias', 'window-cut', 'far', 'magic', 'many', 'w8', 'big-first']
    done = attempts = 0
    while done < spec['cases'] and attempts < spec['cases'] * 30:
        attempts += 1
        case = imagegen.generate_case(rng, geoms[attempts % len(geoms)], max_ops=2000)
        plain = imagegen.reference_run(case)
        if plain.io_calls == 0:
            continue
        script = make_script(rng, case, plain.io_calls + 4)
        ref, ref_reads = reference_with_script(case, script, 20000)
        if ref.cause == CUT:
            counters['scripts_made_program_endless'] = counters.get('scripts_made_program_endless', 0) + 1
            continue
        done += 1
        path = engines.tmpdir() / 'c19.fjm'
        engines.write_case(case, path, rng.randrange(4))
        words = sorted(wd for wd in (set(ref.touched) | {int(a) for a, _ in case['mem']} | set(ref.mem)) if ref.seg.contains(wd))
        cuts = [c for c in case.get('cuts', []) if c > 0] or [5]
        configs = CONFIGS + [{'engine': 'native', 'flat_max_words': rng.choice(cuts)}]
        for config in configs:
            from fjverif.checks.enginecmp import flat_window_is_harmless

            if not flat_window_is_harmless(case, config):
                continue
            reads: List[int] = []

            def on_call(device: Any, d: str, index: int) -> None:
                apply_actions_device(device.memory, script.get(index, []), reads)
                return None

            journal.note({'case': case, 'script': {str(k): v for k, v in script.items()}, 'config': config})
            device = Device(bytes.fromhex(case['input']), on_call=on_call)
            device.call_on_attach = True
            obs = engines.run_engine(path, config, device)
            if -1 in script:
                counters['runs_with_accesses_at_attach_time'] = counters.get('runs_with_accesses_at_attach_time', 0) + 1
            counters['monitor_evaluations'] = counters.get('monitor_evaluations', 0) + 1
            counters['device_accesses'] = counters.get('device_accesses', 0) + sum(len(v) for v in script.values())
            label = engines.config_label(config)
            storage = obs.get('storage') or config['engine']
            if obs.get('storage'):
                counters.setdefault('storage_modes', {})
                counters['storage_modes'][obs['storage']] = counters['storage_modes'].get(obs['storage'], 0) + 1

            def bad(field: str, what: str) -> None:
                violations.append({'key': f'script/{config["engine"]}{"-" + storage if config["engine"] == "native" else ""}/{field}',
                                   'what': f'{label}: {what}',
                                   'replay': {'kind': 'script', 'case': case, 'script': {str(k): v for k, v in script.items()},
                                              'config': config}})

            if reads != ref_reads[:len(reads)] or len(reads) != len(ref_reads):
                first = next((i for i, (g, wnt) in enumerate(zip(reads, ref_reads)) if g != wnt), min(len(reads), len(ref_reads)))
                bad('device-read-value', f'device read #{first}: got {reads[first:first + 1]} want {ref_reads[first:first + 1]} '
                                         f'({len(reads)} reads vs {len(ref_reads)})')
                continue
            if (obs['cause'], obs['ops']) != (ref.cause, ref.ops):
                bad('outcome-after-device-writes', f'got {obs["cause"]}/{obs["ops"]} ops want {ref.cause}/{ref.ops} '
                                                   f'(a device write was not seen by later ops?) {obs.get("exc")}')
                continue
            if ref.fault_address is not None and obs['fault'] != ref.fault_address and not (
                    case['w'] == 64 and ref.fault_address >= 1 << 64):
                bad('fault-address', f'got {obs["fault"]} want {ref.fault_address}')
            if [tuple(e) for e in device.log] != ref.io_log:
                bad('io-log', f'got {device.log[-4:]} want {ref.io_log[-4:]}')
            got = engines.read_words(device, words)
            diff = [(wd, got[wd], ref.peek(wd)) for wd in words if got[wd] != ref.peek(wd)]
            counters['memory_words_compared'] = counters.get('memory_words_compared', 0) + len(words)
            if diff:
                bad('final-memory', f'{diff[:3]}')
        hashes.append(case_hash([case, sorted(script.items())]))
        if len(samples) < 1:
            samples.append({'w': case['w'], 'geom': case['geom'], 'io_calls': plain.io_calls,
                            'script': {str(k): v for k, v in list(script.items())[:3]}, 'device_reads': ref_reads[:6]})
    engines.cleanup_tmpdir()
    return {'counters': counters, 'violations': violations[:50], 'hashes': hashes, 'samples': samples,
            'evaluations': counters.get('monitor_evaluations', 0)}


# ------------------------------------------------------------------------------ (b) the screen's documented layout: a model
class DeviceError(Exception):
    """the model's 'reject with a device error'."""


class Oversized(Exception):
    """an init command (possibly parsed out of random bytes) asks for more pixels than this harness is willing to allocate -
    on either side: the stream is cut before that byte."""


MAX_PIXELS = 1 << 16


class ModelScreen:
    """independent decoder of the documented command stream (ScreenIO module docstring)."""

    def __init__(self, w: int, read_word: Optional[Callable[[int], int]]):
        self.w = w
        self.read_word = read_word
        self.width = self.height = 0
        self.bpp = 8
        self.palette: List[Tuple[int, int, int]] = []
        self.palette_size = 0
        self.pixels: List[int] = []
        self.frames: List[str] = []
        self.buf: List[int] = []
        self.last_rgb: List[Tuple[int, int, int]] = []

    def packed(self, op_bit_address: int) -> int:
        if self.read_word is None:
            raise DeviceError('not attached')
        word = op_bit_address // self.w + 1
        return (self.read_word(word) >> self.w.bit_length()) & 0xFF

    def need(self) -> int:
        cmd = self.buf[0]
        ab = self.w // 8
        if cmd == 1:
            return 8
        if cmd in (2, 3):
            if self.read_word is None:
                raise DeviceError('not attached')
            return 1 + ab
        if cmd == 4:
            if self.read_word is None:
                raise DeviceError('not attached')
            return 9 + ab
        if cmd == 5:
            if not (self.width and self.height):
                raise DeviceError('raw before init')
            return 1 + self.width * self.height
        raise DeviceError('unknown command')

    def feed(self, byte: int) -> None:
        self.buf.append(byte)
        if len(self.buf) < self.need():
            return
        cmd, p = self.buf[0], self.buf[1:]
        self.buf = []
        u16 = lambda o: p[o] | (p[o + 1] << 8)  # noqa: E731
        addr = lambda o: sum(p[o + i] << (8 * i) for i in range(self.w // 8))  # noqa: E731
        dw = 2 * self.w
        if cmd == 1:
            width, height, bpp, psize = u16(0), u16(2), p[4], u16(5)
            if bpp not in (4, 8) or width == 0 or height == 0:
                raise DeviceError('bad init')
            if width * height > MAX_PIXELS:
                self.buf = [cmd] + p[:-1]
                raise Oversized()
            self.width, self.height, self.bpp, self.palette_size = width, height, bpp, psize
            self.palette = [(0, 0, 0)] * psize
            self.pixels = [0] * (width * height)
        elif cmd == 2:
            base = addr(0)
            self.palette = [tuple(self.packed(base + (3 * k + c) * dw) for c in range(3)) for k in range(self.palette_size)]  # type: ignore[misc]
        elif cmd == 3:
            if not (self.width and self.height):
                raise DeviceError('update before init')
            base = addr(0)
            mask = (1 << self.bpp) - 1
            self.pixels = [self.packed(base + i * dw) & mask for i in range(self.width * self.height)]
            self.present()
        elif cmd == 4:
            if not (self.width and self.height):
                raise DeviceError('update before init')
            x, y, rw, rh, base = u16(0), u16(2), u16(4), u16(6), addr(8)
            if x + rw > self.width or y + rh > self.height:
                raise DeviceError('rectangle outside the screen')
            mask = (1 << self.bpp) - 1
            for row in range(rh):
                for col in range(rw):
                    pix = (y + row) * self.width + x + col
                    self.pixels[pix] = self.packed(base + pix * dw) & mask
            self.present()
        elif cmd == 5:
            mask = (1 << self.bpp) - 1
            self.pixels = [b & mask for b in p]
            self.present()

    def present(self) -> None:
        pal = b''.join(bytes(c) for c in self.palette)
        self.frames.append(hashlib.sha256(bytes(self.pixels) + pal).hexdigest())
        self.last_rgb = self.rgb()  # expanded when the frame is presented, with the palette of that moment

    def rgb(self) -> List[Tuple[int, int, int]]:
        return [self.palette[i] if i < len(self.palette) else (0, 0, 0) for i in self.pixels]


def gen_stream(rng: random.Random, w: int, mem_words: int) -> List[int]:
    """a command byte stream: mostly well-formed, with malformed pieces sprinkled in."""
    ab = w // 8
    out: List[int] = []
    width, height = rng.choice([(1, 1), (2, 3), (4, 4), (8, 2), (3, 5), (16, 1)])
    psize = rng.choice([0, 1, 2, 4, 16, 15, 14, 255, 256, 254])

    def addr_bytes(op_index: int) -> List[int]:
        a = op_index * 2 * w
        if rng.random() < 0.05:
            a = rng.getrandbits(8 * ab)
        return [(a >> (8 * i)) & 0xFF for i in range(ab)]

    def u16(v: int) -> List[int]:
        return [v & 0xFF, (v >> 8) & 0xFF]

    n_cmds = rng.randrange(1, 9)
    if rng.random() < 0.85:
        bpp = rng.choice([4, 8, 8, 4]) if rng.random() < 0.93 else rng.choice([0, 1, 2, 16, 255])
        if rng.random() < 0.04:
            width = 0
        out += [1] + u16(width) + u16(height) + [bpp] + u16(psize)
    max_op = max(1, mem_words // 2 - width * height - 3 * psize - 2)
    for _ in range(n_cmds):
        r = rng.random()
        if r < 0.2:
            out += [2] + addr_bytes(rng.randrange(max_op))
        elif r < 0.45:
            out += [3] + addr_bytes(rng.randrange(max_op))
        elif r < 0.7:
            x, y = rng.randrange(0, max(1, width)), rng.randrange(0, max(1, height))
            rw_, rh_ = rng.randrange(0, width - x + 1) if width else 0, rng.randrange(0, height - y + 1) if height else 0
            if rng.random() < 0.12:
                rw_ += rng.choice([1, 2, 65535 - x])
            out += [4] + u16(x) + u16(y) + u16(rw_ & 0xFFFF) + u16(rh_) + addr_bytes(rng.randrange(max_op))
        elif r < 0.85:
            out += [5] + [rng.choice([0xFF, 0x0F, 0xFE, 0x0E, rng.getrandbits(8)]) for _ in range(width * height)]
        elif r < 0.92:
            w2, h2 = rng.choice([(1, 2), (5, 1), (2, 2)])
            width, height = w2, h2
            psize = rng.choice([0, 3, 5])
            out += [1] + u16(w2) + u16(h2) + [rng.choice([4, 8])] + u16(psize)
        elif r < 0.96:
            out += [rng.choice([0, 6, 7, 0x80, 0xFF])]
        else:
            out += [rng.getrandbits(8) for _ in range(rng.randrange(1, 6))]
    if rng.random() < 0.15 and out:
        out = out[:rng.randrange(len(out))]
    return out


def shard_streams(spec: Dict[str, Any], journal: Any) -> Dict[str, Any]:
    from flipjump.interpreter.io_devices.ScreenIO import InMemoryScreen
    from flipjump.interpreter.io_devices.device_memory import DeviceMemory
    from flipjump.utils.exceptions import IODeviceException

    class DictMemory(DeviceMemory):
        def __init__(self, w: int, words: Dict[int, int]):
            self.memory_width = w
            self.words = words

        def read_word(self, word_address: int) -> int:
            return self.words.get(word_address, 0)

        def write_word(self, word_address: int, value: int) -> None:
            self.words[word_address] = value & ((1 << self.memory_width) - 1)

    rng = rng_for(spec['seed'], PROPERTY, 'streams', spec['shard'])
    counters: Dict[str, Any] = {}
    violations: List[Dict[str, Any]] = []
    hashes: List[str] = []
    samples: List[Any] = []
    for index in range(spec['cases']):
        w = rng.choice([16, 32, 64])
        mem_words = rng.choice([64, 200, 600])
        words = {a: rng.getrandbits(w) for a in range(mem_words) if rng.random() < 0.8}
        stream = gen_stream(rng, w, mem_words)
        attached = rng.random() < 0.93
        journal.note({'w': w, 'stream': stream, 'attached': attached})
        screen = InMemoryScreen()
        if attached:
            screen.attach_memory(DictMemory(w, words))
        model = ModelScreen(w, (lambda a: words.get(a, 0)) if attached else None)
        model_error_at = real_error_at = None
        real_exc: Optional[BaseException] = None
        for pos, byte in enumerate(stream):
            try:
                model.feed(byte)
            except DeviceError:
                model_error_at = pos
            except Oversized:
                counters['streams_cut_before_an_oversized_screen'] = counters.get('streams_cut_before_an_oversized_screen', 0) + 1
                break
            try:
                for k in range(8):
                    screen.write_bit(bool((byte >> k) & 1))
            except IODeviceException:
                real_error_at = pos
            except Exception as exc:  # noqa: B902
                real_error_at, real_exc = pos, exc
            if model_error_at is not None or real_error_at is not None:
                break
        counters['monitor_evaluations'] = counters.get('monitor_evaluations', 0) + 1
        counters['streams'] = counters.get('streams', 0) + 1
        counters['stream_frames'] = counters.get('stream_frames', 0) + len(model.frames)
        if model_error_at is not None:
            counters['streams_malformed'] = counters.get('streams_malformed', 0) + 1

        def bad(key: str, what: str) -> None:
            violations.append({'key': f'screen/{key}', 'what': f'w={w}: {what}',
                               'replay': {'kind': 'stream', 'w': w, 'stream': stream, 'attached': attached, 'words': sorted(words.items())}})

        if real_exc is not None:
            bad(f'non-device-exception/{type(real_exc).__name__}', f'byte {real_error_at}: {real_exc!r}')
        elif model_error_at != real_error_at:
            bad('accepts-malformed-stream' if real_error_at is None else 'rejects-wellformed-stream',
                f'model rejects at byte {model_error_at}, device at {real_error_at}; stream {stream[:24]}')
        else:
            got_frames = [h for _, h in screen.frame_hashes]
            if got_frames != model.frames or screen.frame_count != len(model.frames):
                bad('frame-sequence', f'{len(got_frames)} frames vs model {len(model.frames)}; first diff at '
                                      f'{next((i for i, (a, b) in enumerate(zip(got_frames, model.frames)) if a != b), None)}')
            elif model_error_at is None and (screen.pixel_indices != model.pixels or list(screen.palette) != list(model.palette)):
                bad('pixels-or-palette', f'pixels {screen.pixel_indices[:8]} vs {model.pixels[:8]}')
            elif model.frames and screen.last_frame_rgb != model.last_rgb and model_error_at is None:
                bad('rgb-expansion', 'last_frame_rgb differs from palette lookup')
        if model.frames:
            hashes.append(case_hash([w, stream]))
        if index == 0:
            samples.append({'w': w, 'stream_bytes': stream[:40], 'frames': len(model.frames), 'malformed_at': model_error_at})
    return {'counters': counters, 'violations': violations[:40], 'hashes': hashes, 'samples': samples,
            'evaluations': counters.get('monitor_evaluations', 0)}


# ------------------------------------------------------------------------------ (c) programs that drive the screen
def screen_program(rng: random.Random, w: int) -> Tuple[Dict[str, Any], Dict[str, Any]]:
    """a straight-line program that emits a command stream bit by bit (one output op per bit) and, between
    commands, flips bits of its own framebuffer / palette (so frames depend on live memory)."""
    width, height = rng.choice([(2, 2), (3, 2), (4, 1), (2, 3)])
    psize = rng.choice([2, 4, 16])
    bpp = rng.choice([4, 8])
    dbit = w.bit_length()
    ab = w // 8
    dw = 2 * w
    ops: List[Tuple[int, Optional[int]]] = []  # (flip address, None -> next)

    fb_ops = width * height
    pal_ops = 3 * psize
    far = w == 64 and rng.random() < 0.5
    # layout: [code ...][framebuffer ops][palette ops]; data regions are ops too (flip=0; jump word holds the byte)
    stream: List[int] = []

    def u16(v: int) -> List[int]:
        return [v & 0xFF, v >> 8]

    plan: List[Any] = [('bytes', [1] + u16(width) + u16(height) + [bpp] + u16(psize)), ('cmd', 2), ('cmd', 3)]
    for _ in range(rng.randrange(2, 6)):
        plan.append(('flip', None))
        r = rng.random()
        if r < 0.4:
            plan.append(('cmd', 3))
        elif r < 0.7:
            x, y = rng.randrange(width), rng.randrange(height)
            plan.append(('rect', x, y, rng.randrange(0, width - x + 1), rng.randrange(0, height - y + 1)))
        elif r < 0.85:
            plan.append(('cmd', 2))
            plan.append(('cmd', 3))
        else:
            plan.append(('bytes', [5] + [rng.getrandbits(8) for _ in range(fb_ops)]))
    # count code ops to place data
    def n_ops(item: Any) -> int:
        if item[0] == 'bytes':
            return 8 * len(item[1])
        if item[0] == 'cmd':
            return 8 * (1 + ab)
        if item[0] == 'rect':
            return 8 * (9 + ab)
        return rng_flip_count

    rng_flip_count = 3
    code_ops = sum(n_ops(it) for it in plan) + 2
    code_words = 2 * code_ops
    if far:
        data_start = (1 << rng.choice([24, 30, 40])) + 2 * rng.randrange(0, 1000)
    else:
        data_start = code_words + 2 * rng.choice([0, 1, 2, 600, 1100])
    fb_base = data_start
    pal_base = data_start + 2 * fb_ops
    data_words = 2 * (fb_ops + pal_ops)
    mem: Dict[int, int] = {}
    for i in range(fb_ops + pal_ops):
        mem[data_start + 2 * i + 1] = (rng.getrandbits(8) << dbit) | rng.getrandbits(dbit - 1)
    code: List[int] = []  # flip addresses, one op each, chained

    def emit_byte(b: int) -> None:
        for k in range(8):
            code.append(dw + ((b >> k) & 1))

    def emit_addr(word: int) -> None:
        a = word * w
        for i in range(ab):
            emit_byte((a >> (8 * i)) & 0xFF)

    for item in plan:
        if item[0] == 'bytes':
            for b in item[1]:
                emit_byte(b)
        elif item[0] == 'cmd':
            emit_byte(item[1])
            emit_addr(pal_base if item[1] == 2 else fb_base)
        elif item[0] == 'rect':
            emit_byte(4)
            for v in item[1:]:
                emit_byte(v & 0xFF)
                emit_byte(v >> 8)
            emit_addr(fb_base)
        else:
            for _ in range(rng_flip_count):
                target = rng.randrange(fb_ops + pal_ops)
                code.append((data_start + 2 * target + 1) * w + dbit + rng.randrange(8))
    assert len(code) <= code_ops - 1
    # ops are laid out at slots 0, 2, 3, 4, ...: slot 1 (words 2,3) is the IO area and is skipped
    slots = [0] + list(range(2, len(code) + 2))
    for i, flip in enumerate(code):
        slot = slots[i]
        mem[2 * slot] = flip
        mem[2 * slot + 1] = (2 * slots[i + 1] * w) if i + 1 < len(code) else 2 * slot * w  # last op: halt
    segments = [[0, max(code_words, 2 * (slots[len(code) - 1] + 1)) + 2]]
    if far or data_start >= segments[0][1]:
        if data_start < segments[0][1]:
            segments[0][1] = data_start + data_words
        else:
            segments.append([data_start, data_words])
    else:
        segments[0][1] = max(segments[0][1], data_start + data_words)
    case = {'w': w, 'segments': segments, 'mem': sorted([k, v] for k, v in mem.items() if v), 'geom': 'screen-program',
            'input': '', 'cuts': [5, code_words // 2 + 1]}
    del stream
    return case, {'width': width, 'height': height, 'bpp': bpp, 'psize': psize, 'far': far}


def shard_programs(spec: Dict[str, Any], journal: Any) -> Dict[str, Any]:
    from flipjump.interpreter.io_devices.ScreenIO import InMemoryScreen

    rng = rng_for(spec['seed'], PROPERTY, 'programs', spec['shard'])
    counters: Dict[str, Any] = {}
    violations: List[Dict[str, Any]] = []
    hashes: List[str] = []
    samples: List[Any] = []
    for index in range(spec['cases']):
        w = rng.choice([16, 32, 64])
        case, meta = screen_program(rng, w)
        # the reference: the machine's output bytes are decoded by the model screen against the machine's memory
        ref = RefMachine(case['w'], [tuple(s) for s in case['segments']], {int(a): int(v) for a, v in case['mem']}, b'', track=True)
        model = ModelScreen(w, ref.peek)
        bits: List[int] = []

        def write_hook(machine: RefMachine, bit: bool) -> None:
            bits.append(int(bit))
            if len(bits) == 8:
                byte = sum(b << k for k, b in enumerate(bits))
                del bits[:]
                model.feed(byte)

        ref.write_hook = write_hook
        ref.run(400000)
        if ref.cause != 'looping':
            counters['screen_program_generator_failures'] = counters.get('screen_program_generator_failures', 0) + 1
            continue
        path = engines.tmpdir() / 'c19-screen.fjm'
        engines.write_case(case, path, rng.randrange(4))
        for config in CONFIGS + [{'engine': 'native', 'flat_max_words': case['cuts'][1]}]:
            journal.note({'case': case, 'config': config})
            screen = InMemoryScreen()
            obs = engines.run_engine(path, config, screen)
            counters['monitor_evaluations'] = counters.get('monitor_evaluations', 0) + 1
            counters['screen_frames_compared'] = counters.get('screen_frames_compared', 0) + len(model.frames)
            label = engines.config_label(config)

            def bad(field: str, what: str) -> None:
                violations.append({'key': f'screen-program/{config["engine"]}/{field}', 'what': f'{label}: {what}',
                                   'replay': {'kind': 'program', 'case': case, 'config': config}})

            if obs['cause'] != 'looping' or obs['ops'] != ref.ops:
                bad('outcome', f'{obs["cause"]}/{obs["ops"]} want looping/{ref.ops} {obs.get("exc")}')
                continue
            got = [h for _, h in screen.frame_hashes]
            if got != model.frames:
                bad('frame-sequence', f'{len(got)} frames, model {len(model.frames)}; first differing frame '
                                      f'{next((i for i, (a, b) in enumerate(zip(got, model.frames)) if a != b), None)}')
            elif screen.pixel_indices != model.pixels or list(screen.palette) != list(model.palette):
                bad('pixels-or-palette', 'final pixels/palette differ')
        # the complete headless 'pc' device (scripted keyboard + screen writing PNG frames) must present the same frames
        try:
            from flipjump.interpreter.io_devices.pygame_window import PcIO

            frames_dir = engines.tmpdir() / f'frames{index}'
            events = engines.tmpdir() / 'events.txt'
            events.write_text('# no key events\n3, down, 65\n')
            pc = PcIO.headless(events, frames_dir)
            obs = engines.run_engine(path, {'engine': rng.choice(['native', 'fast'])}, pc)
            counters['pcio_headless_runs'] = counters.get('pcio_headless_runs', 0) + 1
            got = [h for _, h in pc._screen.frame_hashes]
            pngs = sorted(frames_dir.glob('frame_*.png')) if frames_dir.exists() else []
            if obs['cause'] != 'looping' or got != model.frames or len(pngs) != len(model.frames):
                violations.append({'key': 'screen-program/pcio-headless/frame-sequence',
                                   'what': f'PcIO.headless: cause {obs["cause"]}, {len(got)} frames / {len(pngs)} png files, model {len(model.frames)}',
                                   'replay': {'kind': 'program', 'case': case}})
            elif pngs and pngs[0].read_bytes()[:8] != b'\x89PNG\r\n\x1a\n':
                violations.append({'key': 'screen-program/pcio-headless/png-signature', 'what': 'frame file is not a PNG',
                                   'replay': {'kind': 'program', 'case': case}})
        except ImportError:
            counters['pcio_headless_unavailable'] = counters.get('pcio_headless_unavailable', 0) + 1
        if model.frames:
            hashes.append(case_hash(case))
        if len(samples) < 1:
            samples.append({**meta, 'w': w, 'ops': ref.ops, 'frames': len(model.frames), 'segments': case['segments']})
    engines.cleanup_tmpdir()
    return {'counters': counters, 'violations': violations[:40], 'hashes': hashes, 'samples': samples,
            'evaluations': counters.get('monitor_evaluations', 0)}


def run_shard(spec: Dict[str, Any], journal: Any) -> Dict[str, Any]:
    return {'script': shard_script, 'streams': shard_streams, 'programs': shard_programs}[spec['kind']](spec, journal)


def replay_case(record: Dict[str, Any], journal: Any) -> Dict[str, Any]:
    return {'counters': {}, 'violations': [], 'evaluations': 1, 'hashes': [],
            'inconclusive': ['C19 replay files carry the full case; re-run with the recorded seed to reproduce']}


def finalize(tier: str, seed: int, counters: Dict[str, Any], evaluations: int, distinct: int) -> Dict[str, Any]:
    inconclusive = []
    for key, floor in (('device_accesses', 500), ('streams', 1000), ('stream_frames', 300), ('streams_malformed', 50),
                       ('screen_frames_compared', 100), ('memory_words_compared', 1000)):
        if counters.get(key, 0) < floor:
            inconclusive.append(f'{key}={counters.get(key, 0)} below floor {floor}')
    for mode in ('flat', 'hybrid', 'paged'):
        if not counters.get('storage_modes', {}).get(mode):
            inconclusive.append(f'storage mode {mode} never observed with a scripted device')
    return {
        'coverage': {
            'rule': '(a) generated programs whose IO calls trigger scripted DeviceMemory word/packed-byte reads and writes at '
                    'in-segment addresses (code about to run, touched data, lazy zeros, far segments, magic values) on 9 '
                    'engine/storage configurations; every value read, the outcome after device writes and the final memory '
                    'must equal the reference machine running the same script. (b) random/structure-aware screen command '
                    'streams over a dict-backed memory at w=16/32/64 against an independent decoder of the documented '
                    'layout (frames, pixels, palette, rejection point). (c) generated screen-driving programs, frame '
                    'hashes compared across engines and with the model. evaluation = one run or one stream',
        },
        'inconclusive': inconclusive,
        'assumptions': ['interactive pygame devices are out of reach (pygame not installed); headless InMemoryScreen only',
                        'device writes outside every segment are unspecified and not generated'],
    }
