"""C02 - the assembled image equals the denotation of the macro-free source (DESIGN 4, C02)."""

from __future__ import annotations

import contextlib
import io
import random
from pathlib import Path
from typing import Any, Dict, List, Optional, Tuple

from fjverif import engines, primgen
from fjverif.common import case_hash, rng_for

PROPERTY = 'C02'
LEVEL = 'exploration'
NATIVE_VARIANT = None


def plan(tier: str, seed: int) -> List[Dict[str, Any]]:
    quick = tier == 'quick'
    n, per = (16, 260) if quick else (64, 6000)
    out = [{'seed': seed, 'shard': i, 'cases': per, 'timeout_s': 1500 if quick else 7200} for i in range(n)]
    for spec in out[3::4]:   # (python -O strips assert statements and sets __debug__ to False)
        spec['env'] = {'PYTHONOPTIMIZE': '1'}
    return out


def assemble(prog: primgen.Program, version: int, tag: str = 'c02') -> Tuple[str, Any, Any]:
    import flipjump
    from flipjump.fjm.fjm_consts import FJMVersion
    from flipjump.fjm.fjm_reader import Reader
    from flipjump.utils.functions import load_debugging_labels

    src = engines.tmpdir() / f'{tag}.fj'
    out = engines.tmpdir() / f'{tag}.fjm'
    dbg = engines.tmpdir() / f'{tag}.fjd'
    src.write_text(prog.text())
    for p in (out, dbg):
        if p.exists():
            p.unlink()
    try:
        with contextlib.redirect_stdout(io.StringIO()):
            flipjump.assemble([src], out, memory_width=prog.w, use_stl=False, fjm_version=FJMVersion(version), print_time=False,
                              warning_as_errors=True, debugging_file_path=dbg)
    except flipjump.FlipJumpException as exc:
        return 'rejected', exc, None
    except BaseException as exc:  # noqa: B902
        return 'raw', exc, None
    try:
        reader = Reader(out)
    except flipjump.FlipJumpException as exc:
        return 'unloadable', exc, None   # the assembler accepted the program and wrote an image its own reader refuses
    return 'ok', reader, load_debugging_labels(dbg)


def judge(prog: primgen.Program, version: int, counters: Dict[str, Any]) -> List[Tuple[str, str]]:
    from flipjump.utils.exceptions import FlipJumpRuntimeMemoryException

    model = prog.model
    w = prog.w
    status, reader, labels = assemble(prog, version)
    counters['monitor_evaluations'] = counters.get('monitor_evaluations', 0) + 1
    counters.setdefault('assembly', {})
    counters['assembly'][status] = counters['assembly'].get(status, 0) + 1
    out: List[Tuple[str, str]] = []
    if status == 'raw':
        return [(f'raw-exception/{type(reader).__name__}', f'{reader!r}')]
    if status == 'unloadable':
        return [('assembled-image-refused-by-reader', f'assembly succeeded but the written .fjm does not load: {str(reader)[:200]}'
                                                       + (f' (the layout is impossible: {model.impossible})' if model.impossible else ''))]
    if model.impossible:
        counters['impossible_layouts'] = counters.get('impossible_layouts', 0) + 1
        if status == 'ok':
            return [(f'impossible-layout-assembled/{model.impossible[0].split(":")[0]}', f'layout is impossible ({model.impossible}) but the program assembled')]
        counters['impossible_rejected'] = counters.get('impossible_rejected', 0) + 1
        return []
    if status == 'rejected':
        counters['possible_but_rejected'] = counters.get('possible_but_rejected', 0) + 1
        counters.setdefault('possible_but_rejected_messages', [])
        text = str(reader).splitlines()[0][:90] if str(reader) else ''
        if len(counters['possible_but_rejected_messages']) < 6 and text not in counters['possible_but_rejected_messages']:
            counters['possible_but_rejected_messages'].append(text)
        # (the model does not place the wflip auxiliary ops and does not bound every operand: over-rejection is counted only)
        return []

    def word(a: int) -> Optional[int]:
        try:
            return reader.get_word(a * w)
        except FlipJumpRuntimeMemoryException:
            return None

    # (a) statement words
    for wa, expected in sorted(model.words.items()):
        got = word(wa)
        counters['words_checked'] = counters.get('words_checked', 0) + 1
        if got != expected:
            role = 'flip' if wa % 2 == 0 else 'jump'
            out.append((f'statement-word/{role}', f'word {wa:#x} ({role} of statement {model.word_owner[wa]}): got '
                                                  f'{got if got is None else hex(got)} want {expected:#x}'))
            break
    # (b) labels
    for name, address in model.labels.items():
        counters['labels_checked'] = counters.get('labels_checked', 0) + 1
        if labels.get(name) != address:
            out.append(('label-address', f'label {name}: table says {labels.get(name)} want {address}'))
            break
    # (c) reserved ranges are inside a segment and zero
    for first, count in model.reserved:
        probes = range(first, first + count) if count <= 64 else [first, first + 1, first + count // 2, first + count - 1]
        for wa in probes:
            counters['reserved_words_checked'] = counters.get('reserved_words_checked', 0) + 1
            got = word(wa)
            if got != 0:
                out.append(('reserved-word', f'reserved word {wa:#x}: got {got} want 0 inside a segment'))
                break
    # (d) wflip obligations, judged by executing the loaded image
    protected = set(model.used)
    for wf in model.wflips:
        res = check_wflip(wf, w, word, protected, counters)
        if res is not None:
            out.append(res)
            break
    return out


def check_wflip(wf: Dict[str, int], w: int, word: Any, protected: set, counters: Dict[str, Any]) -> Optional[Tuple[str, str]]:
    """follow the chain from the statement's address in the loaded image: the flips must be exactly the set bits of v
    at a, each once, in popcount(v) ops (one op when v == 0), ending at r; auxiliary ops must not sit on user
    statements or reserved space."""
    addr, a, v, r = wf['addr'], wf['a'], wf['v'], wf['r']
    dw = 2 * w
    want = sorted(a + i for i in range(w) if (v >> i) & 1)
    n_expected = max(1, len(want))
    ip = addr
    flips: List[int] = []
    ops: List[int] = []
    for _ in range(n_expected + 2):
        if ip % dw:
            return ('wflip/unaligned-chain', f'wflip at {addr:#x}: chain reaches unaligned address {ip:#x}')
        f, j = word(ip // w), word(ip // w + 1)
        if f is None or j is None:
            return ('wflip/chain-leaves-memory', f'wflip at {addr:#x}: chain op at {ip:#x} is outside every segment')
        ops.append(ip)
        flips.append(f)
        ip = j
        if ip == r and len(ops) >= n_expected:
            break  # (r may coincide with an auxiliary op - e.g. a trailing `wflip a, v` returns to $ = the wflip area -
            #          so reaching r earlier than the expected op count does not end the walk)
    counters['wflips_checked'] = counters.get('wflips_checked', 0) + 1
    own_words = {x // w + k for x in ops for k in (0, 1)}
    if any(fl // w in own_words for fl in want):
        counters['wflips_self_modifying_skipped'] = counters.get('wflips_self_modifying_skipped', 0) + 1
        return None  # the user asked to flip the chain's own ops: behaviour is the program's business
    if ip != r:
        return ('wflip/does-not-return', f'wflip at {addr:#x} (a={a:#x} v={v:#x} r={r:#x}): after {len(ops)} ops the chain is at {ip:#x}')
    if v == 0:
        if len(ops) != 1 or flips != [0]:
            return ('wflip/zero-value', f'wflip at {addr:#x} with v=0: ops={len(ops)} flips={flips}')
        return None
    if sorted(flips) != want:
        return ('wflip/wrong-flips', f'wflip at {addr:#x} (a={a:#x} v={v:#x}): flipped {sorted(map(hex, flips))[:6]} want '
                                     f'{list(map(hex, want))[:6]}')
    if len(ops) != len(want):
        return ('wflip/op-count', f'wflip at {addr:#x}: {len(ops)} ops for {len(want)} set bits')
    for aux in ops[1:]:
        if aux // w in protected or aux // w + 1 in protected:
            return ('wflip/auxiliary-op-overlaps-user-space', f'wflip at {addr:#x}: auxiliary op at {aux:#x} sits on a statement or reserved word')
    if len(ops) > 1:
        counters['wflip_chains_with_aux_ops'] = counters.get('wflip_chains_with_aux_ops', 0) + 1
    return None


def run_shard(spec: Dict[str, Any], journal: Any) -> Dict[str, Any]:
    rng = rng_for(spec['seed'], PROPERTY, spec['shard'])
    counters: Dict[str, Any] = {}
    violations: List[Dict[str, Any]] = []
    hashes: List[str] = []
    samples: List[Any] = []
    for index in range(spec['cases']):
        prog = primgen.misaligned_layout(rng) if index % 12 == 7 else primgen.generate(rng)
        version = rng.randrange(4)
        journal.note({'text': prog.text(), 'w': prog.w, 'version': version})
        found = judge(prog, version, counters)
        counters.setdefault('widths', {})
        counters['widths'][str(prog.w)] = counters['widths'].get(str(prog.w), 0) + 1
        if prog.meta['flaw']:
            counters.setdefault('flaws', {})
            counters['flaws'][prog.meta['flaw']] = counters['flaws'].get(prog.meta['flaw'], 0) + 1
        for key, what in found:
            if sum(1 for v in violations if v['key'] == key) < 3:
                violations.append({'key': key, 'what': f'w={prog.w} v{version}: {what}',
                                   'replay': {'text': prog.text(), 'w': prog.w, 'version': version, 'impossible': prog.model.impossible,
                                              'words': sorted(prog.model.words.items())[:40], 'wflips': prog.model.wflips,
                                              'labels': prog.model.labels, 'reserved': prog.model.reserved}})
        if len(prog.model.words) >= 6:
            hashes.append(case_hash(prog.text()))
        if len(samples) < 1 and len(prog.lines) > 5:
            samples.append({'w': prog.w, 'source': prog.lines[:14], 'expected_words': sorted(prog.model.words.items())[:8],
                            'wflips': prog.model.wflips[:2]})
    engines.cleanup_tmpdir()
    return {'counters': counters, 'violations': violations, 'hashes': hashes, 'samples': samples,
            'evaluations': counters.get('monitor_evaluations', 0)}


def replay_case(record: Dict[str, Any], journal: Any) -> Dict[str, Any]:
    return {'counters': {}, 'violations': [], 'evaluations': 1, 'hashes': [],
            'inconclusive': ['C02 replay files carry the source text and the model expectations for manual inspection']}


def finalize(tier: str, seed: int, counters: Dict[str, Any], evaluations: int, distinct: int) -> Dict[str, Any]:
    inconclusive = []
    asm = counters.get('assembly', {})
    if asm.get('ok', 0) < 0.45 * max(1, sum(asm.values())):
        inconclusive.append(f'acceptance rate too low: {asm}')
    for key, floor in (('words_checked', 5000), ('wflips_checked', 300), ('wflip_chains_with_aux_ops', 100), ('labels_checked', 500),
                       ('reserved_words_checked', 200), ('impossible_rejected', 20)):
        if counters.get(key, 0) < floor:
            inconclusive.append(f'{key}={counters.get(key, 0)} below floor {floor}')
    for width in ('8', '16', '32', '64'):
        if not counters.get('widths', {}).get(width):
            inconclusive.append(f'width {width} never generated')
    return {
        'coverage': {
            'rule': 'random primitive programs (f;j in its four forms, labels, constants, wflip with/without return address, pad, '
                    'segment, reserve; every number rendered as an expression over literals, constants, labels and $) at w=8/16/32/'
                    '64 and versions 0-3, read back through the reader. oracle: an independent denotation (addresses, word values, '
                    'labels, reserved ranges, layout feasibility); each wflip is judged by following its chain in the loaded image '
                    '(exact flips, popcount ops, returns to r, auxiliary ops off user space). model-impossible-but-assembled is a '
                    'violation; model-possible-but-rejected is counted. evaluation = one program',
        },
        'inconclusive': inconclusive,
        'assumptions': ['pad-hole and wflip-area contents are unspecified and never compared',
                        'a wflip whose target word is one of its own chain ops is skipped (self-inflicted self-modification)'],
    }
