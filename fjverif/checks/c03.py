"""C03 - macro expansion is hygienic inlining (DESIGN 4, C03)."""

from __future__ import annotations

import contextlib
import io
from pathlib import Path
from typing import Any, Dict, List, Optional, Tuple

from fjverif import engines, macrogen
from fjverif.common import REPO_ROOT, case_hash, rng_for

PROPERTY = 'C03'
LEVEL = 'exploration'
NATIVE_VARIANT = None


def plan(tier: str, seed: int) -> List[Dict[str, Any]]:
    quick = tier == 'quick'
    n, per = (16, 220) if quick else (64, 5000)
    return [{'seed': seed, 'shard': i, 'cases': per, 'timeout_s': 1500 if quick else 7200} for i in range(n)]


def assemble_files(files: List[Tuple[str, str]], w: int, tag: str, prefix: Any = (), keep_existing: bool = False,
                   max_recursion_depth: Any = None) -> Tuple[str, Any, Any]:
    """prefix: (short name, path) source files put in front (e.g. a file of the repository's stl, which goes through the parser's
    stl-prefix cache); keep_existing: write over whatever an earlier assembly left at the output paths."""
    import flipjump
    from flipjump.assembler import assembler
    from flipjump.fjm.fjm_consts import FJMVersion
    from flipjump.fjm.fjm_reader import Reader
    from flipjump.fjm.fjm_writer import Writer
    from flipjump.utils.functions import load_debugging_labels

    d = engines.tmpdir() / tag
    d.mkdir(exist_ok=True)
    tuples = list(prefix)
    for short, text in files:
        path = d / f'{short}.fj'
        path.write_text(text)
        tuples.append((short, path))
    out, dbg = d / 'out.fjm', d / 'out.fjd'
    for p in (out, dbg):
        if p.exists() and not keep_existing:
            p.unlink()
    try:
        with contextlib.redirect_stdout(io.StringIO()):
            writer = Writer(out, w, FJMVersion(1))
            kw = {} if max_recursion_depth is None else {'max_recursion_depth': max_recursion_depth}
            assembler.assemble(tuples, w, writer, warning_as_errors=False, debugging_file_path=dbg, print_time=False, **kw)
    except flipjump.FlipJumpException as exc:
        return 'rejected', exc, None
    except BaseException as exc:  # noqa: B902
        return 'raw', exc, None
    try:
        reader = Reader(out)
    except flipjump.FlipJumpException as exc:
        return 'unloadable', exc, None   # assembled, but the written image does not load
    image = ([(s.segment_start, s.segment_length) for s in reader.memory_segments], {k: v for k, v in reader.memory.items() if v})
    return 'ok', image, load_debugging_labels(dbg)


def judge(gen: macrogen.Generated, counters: Dict[str, Any]) -> List[Tuple[str, str]]:
    # now and then with a file of the repository's stl in front (macros only, no code): the parser keeps a per-process cache of
    # the parsed stl prefix, and every program that follows is parsed on top of what the cache hands out
    prefix = [('s0', REPO_ROOT / 'flipjump' / 'stl' / 'runlib.fj')] if counters.get('monitor_evaluations', 0) % 6 == 5 else []
    if prefix:
        counters['programs_behind_a_cached_stl_prefix'] = counters.get('programs_behind_a_cached_stl_prefix', 0) + 1
    status_m, image_m, labels_m = assemble_files(gen.files, gen.w, 'macro', prefix=prefix, max_recursion_depth=getattr(gen, 'max_recursion_depth', None))
    status_i, image_i, labels_i = assemble_files([('f1', gen.inlined)], gen.w, 'inlined', prefix=prefix)
    counters['monitor_evaluations'] = counters.get('monitor_evaluations', 0) + 1
    counters.setdefault('outcomes', {})
    key = f'{status_m}/{status_i}'
    counters['outcomes'][key] = counters['outcomes'].get(key, 0) + 1
    if status_i != 'ok':
        counters.setdefault('inlined_rejections', [])
        if len(counters['inlined_rejections']) < 4:
            counters['inlined_rejections'].append(str(image_i)[:160])
        return []  # the generator produced something the primitive language rejects: not a verdict about macros
    if status_m == 'raw':
        return [(f'raw-exception/{type(image_m).__name__}', repr(image_m)[:200])]
    if status_m == 'rejected':
        return [('macro-program-rejected-but-inlined-assembles', str(image_m)[:300])]
    if status_m == 'unloadable':
        return [('macro-program-image-refused-by-reader', str(image_m)[:300])]
    out: List[Tuple[str, str]] = []
    if image_m[0] != image_i[0]:
        out.append(('segments-differ', f'macro {image_m[0]} inlined {image_i[0]}'))
    elif image_m[1] != image_i[1]:
        diff = sorted(k for k in set(image_m[1]) | set(image_i[1]) if image_m[1].get(k, 0) != image_i[1].get(k, 0))
        first = diff[0]
        out.append(('image-differs', f'{len(diff)} words differ; first at word {first:#x}: macro {image_m[1].get(first, 0):#x} '
                                     f'inlined {image_i[1].get(first, 0):#x}'))
    counters['words_compared'] = counters.get('words_compared', 0) + len(image_i[1])
    return out


def guarded_recursion(rng: Any) -> macrogen.Generated:
    """the language's compile-time recursion idiom - a macro that calls itself under rep(condition, i) - a few hundred levels deep
    (any depth below max_recursion_depth is legal), against the flat program it means. built directly, not by the generator."""
    gen = macrogen.Generated()
    gen.w = rng.choice([32, 64])
    depth = rng.choice([120, 300, 600, 850])
    two_files = rng.random() < 0.5
    macro = 'def rec n @ here {\n  here:\n  ;here + n\n  rep(n > 0, i) rec n-1\n}\n'
    main = f';\nrec {depth}\n'
    gen.files = [('f1', macro), ('f2', main)] if two_files else [('f1', macro + main)]
    gen.inlined = ';\n' + ''.join(f'R{k}:\n;R{k} + {depth - k}\n' for k in range(depth + 1))
    gen.features = {'guarded-recursion-programs': 1, f'guarded-recursion-depth-{depth}': 1}
    gen.calls_expanded = depth + 1
    return gen


def on_the_limit(rng: Any) -> macrogen.Generated:
    """macros that use macros, N levels deep, assembled with max_recursion_depth=N: 'the compiler supports macros that recursively use
    other macros, up to the specified recursion depth' - the deepest allowed level is allowed. plain calls only (one level each)."""
    gen = macrogen.Generated()
    gen.w = rng.choice([16, 32, 64])
    depth = rng.choice([1, 2, 3, 7, 20, 64, 200])
    lines = []
    for k in range(depth):
        body = f'  c{k + 1} a + 1\n' if k + 1 < depth else '  ;a\n'
        lines.append(f'def c{k} a @ here {{\n  here:\n  ;here\n{body}}}\n')
    gen.files = [('f1', ''.join(lines) + ';\nc0 0\n;\n')]
    gen.inlined = ';\n' + ''.join(f'H{k}:\n;H{k}\n' for k in range(depth)) + f';{depth - 1}\n;\n'
    gen.max_recursion_depth = depth
    gen.features = {'programs-exactly-on-the-recursion-depth-limit': 1}
    gen.calls_expanded = depth
    return gen


def run_shard(spec: Dict[str, Any], journal: Any) -> Dict[str, Any]:
    rng = rng_for(spec['seed'], PROPERTY, spec['shard'])
    counters: Dict[str, Any] = {}
    violations: List[Dict[str, Any]] = []
    hashes: List[str] = []
    samples: List[Any] = []
    for index in range(spec['cases']):
        gen = guarded_recursion(rng) if index == 3 else on_the_limit(rng) if index in (5, 6) else macrogen.generate(rng)
        journal.note({'files': gen.files, 'inlined': gen.inlined, 'w': gen.w})
        found = judge(gen, counters)
        for f, n in gen.features.items():
            counters.setdefault('features', {})
            counters['features'][f] = counters['features'].get(f, 0) + n
        counters['calls_expanded'] = counters.get('calls_expanded', 0) + gen.calls_expanded
        counters['spelling_collisions'] = counters.get('spelling_collisions', 0) + gen.collisions
        counters[f'files/{len(gen.files)}'] = counters.get(f'files/{len(gen.files)}', 0) + 1
        for key, what in found:
            if sum(1 for v in violations if v['key'] == key) < 3:
                violations.append({'key': key, 'what': f'w={gen.w}: {what}',
                                   'replay': {'files': gen.files, 'inlined': gen.inlined, 'w': gen.w,
                                              'max_recursion_depth': getattr(gen, 'max_recursion_depth', None)}})
        if gen.collisions and gen.calls_expanded >= 2:
            hashes.append(case_hash([gen.files, gen.w]))
        if len(samples) < 1 and gen.collisions >= 2 and gen.calls_expanded >= 3:
            samples.append({'w': gen.w, 'macro_program': [t for _, t in gen.files], 'inlined_program': gen.inlined[:1500],
                            'spelling_collisions': gen.collisions})
    engines.cleanup_tmpdir()
    return {'counters': counters, 'violations': violations, 'hashes': hashes, 'samples': samples,
            'evaluations': counters.get('monitor_evaluations', 0)}


def replay_case(record: Dict[str, Any], journal: Any) -> Dict[str, Any]:
    gen = macrogen.Generated()
    gen.files = [tuple(f) for f in record['files']]
    gen.inlined, gen.w = record['inlined'], record['w']
    if record.get('max_recursion_depth') is not None:
        gen.max_recursion_depth = record['max_recursion_depth']
    counters: Dict[str, Any] = {}
    found = judge(gen, counters)
    return {'counters': counters, 'violations': [{'key': k, 'what': w, 'replay': record} for k, w in found], 'evaluations': 1, 'hashes': []}


def finalize(tier: str, seed: int, counters: Dict[str, Any], evaluations: int, distinct: int) -> Dict[str, Any]:
    inconclusive = []
    outcomes = counters.get('outcomes', {})
    if outcomes.get('ok/ok', 0) < 0.8 * max(1, sum(outcomes.values())):
        inconclusive.append(f'too few program pairs assembled on both sides: {outcomes} {counters.get("inlined_rejections")}')
    for key, floor in (('calls_expanded', 2000), ('spelling_collisions', 500), ('words_compared', 10000)):
        if counters.get(key, 0) < floor:
            inconclusive.append(f'{key}={counters.get(key, 0)} below floor {floor}')
    feats = counters.get('features', {})
    for f in ('calls', 'reps', 'rep-zero'):
        if not feats.get(f):
            inconclusive.append(f'feature {f} never generated')
    if not (counters.get('files/2') or counters.get('files/3')):
        inconclusive.append('no multi-file split generated')
    return {
        'coverage': {
            'rule': 'macro programs generated from a binding-explicit AST (call DAG to depth 6, arity overloading, nested '
                    'namespaces with dotted / .relative / ..parent names, @ locals, < globals, rep counts 0..5 with iterators, '
                    'arguments that are expressions over the caller\'s parameters, locals, globals and iterators; all spellings '
                    'from the pool {a,b,i,x,d,n} so caller and callee identifiers collide), split over 1-3 files, versus the '
                    'hand-inlined program produced from the same AST; the two assembled images (segments and every word) must '
                    'be identical. evaluation = one program pair; non-trivial = at least one spelling collision in play and >= 2 '
                    'expansions',
        },
        'inconclusive': inconclusive,
        'assumptions': ['the scoping rules of Appendix B of DESIGN.md (each confirmed by a probe)',
                        'extern (>) labels and label-valued parameters are generated only in macros called from the top level'],
    }
