"""C09 - the library's INPUT / PRINT / CAST macros are exact inverses of the byte encoding (DESIGN 4, C09; 3.7).

Model-driven SYNC monitor (fjverif/stlmon/iomon.py) + spec table transcribed from the doc comments (spec_io.py).
Shards:  'single'   - per documented macro, programs of 1-3 applications (different sizes n) with their own variables;
                      values exhaustive while the bits the macro reads are few, boundary values + random above;
                      inputs: every valid numeral length, every invalid byte at every position, ...; afterwards the same
                      image is re-run with inputs cut short (empty, missing terminator, mid-token, mid-byte): the run must
                      end by EOF exactly there.
         'sequence' - random mixed sequences over shared bit/hex variables (print after input, cast then print ...).
         'strings'  - sequences of the buffer helpers over two byte buffers.
         'static'   - bit.str layout.
"""

from __future__ import annotations

import itertools
import random
from typing import Any, Callable, Dict, List, Optional, Tuple

from fjverif import engines
from fjverif.common import case_hash, rng_for
from fjverif.stlmon import harness, iomon, spec_io
from fjverif.stlmon.harness import Var
from fjverif.stlmon.iomon import Bits, Case, IOApp, IOMonitor, IOSpec, PassCase, bits_of_bytes, make_var

PROPERTY = 'C09'
LEVEL = 'exploration'
NATIVE_VARIANT = 'opt'
SPECS = spec_io.SPECS
WIDTHS = (32, 64)
N_SHARDS = 16
CHUNK = 4000            # passes per run of an image
WATCHDOG_S = 240.0      # per run; a healthy chunk takes seconds
OP_BUDGET = 20_000_000  # ops: > 100x the costliest documented application (print_dec of 64 bits is ~10^5 ops)


# ------------------------------------------------------------------------------------------------ workloads
def boundary_values(bits: int) -> List[int]:
    top = 1 << bits
    out = {0, 1, top - 1, top >> 1, (top >> 1) - 1, (top >> 1) + 1, 9, 10, 11, 15, 16, 17, 99, 100, 101, 255, 256}
    for k in range(bits + 1):
        out.update({1 << k, (1 << k) - 1, (1 << k) + 1, top - (1 << k)})
    p = 1
    while p < 2 * top:
        out.update({p, p - 1, p + 1, 2 * p, 5 * p, 9 * p, top - p, top - p + 1, top - p - 1, (top >> 1) - p, (top >> 1) + p})
        p *= 10
    for pattern in (0xAAAAAAAAAAAAAAAA, 0x5555555555555555, 0x0123456789ABCDEF, 0xFEDCBA9876543210, 0xF0F0F0F0F0F0F0F0,
                    0x1000000000000001, 0x0F0F0F0F0F0F0F0F, 0xABCDEFABCDEFABCD, 0x00000000FFFFFFFF, 0xFFFFFFFF00000000,
                    0xA0B0C0D0E0F0A0B0, 0x0A0B0C0D0E0F0A0B):
        out.update({pattern & (top - 1), (pattern >> (64 - min(bits, 64))) & (top - 1)})
    return sorted(v for v in out if 0 <= v < top)


def operand_bits(app: IOApp, op: harness.Operand, variables: Dict[str, Var], w: int) -> int:
    return app.used_cells(op, w) * iomon.cell_bits(variables[app.binding[op.name]])


def default_cases(rng: random.Random, app: IOApp, variables: Dict[str, Var], w: int, tier: str) -> List[Case]:
    spec = app.spec
    read_ops = [op for op in spec.var_operands() if op.role in ('r', 'rw')]
    widths = [operand_bits(app, op, variables, w) for op in read_ops]
    total = sum(widths)
    limit = 12 if tier == 'quick' else 16
    value_sets: List[Dict[str, int]] = []
    if not read_ops:
        value_sets = [{}]
    elif total <= limit:
        for combo in itertools.product(*[range(1 << b) for b in widths]):
            value_sets.append({op.name: v for op, v in zip(read_ops, combo)})
    else:
        per_op = [boundary_values(b) for b in widths]
        longest = max(len(p) for p in per_op)
        for i in range(longest):
            value_sets.append({op.name: p[i % len(p)] if len(p) == longest else rng.choice(p) for op, p in zip(read_ops, per_op)})
        for _ in range(300 if tier == 'quick' else 6000):
            value_sets.append({op.name: harness.boundary_value(rng, b) for op, b in zip(read_ops, widths)})
    if spec.valid is not None:
        value_sets = [v for v in value_sets if spec.valid(app.n, v, app.consts, w)]
    inputs: List[Optional[Bits]] = [None]
    if spec.inputs is not None:
        inputs = [i for i in spec.inputs(rng, app.n, w, app.consts, tier) if is_complete(spec, app.n, w, app.consts, i)]
    count = max(len(value_sets), len(inputs))
    return [Case(values=dict(value_sets[i % len(value_sets)]), input=inputs[i % len(inputs)]) for i in range(count)]


def is_complete(spec: IOSpec, n: int, w: int, consts: Dict[str, int], inp: Bits) -> bool:
    res = spec.dry_run(n, w, consts, inp)
    return res is not None and not res.eof and res.consumed is not None and res.consumed[1] == len(inp)


def truncations(rng: random.Random, spec: IOSpec, n: int, w: int, consts: Dict[str, int], cases: List[Case],
                count: int) -> List[Tuple[int, Bits]]:
    """(case index, its input cut short): empty, byte-aligned (missing terminator / middle of the token), in the middle of a byte.
    the cut input stays with ITS case: for the pointer macros the operands (offset into the buffer) belong to the line."""
    out: List[Tuple[int, Bits]] = []
    usable = [i for i, c in enumerate(cases) if c.input]
    if not usable:
        return out
    tries = 0
    while len(out) < count and tries < 20 * count:
        tries += 1
        index = rng.choice(usable)
        full = cases[index].input
        assert full is not None
        kind = tries % 4
        if kind == 0:
            cut = 0
        elif kind == 1:
            cut = len(full) - 8 if len(full) >= 8 else 0          # everything but the last byte (the terminator)
        elif kind == 2:
            cut = 8 * rng.randrange(0, len(full) // 8 + 1)
        else:
            cut = rng.randrange(0, len(full))
        if cut >= len(full):
            continue
        res = spec.dry_run(n, w, consts, full[:cut])
        if res is not None and res.eof:
            out.append((index, full[:cut]))
    return out


# ------------------------------------------------------------------------------------------------ program building
def bind_single(rng: random.Random, spec: IOSpec, n: int, w: int, prefix: str) -> Optional[Tuple[IOApp, List[Var]]]:
    consts: Dict[str, int] = {}
    for op in spec.operands:
        if op.kind in ('const', 'str'):
            consts[op.name] = op.values(rng, n, w) if op.values else rng.randrange(0, 16)
    if spec.pre is not None and not spec.pre(n, consts, w):
        return None
    app = IOApp(spec, n, {}, consts, [op.name for op in spec.operands if op.kind == 'label'])
    variables: List[Var] = []
    for index, op in enumerate(spec.var_operands()):
        cells = max(1, app.used_cells(op, w))
        if op.kind == 'ptr':
            var = make_var(f'{prefix}p{index}', 'hex', cells)
            buf = make_var(f'{prefix}B{index}', 'byte', spec_io.BUF + 1)
            variables += [var, buf]
            app.buffers[op.name] = buf.name
        else:
            var = make_var(f'{prefix}v{index}', op.kind, cells + rng.choice([0, 1, 2]))
            variables.append(var)
        app.binding[op.name] = var.name
    return app, variables


def passes_single(rng: random.Random, apps: List[IOApp], cases: List[List[Case]], variables: List[Var], labels: Dict[str, int],
                  w: int, count: Optional[int] = None) -> List[PassCase]:
    by_name = {v.name: v for v in variables}
    total = count if count is not None else max(len(c) for c in cases)
    out: List[PassCase] = []
    for p in range(total):
        values = {v.name: harness.boundary_value(rng, iomon.var_bits(v)) for v in variables}
        inputs: List[Optional[Bits]] = []
        for app, app_cases in zip(apps, cases):
            case = app_cases[p % len(app_cases)]
            for op in app.spec.var_operands():
                var = by_name[app.binding[op.name]]
                if op.kind == 'ptr':
                    if op.name in case.values:
                        values[var.name] = labels[app.buffers[op.name]] + case.values[op.name] * 2 * w
                    if op.name in case.buffers:
                        values[app.buffers[op.name]] = case.buffers[op.name]
                elif op.name in case.values:
                    bits = app.used_cells(op, w) * iomon.cell_bits(var)
                    low = (1 << bits) - 1
                    values[var.name] = (values[var.name] & ~low) | (case.values[op.name] & low)
            inputs.append(case.input)
        out.append(PassCase(values, inputs))
    return out


# ------------------------------------------------------------------------------------------------ witness -> mechanism key
def classify(v: Dict[str, Any]) -> str:
    """a suffix naming the MECHANISM of a violation when the witness matches a recognisable wrong behaviour, so that a
    known_findings entry never covers more than that one behaviour (DESIGN 2: findings are keyed by mechanism)."""
    try:
        macro, what, n = v['macro'], v['what'], v['n']
        if macro == 'bit.input' and n >= 2 and what == 'destination' and v.get('observed_operands') == ['dst']:
            data = iomon.bytes_of_bits(v['input_bits'])[:n]
            if v['observed_value'] & ((1 << (8 * n)) - 1) == int.from_bytes(data, 'big') != int.from_bytes(data, 'little'):
                return '/first-byte-most-significant'
        if macro == 'bit.print_as_digit' and n >= 2 and what == 'output' and 'observed_bits' in v:
            x = v['operand_values']['x']
            msb_first = iomon.bits_of_bytes(''.join('01'[(x >> (n - 1 - i)) & 1] for i in range(n)).encode())
            seen = v['observed_bits']
            if msb_first[:len(seen)] == seen:
                return '/msb-first'
        if macro == 'bit.ascii2hex' and what == 'source' and v.get('observed_operands') == ['ascii']:
            before = v['operand_values']['ascii']
            if (before >> 3) in (0x40 >> 3, 0x60 >> 3) and v['observed_value'] & 0xFF == (before & ~7) | ((before + 1) & 7):
                return '/ascii-low-bits-incremented'
    except (KeyError, TypeError, ValueError):
        pass
    return ''


# ------------------------------------------------------------------------------------------------ recorder
class IORecorder:
    def __init__(self) -> None:
        self.counters: Dict[str, Any] = {}
        self.violations: List[Dict[str, Any]] = []
        self.hashes: List[str] = []
        self.samples: List[Any] = []
        self.inconclusive: List[str] = []

    def count(self, key: str, n: int = 1) -> None:
        self.counters[key] = self.counters.get(key, 0) + n

    def bump(self, table: str, key: str, n: int = 1) -> None:
        self.counters.setdefault(table, {})
        self.counters[table][key] = self.counters[table].get(key, 0) + n

    def absorb(self, monitor: IOMonitor) -> None:
        self.count('monitor_evaluations', monitor.checks)
        self.count('applications_monitored', monitor.applications)
        self.count('variable_cells_compared', monitor.cells_compared)
        self.count('output_bits_compared', monitor.output_bits_compared)
        self.count('applications_with_output', monitor.nonempty_outputs)
        self.count('input_bits_supplied', monitor.input_bits_supplied)
        self.count('input_bits_consumed_and_checked', monitor.input_bits_consumed)
        self.count('input_bytes_consumed_and_checked', monitor.input_bits_consumed // 8)
        self.count('unspecified_operands_skipped', monitor.unspecified_operands)
        for key, value in monitor.branches_seen.items():
            self.bump('branches_seen', key, value)
        for key, value in monitor.app_counts.items():
            self.bump('macros', key, value)
        for key, value in monitor.family_counts.items():
            self.bump('families', key, value)

    def violation(self, monitor: IOMonitor, text: str, label: str, w: int) -> None:
        v = monitor.violation
        assert v is not None
        key = f'{v["macro"]}/{v["what"]}' + classify(v)
        for bulky in ('input_bits', 'documented_bits', 'observed_bits', 'operand_values'):
            v.pop(bulky, None)
        if sum(1 for x in self.violations if x['key'] == key) < 2:
            self.violations.append({
                'key': key,
                'what': f'{v["macro"]} ({v["doc"]}) n={v["n"]} w={w}: {v["detail"]}; operands before {v.get("operands_before")} '
                        f'consts {v.get("consts")} input {v.get("input")} after {v.get("sequence_so_far")}',
                'replay': {**v, 'program': text[:8000], 'label': label}})

    def program(self, apps: List[IOApp], variables: List[Var], w: int, init: str,
                make_passes: Callable[[Dict[str, int]], List[PassCase]], label: str, journal: Any,
                make_eof_passes: Optional[Callable[[Dict[str, int]], List[PassCase]]] = None, fast_slice: int = 0) -> Optional[IOMonitor]:
        text = iomon.render_program(apps, variables, w, init)
        journal.note({'program': text[:4000], 'w': w, 'label': label})
        path, labels, error = harness.assemble_program(text, w, tag='c09')
        self.count('programs_rendered')
        if path is None or labels is None:
            self.count('programs_not_assembled')
            self.counters.setdefault('assembly_errors', [])
            if len(self.counters['assembly_errors']) < 8:
                self.counters['assembly_errors'].append(f'{label} w={w}: {error[:200]}')
            return None
        passes = make_passes(labels)
        monitor: Optional[IOMonitor] = None
        for start in range(0, len(passes), CHUNK):     # one image, several runs: each run stays far below the watchdog
            monitor = IOMonitor(apps, variables, labels, w, passes[start:start + CHUNK])
            result = iomon.run_io(path, monitor, watchdog_s=WATCHDOG_S)
            self.count('programs_run' if start == 0 else 'further_runs_of_the_same_image')
            self.absorb(monitor)
            if result['outcome'] == 'violation':
                self.violation(monitor, text, label, w)
                return monitor
            if result['outcome'] != 'done':
                self.early(monitor, result, text, label, w, apps)
                return monitor
        assert monitor is not None
        self.count(f'width/{w}')
        # ---- inputs cut short: the same image, one pass, the run must end by EOF inside the truncated application
        if make_eof_passes is not None:
            for probe in make_eof_passes(labels):
                mon = IOMonitor(apps, variables, labels, w, [probe])
                res = iomon.run_io(path, mon, watchdog_s=WATCHDOG_S)
                self.absorb(mon)
                self.count('eof_probe_runs')
                if res['outcome'] == 'violation':
                    self.violation(mon, text, label + ':eof', w)
                    break
                if res['outcome'] != 'eof':
                    self.early(mon, res, text, label + ':eof', w, apps, expected_eof=True)
                    break
                self.count('eof_probes_ended_by_eof')
        if fast_slice:
            # a slice of the same program on the pure-Python fast loop: an engine defect must not masquerade as a library defect
            mon2 = IOMonitor(apps, variables, labels, w, passes[:fast_slice])
            res2 = iomon.run_io(path, mon2, engine='fast', watchdog_s=240.0)
            self.count('fast_engine_slices')
            self.count('fast_engine_applications', mon2.applications)
            if res2['outcome'] != 'done':
                self.violations.append({'key': 'fast-engine-slice-disagrees', 'what': f'{label}: {mon2.violation or res2["obs"]}',
                                        'replay': {'program': text[:8000], 'w': w}})
        return monitor

    def early(self, monitor: IOMonitor, result: Dict[str, Any], text: str, label: str, w: int, apps: List[IOApp],
              expected_eof: bool = False) -> None:
        obs = result['obs']
        macro = monitor.cur.spec.macro if monitor.cur is not None else '(startup)'
        cause = str(obs.get('cause'))
        if 'interrupt' in cause.lower():
            # the watchdog fired. wall-clock is never a verdict (DESIGN 2): it is a violation only when the op counter proves
            # that an application ran away (more than OP_BUDGET ops per application started, startup included)
            ops = obs.get('ops') if isinstance(obs.get('ops'), int) else -1
            if ops <= (monitor.applications + 2) * OP_BUDGET:
                self.inconclusive.append(f'{label} w={w}: watchdog fired after {monitor.applications} applications and {ops} ops '
                                         f'(no logical evidence of divergence)')
                return
            cause = f'diverged-over-{OP_BUDGET}-ops'
        key = f'{macro}/run-ended-early/{cause}'
        if sum(1 for x in self.violations if 'run-ended-early' in x['key']) < 3:
            self.violations.append({
                'key': key,
                'what': f'{label} w={w}: run ended with {obs.get("cause")} {obs.get("exc")} in pass {monitor.pass_index} inside '
                        f'{macro} n={monitor.cur.n if monitor.cur else ""} (expected {"EOF" if expected_eof else "all passes"}); '
                        f'operands {monitor.cur_v} input {iomon.show_bits(monitor.inp)} consumed {monitor.in_pos}; last {monitor.history[-6:]}',
                'replay': {'program': text[:8000], 'obs': {k: str(v) for k, v in obs.items()}, 'w': w,
                           'pass_values': {k: hex(v) for k, v in monitor.pass_values.items()}}})


def init_for(apps: List[IOApp], variables: List[Var]) -> str:
    if all(a.spec.needs == 'none' for a in apps) and all(v.kind == 'bit' for v in variables):
        return 'stl.startup'
    return 'stl.startup_and_init_all 20'


# ------------------------------------------------------------------------------------------------ shard: single
def n_groups(spec: IOSpec, tier: str, rng: random.Random) -> List[List[int]]:
    values = list(spec.n_values)
    if len(values) == 1:
        return [values]
    if tier == 'quick':
        small = values[:2]
        rest = values[2:]
        rng.shuffle(rest)
        picked = sorted(set(small + rest[:3] + [values[-1]]))
        return [picked[i:i + 3] for i in range(0, len(picked), 3)]
    return [values[i:i + 3] for i in range(0, len(values), 3)]


def work_items(tier: str, seed: int) -> List[Dict[str, Any]]:
    """(spec index, n group, w) - deterministic per (tier, seed); both widths for every entry."""
    rng = rng_for(seed, PROPERTY, 'work', tier)
    items: List[Dict[str, Any]] = []
    for index, spec in enumerate(SPECS):
        groups = n_groups(spec, tier, rng)
        for g, group in enumerate(groups):
            widths = list(WIDTHS)
            for w in widths:
                items.append({'spec': index, 'ns': group, 'w': w, 'cost': cost_of(spec, group)})
    return items


def cost_of(spec: IOSpec, group: List[int]) -> float:
    heavy = 3.0 if ('dec' in spec.macro and spec.n_values != (0,)) else 1.0
    return heavy * (1 + 0.15 * sum(group))


def run_single_item(rec: IORecorder, item: Dict[str, Any], seed: int, tier: str, journal: Any) -> None:
    spec = SPECS[item['spec']]
    w = item['w']
    rng = rng_for(seed, PROPERTY, 'single', item['spec'], item['ns'], w)
    apps: List[IOApp] = []
    variables: List[Var] = []
    for k, n in enumerate(item['ns']):
        bound = None
        for _ in range(10):
            bound = bind_single(rng, spec, n, w, f'a{k}')
            if bound is not None:
                break
        if bound is None:
            rec.count('unbindable')
            continue
        apps.append(bound[0])
        variables += bound[1]
    if not apps:
        return
    variables += [make_var('gbit', 'bit', rng.choice([1, 3])), make_var('ghex', 'hex', rng.choice([1, 3]))]
    if all(a.spec.needs == 'none' for a in apps):
        variables = [v for v in variables if v.kind == 'bit']
    by_name = {v.name: v for v in variables}
    cases: List[List[Case]] = []
    for app in apps:
        if spec.cases is not None:
            cases.append(spec.cases(rng, app, w, tier))
        else:
            cases.append(default_cases(rng, app, by_name, w, tier))
    if any(not c for c in cases):
        rec.count('programs_without_cases')
        return
    label = f'single:{spec.macro}/{item["ns"]}'

    def make_passes(labels: Dict[str, int]) -> List[PassCase]:
        return passes_single(rng, apps, cases, variables, labels, w)

    def eof_probes(labels: Dict[str, int]) -> List[PassCase]:
        probes: List[PassCase] = []
        per_app = 6 if tier == 'quick' else 40
        for j, app in enumerate(apps):
            for index, cut in truncations(rng, spec, app.n, w, app.consts, cases[j], per_app):
                rotated = [c[rng.randrange(len(c)):][:1] for c in cases]
                rotated[j] = [cases[j][index]]
                base = passes_single(rng, apps, rotated, variables, labels, w, count=1)[0]
                base.inputs[j] = cut
                probes.append(base)
        return probes

    reads_input = spec.inputs is not None or spec.macro == 'hex.input_ptr_line'
    mon = rec.program(apps, variables, w, init_for(apps, variables), make_passes, label, journal, eof_probes if reads_input else None,
                      fast_slice=12)
    if mon is not None:
        exhaustive = spec.cases is None and spec.inputs is None
        rec.hashes.append(case_hash([spec.macro, spec.doc, item['ns'], w, [a.consts for a in apps]]))
        rec.count('single_programs')
        if len(rec.samples) < 1:
            rec.samples.append({'macro': spec.macro, 'doc': spec.doc, 'ns': item['ns'], 'w': w, 'passes': len(mon.pass_cases),
                                'cases_per_application': [len(c) for c in cases], 'consts': [a.consts for a in apps],
                                'value_driven': exhaustive})


# ------------------------------------------------------------------------------------------------ shard: sequence
def run_sequences(rec: IORecorder, seed: Any, programs: int, tier: str, journal: Any, flavour: str) -> None:
    rng = rng_for(*seed)
    for index in range(programs):
        w = rng.choice(WIDTHS)
        bit_only = flavour == 'bit'
        usable = [s for s in SPECS if s.seq_ok and (s.needs == 'none' or not bit_only)
                  and all(o.kind != 'hex' for o in s.operands if bit_only)]
        variables: List[Var] = []
        pool: Dict[str, List[Var]] = {'bit': [], 'hex': []}
        for k, length in enumerate(rng.sample([1, 1, 4, 8, 8, 16, 24, 32, 64, 64, 66], 6)):
            pool['bit'].append(make_var(f'b{k}', 'bit', length))
        if not bit_only:
            for k, length in enumerate(rng.sample([1, 2, 2, 3, 4, 6, 8, 16, 16, 17], 6)):
                pool['hex'].append(make_var(f'h{k}', 'hex', length))
        variables = pool['bit'] + pool['hex']
        apps: List[IOApp] = []
        target = rng.choice([8, 12, 16])
        for _ in range(target * 4):
            if len(apps) >= target:
                break
            app = bind_from_pool(rng, rng.choice(usable), w, pool)
            if app is not None:
                app.input_pool = ([i for i in app.spec.inputs(rng, app.n, w, app.consts, 'seq')
                                   if is_complete(app.spec, app.n, w, app.consts, i)] if app.spec.inputs else [])
                if app.spec.inputs and not app.input_pool:
                    continue
                apps.append(app)
        if not apps:
            continue
        count = 150 if tier == 'quick' else 1500

        def make_passes(labels: Dict[str, int], apps: List[IOApp] = apps, variables: List[Var] = variables) -> List[PassCase]:
            out = []
            for _ in range(count):
                values = {v.name: harness.boundary_value(rng, iomon.var_bits(v)) for v in variables}
                out.append(PassCase(values, [rng.choice(a.input_pool) if a.input_pool else None for a in apps]))
            return out

        mon = rec.program(apps, variables, w, init_for(apps, variables), make_passes, f'sequence:{flavour}#{index}', journal,
                          fast_slice=3 if index % 2 == 0 else 0)
        if mon is not None:
            rec.count('sequence_programs')
            rec.hashes.append(case_hash([[a.spec.macro for a in apps], [a.binding for a in apps], [a.n for a in apps], w]))
            if len(rec.samples) < 1:
                rec.samples.append({'sequence': [f'{a.spec.macro} n={a.n} {a.binding}' for a in apps[:10]], 'w': w, 'passes': count})


def bind_from_pool(rng: random.Random, spec: IOSpec, w: int, pool: Dict[str, List[Var]]) -> Optional[IOApp]:
    consts: Dict[str, int] = {}
    n_options = list(spec.n_values)
    rng.shuffle(n_options)
    for n in n_options[:6]:
        for op in spec.operands:
            if op.kind in ('const', 'str'):
                consts[op.name] = op.values(rng, n, w) if op.values else rng.randrange(0, 16)
        app = IOApp(spec, n, {}, dict(consts), [op.name for op in spec.operands if op.kind == 'label'])
        taken: Dict[str, str] = {}
        ok = True
        for op in spec.var_operands():
            cells = app.used_cells(op, w)
            candidates = [v for v in pool.get(op.kind, []) if v.length >= cells and v.name not in taken.values()]
            if not candidates:
                ok = False
                break
            taken[op.name] = rng.choice(candidates).name
        if ok:
            app.binding = taken
            return app
    return None


# ------------------------------------------------------------------------------------------------ shard: strings
SBUF = 8


def run_strings(rec: IORecorder, seed: Any, programs: int, tier: str, journal: Any) -> None:
    rng = rng_for(*seed)
    by_macro = {s.macro: s for s in SPECS if s.family == 'hex.strings'}
    printers = [s for s in SPECS if s.macro == 'hex.print' and s.n_values == (0,)]
    for index in range(programs):
        w = rng.choice(WIDTHS)
        cells = w // 4
        ptrs = [make_var(f'p{k}', 'hex', cells) for k in range(2)]
        bufs = [make_var(f'B{k}', 'byte', SBUF + 1) for k in range(2)]
        cnts = [make_var(f'c{k}', 'hex', cells) for k in range(2)]
        val = make_var('val', 'hex', 2)
        variables: List[Var] = ptrs + bufs + cnts + [val, make_var('ghex', 'hex', 3)]
        apps: List[IOApp] = []
        for _ in range(rng.choice([6, 8, 10])):
            name = rng.choice(['hex.input_ptr_line', 'hex.input_ptr_line', 'hex.print_ptr_text', 'hex.print_ptr_line', 'hex.fill_bytes',
                               'hex.copy_bytes', 'hex.print'])
            k = rng.randrange(2)
            if name == 'hex.print':
                apps.append(IOApp(printers[0], 0, {'x': val.name}, {}))
                continue
            spec = by_macro[name]
            app = IOApp(spec, 0, {}, {})
            if name == 'hex.copy_bytes':
                app.binding = {'dst_ptr': ptrs[k].name, 'src_ptr': ptrs[1 - k].name, 'count': cnts[rng.randrange(2)].name}
                app.buffers = {'dst_ptr': bufs[k].name, 'src_ptr': bufs[1 - k].name}
            elif name == 'hex.fill_bytes':
                app.binding = {'ptr': ptrs[k].name, 'count': cnts[rng.randrange(2)].name, 'value': val.name}
                app.buffers = {'ptr': bufs[k].name}
            else:
                app.binding = {'ptr': ptrs[k].name, 'len': cnts[rng.randrange(2)].name}
                app.buffers = {'ptr': bufs[k].name}
            apps.append(app)
        count = 120 if tier == 'quick' else 1200

        def make_passes(labels: Dict[str, int], apps: List[IOApp] = apps, w: int = w) -> List[PassCase]:
            out = []
            for _ in range(count):
                values: Dict[str, int] = {'val': rng.getrandbits(8), 'ghex': rng.getrandbits(12)}
                for k in range(2):
                    values[f'p{k}'] = labels[f'B{k}']
                    values[f'c{k}'] = rng.randrange(0, SBUF + 1)
                    content = bytearray(spec_io.rand_text(rng, SBUF + 1, ()) if rng.random() < 0.6
                                        else spec_io.rand_text(rng, SBUF + 1))
                    content[SBUF] = 0      # guard cell: no documented write reaches it, so every line scan ends inside the buffer
                    values[f'B{k}'] = int.from_bytes(bytes(content), 'little')
                inputs: List[Optional[Bits]] = []
                for a in apps:
                    if a.spec.macro == 'hex.input_ptr_line':
                        line = spec_io.rand_text(rng, rng.randrange(0, SBUF + 1)) + bytes([rng.choice([0x0A, 0x00])])
                        inputs.append(bits_of_bytes(line))
                    else:
                        inputs.append(None)
                out.append(PassCase(values, inputs))
            return out

        mon = rec.program(apps, variables, w, 'stl.startup_and_init_all 20', make_passes, f'strings#{index}', journal,
                          fast_slice=2 if index == 0 else 0)
        if mon is not None:
            rec.count('sequence_programs')
            rec.count('strings_sequence_programs')
            rec.hashes.append(case_hash([[a.spec.macro for a in apps], [a.binding for a in apps], w]))


# ------------------------------------------------------------------------------------------------ shard: static (bit.str)
def run_static(rec: IORecorder, seed: Any, journal: Any) -> None:
    """bit.str: "create a bit-vector, initialized with the value of 'str', and with the number of bytes needed to store 'str',
    plus 1" (bit/casting.fj:5)."""
    from flipjump.interpreter.io_devices.IODevice import IODevice
    from flipjump.utils.exceptions import IODeviceException

    rng = rng_for(*seed)
    for w in WIDTHS:
        strings = [b'', b'A', b'Hi', b'Hello, World!\n', b'\xff', b'\x01\x00\x02', bytes(rng.randrange(1, 256) for _ in range(9))]
        lines = ['stl.startup', 'stl.output_bit 0', 'stl.loop']
        for k, s in enumerate(strings):
            literal = '"' + ''.join(f'\\x{b:02x}' for b in s) + '"'
            lines += [f's{k}: bit.str {literal}', f'e{k}:']
        text = '\n'.join(lines) + '\n'
        journal.note({'program': text, 'w': w, 'label': 'static'})
        path, labels, error = harness.assemble_program(text, w, tag='c09s')
        if path is None or labels is None:
            rec.count('programs_not_assembled')
            rec.counters.setdefault('assembly_errors', [])
            rec.counters['assembly_errors'].append(f'static w={w}: {error[:200]}')
            continue
        found: Dict[int, Tuple[int, int]] = {}

        class Stop(IODeviceException):
            pass

        class Probe(IODevice):
            def attach_memory(self, device_memory: Any) -> None:
                self.memory = device_memory

            def write_bit(self, bit: bool) -> None:
                for k in range(len(strings)):
                    cells = (labels[f'e{k}'] - labels[f's{k}']) // (2 * w)
                    value = 0
                    for i in range(cells):
                        jump = self.memory.read_word((labels[f's{k}'] + i * 2 * w) // w + 1)
                        flip = self.memory.read_word((labels[f's{k}'] + i * 2 * w) // w)
                        if flip != 0 or jump & ~(1 << w.bit_length()):
                            value = -1
                            break
                        value |= ((jump >> w.bit_length()) & 1) << i
                    found[k] = (cells, value)
                raise Stop('done')

            def read_bit(self) -> bool:
                raise Stop('no input')

            def get_output(self, *, allow_incomplete_output: bool = False) -> bytes:
                return b''

        engines.run_engine(path, {'engine': 'native'}, Probe(), watchdog_s=30.0)
        for k, s in enumerate(strings):
            value = int.from_bytes(s, 'little')
            want = (((value.bit_length() + 7) // 8 + 1) * 8, value)   # bytes needed to store str, plus 1
            rec.count('static_checks')
            rec.bump('macros', 'bit.str')
            if found.get(k) != want:
                rec.violations.append({'key': 'bit.str/layout', 'what': f'bit.str {s!r} w={w}: (cells, value) = {found.get(k)}, documented {want}',
                                       'replay': {'program': text, 'w': w}})


# ------------------------------------------------------------------------------------------------ driver interface
def plan(tier: str, seed: int) -> List[Dict[str, Any]]:
    quick = tier == 'quick'
    items = work_items(tier, seed)
    shards = N_SHARDS - 3 if quick else 40
    order = sorted(range(len(items)), key=lambda i: -items[i]['cost'])
    loads = [0.0] * shards
    assign: List[List[int]] = [[] for _ in range(shards)]
    for i in order:                       # longest-processing-time-first balancing
        k = loads.index(min(loads))
        assign[k].append(i)
        loads[k] += items[i]['cost']
    timeout = 1500 if quick else 20000
    out: List[Dict[str, Any]] = [{'kind': 'single', 'items': assign[k], 'seed': seed, 'tier': tier, 'timeout_s': timeout}
                                 for k in range(shards)]
    out.append({'kind': 'sequence', 'flavour': 'mixed', 'part': 0, 'seed': seed, 'tier': tier, 'programs': 4 if quick else 60,
                'timeout_s': timeout})
    out.append({'kind': 'sequence', 'flavour': 'bit', 'part': 1, 'seed': seed, 'tier': tier, 'programs': 4 if quick else 60,
                'timeout_s': timeout, 'static': True})
    out.append({'kind': 'strings', 'part': 2, 'seed': seed, 'tier': tier, 'programs': 5 if quick else 60, 'timeout_s': timeout})
    return out


def run_shard(spec: Dict[str, Any], journal: Any) -> Dict[str, Any]:
    rec = IORecorder()
    if spec['kind'] == 'single':
        items = work_items(spec['tier'], spec['seed'])
        for i in spec['items']:
            run_single_item(rec, items[i], spec['seed'], spec['tier'], journal)
    elif spec['kind'] == 'sequence':
        if spec.get('static'):
            run_static(rec, (spec['seed'], PROPERTY, 'static'), journal)
        run_sequences(rec, (spec['seed'], PROPERTY, 'sequence', spec['flavour'], spec['part']), spec['programs'], spec['tier'], journal,
                      spec['flavour'])
    else:
        run_strings(rec, (spec['seed'], PROPERTY, 'strings', spec['part']), spec['programs'], spec['tier'], journal)
    engines.cleanup_tmpdir()
    return {'counters': rec.counters, 'violations': rec.violations, 'hashes': rec.hashes, 'samples': rec.samples,
            'evaluations': rec.counters.get('monitor_evaluations', 0), 'inconclusive': rec.inconclusive}


def replay_case(record: Dict[str, Any], journal: Any) -> Dict[str, Any]:
    return {'counters': {}, 'violations': [], 'evaluations': 1, 'hashes': [],
            'inconclusive': ['the replay file carries the program text, the operand values, the input bytes, the documented output '
                             'and the observation; it is a witness to read, not a case the driver re-executes']}


def finalize(tier: str, seed: int, counters: Dict[str, Any], evaluations: int, distinct: int) -> Dict[str, Any]:
    inconclusive = []
    macros = counters.get('macros', {})
    families = counters.get('families', {})
    missing_families = [f for f in spec_io.FAMILIES if not families.get(f)]
    if missing_families:
        inconclusive.append(f'macro families never monitored: {missing_families}')
    missing = sorted({s.macro for s in SPECS} - {m for m, c in macros.items() if c})
    if missing:
        inconclusive.append(f'macros never monitored: {missing}')
    if counters.get('programs_not_assembled'):
        inconclusive.append(f'{counters["programs_not_assembled"]} generated programs did not assemble: {counters.get("assembly_errors")}')
    if counters.get('monitor_evaluations', 0) < 20000:
        inconclusive.append(f'only {counters.get("monitor_evaluations", 0)} monitored applications')
    if counters.get('output_bits_compared', 0) < 100000:
        inconclusive.append(f'only {counters.get("output_bits_compared", 0)} output bits compared')
    if counters.get('input_bytes_consumed_and_checked', 0) < 10000:
        inconclusive.append(f'only {counters.get("input_bytes_consumed_and_checked", 0)} input bytes consumed under the monitor')
    if not counters.get('eof_probes_ended_by_eof'):
        inconclusive.append('no truncated-input (EOF) probe ran')
    if not counters.get('sequence_programs'):
        inconclusive.append('no sequence program ran')
    if not counters.get('strings_sequence_programs'):
        inconclusive.append('no buffer-helper sequence ran')
    if not counters.get('static_checks'):
        inconclusive.append('the bit.str layout check did not run')
    if not counters.get('fast_engine_slices'):
        inconclusive.append('no slice was re-run on the pure-Python fast loop')
    for width in WIDTHS:
        if not counters.get(f'width/{width}'):
            inconclusive.append(f'no program ran at w={width}')
    return {
        'coverage': {
            'rule': 'model-driven SYNC monitor on the real library and interpreter: at each SYNC the device knows the next application, '
                    'derives from the spec table (doc comments) the exact output bit string, the input it may consume, the documented '
                    'operand values and branch; every output bit is compared on arrival, marker 1-bits after the documented output give the '
                    'branch, the consumed input bit count is compared, every cell of every declared variable/byte buffer is read through '
                    'DeviceMemory and compared. workloads: values exhaustive while the macro reads <= 12 bits (quick) / 16 bits (thorough) '
                    '(covers n <= 2 hexes / 8 bits), above that 0, 1, 2^k, 2^k+-1, 10^k, 10^k+-1, their negations, most negative, all ones, '
                    'digit patterns, random; sizes up to 16 hexes / 64 bits; inputs: all bytes / all nibbles, valid numerals of every '
                    'length, every invalid byte at every position (quick: 70 sampled bytes per position incl. all neighbours of the digit '
                    'ranges), empty numeral, sign variants; truncated inputs (empty, missing terminator, mid-token, mid-byte) must end the '
                    'run by EOF inside the application; w in {32, 64}; single-macro programs, mixed sequences, buffer-helper sequences. '
                    'evaluation = one monitored application; distinct by (macro, sizes, w, constants) / sequence',
            'macros_in_spec_table': len({s.macro for s in SPECS}) + 1,
            'spec_entries': len(SPECS) + 1,
            'not_covered': spec_io.NOT_COVERED,
        },
        'inconclusive': inconclusive,
        'assumptions': [
            'the spec table (fjverif/stlmon/spec_io.py) is my transcription of the doc comments; decisions D1-D6 are listed in its docstring',
            'an operand the comment does not say is changed must be unchanged (same convention as spec_bit.py)',
            'unspecified (skipped, the model re-synchronises): destination on the error branch / error flag of input_as_hex, '
            'input_dec_uint, input_dec_int, ascii2bin, ascii2dec, ascii2hex; bytes consumed after the offending byte by input_as_hex n',
            'a numeral without digits reads as 0; "-0x1f" order for signed prefixed hex; the prefix is the literal "0x"',
            'dec2ascii / print_char are exercised on decimal digits only (10..15 are outside the documented domain)',
            'buffer helpers: pointers are dw-aligned and the documented byte range lies inside the buffer; copy_bytes buffers do not overlap',
        ],
    }
