"""C01 - every engine executes the FlipJump machine semantics exactly (DESIGN 4, C01)."""

from __future__ import annotations

from typing import Any, Dict, List

from fjverif import engines, imagegen
from fjverif.checks import enginecmp
from fjverif.common import case_hash, rng_for

PROPERTY = 'C01'
LEVEL = 'exploration'
NATIVE_VARIANT = 'opt'
GEOMS = ['compact', 'gaps', 'w8', 'top', 'page-edge', 'window-cut', 'many', 'far', 'magic', 'many-pages', 'big-first']
REQUIRED_FEATURES = ['unaligned-op', 'self-flip-jumpword', 'self-flip-flipword', 'input', 'input-unaligned', 'output',
                     'fault@flip-fetch', 'fault@flip', 'fault@jump-fetch', 'selfloop-with-selfflip', 'lazy-zero-read']


def plan(tier: str, seed: int) -> List[Dict[str, Any]]:
    shards, per = (16, 260) if tier == 'quick' else (64, 2500)
    out = [{'kind': 'generated', 'seed': seed, 'shard': i, 'cases': per, 'tier': tier, 'timeout_s': 900 if tier == 'quick' else 7200}
           for i in range(shards)]
    n_corpus = 2 if tier == 'quick' else 16
    for i in range(n_corpus):
        out.append({'kind': 'corpus', 'seed': seed, 'shard': i, 'shards': n_corpus, 'tier': tier,
                    'programs': 3 if tier == 'quick' else 40, 'timeout_s': 1500 if tier == 'quick' else 7200})
    return out


corpus_rows = enginecmp.corpus_rows


def shard_corpus(spec: Dict[str, Any], journal: Any) -> Dict[str, Any]:
    return enginecmp.shard_corpus(spec, journal, PROPERTY, [{'engine': 'native'}, {'engine': 'fast'}, {'engine': 'featured'}], check_memory=False)


def run_shard(spec: Dict[str, Any], journal: Any) -> Dict[str, Any]:
    if spec.get('kind') == 'corpus':
        return shard_corpus(spec, journal)
    rng = rng_for(spec['seed'], PROPERTY, spec['shard'])
    counters: Dict[str, Any] = {}
    violations: List[Dict[str, Any]] = []
    hashes: List[str] = []
    samples: List[Any] = []
    for index in range(spec['cases']):
        geom = GEOMS[index % len(GEOMS)]
        width = (8, 16, 32, 64)[(index // len(GEOMS)) % 4]
        max_ops = 200000 if index % 97 == 96 else 3000
        if index == 5 and spec['shard'] % 4 == 0:
            # one long straight-line program per few shards: crosses the native engine's signal-poll cadence (2^18 ops)
            case = imagegen.long_chain_case(rng, (16, 32, 64)[spec['shard'] // 4 % 3] if spec['shard'] // 4 % 3 else 32, 270000)
        elif index % 25 == 11:
            # many distinct 2^14-word pages, most of them beyond the flat window: the native engine's page table grows while the
            # image loads, and the walk comes back to every page
            case = imagegen.page_walk_case(rng, rng.choice([32, 64]), rng.choice([20, 33, 40, 70, 130, 300]), rng.choice([2, 3]))
        else:
            case = imagegen.generate_case(rng, geom, width, max_ops=max_ops)
        configs = enginecmp.c01_configs(rng, case)
        found, ref = enginecmp.compare_case(case, configs, rng, check_memory=False, check_ring=False,
                                            counters=counters, journal=journal)
        enginecmp.note_features(counters, case, ref)
        violations.extend(found)
        if enginecmp.nontrivial(ref):
            hashes.append(case_hash(case))
        if len(samples) < 2 and ref.ops >= 4:
            samples.append(enginecmp.sample_of(case, ref))
    engines.cleanup_tmpdir()
    return {'counters': counters, 'violations': violations, 'hashes': hashes, 'samples': samples,
            'evaluations': counters.get('monitor_evaluations', 0)}


def finalize(tier: str, seed: int, counters: Dict[str, Any], evaluations: int, distinct: int) -> Dict[str, Any]:
    inconclusive = []
    feats = counters.get('features', {})
    for f in REQUIRED_FEATURES:
        if not feats.get(f):
            inconclusive.append(f'feature {f!r} was never exercised by the reference machine')
    runs = counters.get('runs_by_config', {})
    for engine in ('featured', 'fast', 'native'):
        if not runs.get(engine):
            inconclusive.append(f'engine {engine} was never run')
    if distinct < 200:
        inconclusive.append(f'only {distinct} non-trivial programs generated')
    if not counters.get('corpus_programs'):
        inconclusive.append('no corpus program was run against the reference machine')
    return {
        'coverage': {
            'rule': 'programs grown along their own execution on the reference machine (imagegen), each run on '
                    'featured/fast/native; evaluation = one engine run compared (cause, op count, fault address, IO '
                    'call log) with the reference; non-trivial = reference executed >= 3 ops and showed >= 2 feature '
                    'bits; distinct by sha256 of the image+input',
            'programs': sum(counters.get('geometries', {}).values()),
        },
        'inconclusive': inconclusive,
        'assumptions': ['the reference machine (fjverif/refmachine.py) is the FlipJump definition of the property text',
                        'images restricted to segments inside the 2^w-bit address space',
                        'CPython 3.12, gcc -O2 build of the current _fjcore.c'],
    }


replay_case = enginecmp.replay_case
