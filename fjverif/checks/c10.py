"""C10 - reading an .fjm is total; torn and inconsistent files are rejected (DESIGN 4, C10)."""

from __future__ import annotations

import lzma
import random
import resource
import signal
import struct
from pathlib import Path
from typing import Any, Dict, List, Optional, Tuple

from fjverif import engines
from fjverif.common import case_hash, rng_for

PROPERTY = 'C10'
LEVEL = 'fault_enumeration'
NATIVE_VARIANT = 'opt'
HEADER = '<HHQQ'
EXT = '<QL'
SEG = '<QQQQ'


def plan(tier: str, seed: int) -> List[Dict[str, Any]]:
    out = []
    n_prefix, files = (8, 8) if tier == 'quick' else (32, 48)
    for i in range(n_prefix):
        out.append({'kind': 'prefix', 'seed': seed, 'shard': i, 'files': files, 'timeout_s': 1500 if tier == 'quick' else 7200})
    n_mut, cases = (8, 1200) if tier == 'quick' else (32, 12000)
    for i in range(n_mut):
        out.append({'kind': 'mutate', 'seed': seed, 'shard': i, 'cases': cases, 'timeout_s': 1500 if tier == 'quick' else 7200})
    # the same guarantees under an optimising interpreter (python -O strips assert statements and sets __debug__ to False)
    for spec in out[3::4]:
        spec['env'] = {'PYTHONOPTIMIZE': '1'}
    return out


# ------------------------------------------------------------------------------ sample files
def sample_file(rng: random.Random, path: Path, big: bool = False) -> Dict[str, Any]:
    """a writer-produced file; returns its description (the calls are C06-style but always valid)."""
    from flipjump.fjm.fjm_consts import FJMVersion
    from flipjump.fjm.fjm_writer import Writer

    w = rng.choice([8, 16, 32, 64])
    version = rng.randrange(4)
    mask = (1 << w) - 1
    top = (1 << w) // w
    writer = Writer(path, w, FJMVersion(version), lzma_preset=rng.randrange(10),
                    flags=0 if version == 0 else rng.choice([0, 0, 1, 1 << 63]))
    n = rng.choice([1, 1, 2, 3, 5])
    cursor = 0
    segments = []
    for i in range(n):
        dlen = 2 * rng.choice([0, 1, 2, 4, 8, 20] + ([60] if big else []))
        tail = rng.choice([0, 0, 2, 4, 1000, 5000])
        length = max(2, dlen + tail)
        start = cursor if i == 0 else cursor + 2 * rng.choice([0, 1, 3, 100])
        if start + length > top:
            break
        words = [rng.choice([0, 1, mask, rng.getrandbits(w), (start + k) * w & mask]) for k in range(dlen)]
        writer.add_simple_segment_with_data(start, words) if (tail == 0 and dlen) else writer.add_segment(
            start, length, writer.add_data(words), dlen)
        if tail == 0 and dlen:
            length = dlen
        segments.append((start, length, words))
        cursor = start + length
    writer.write_to_file()
    return {'w': w, 'version': version, 'segments': [(s, n) for s, n, _ in segments]}


def large_file(rng: random.Random, path: Path) -> None:
    """a writer-produced file whose payload is far larger than any internal chunking (incompressible words):
    damage, truncation and trailing data then land beyond the first 64 KiB of the (compressed) payload."""
    from flipjump.fjm.fjm_consts import FJMVersion
    from flipjump.fjm.fjm_writer import Writer

    w = rng.choice([16, 32, 64])
    version = rng.choice([3, 3, 3, 2, 1, 0])
    writer = Writer(path, w, FJMVersion(version), lzma_preset=rng.choice([0, 1, 6]))
    n_words = 2 * rng.choice([9000, 15000, 24000]) * (64 // w)
    n_words = min(n_words, ((1 << w) // w) - 64)
    n_words -= n_words % 2
    words = [rng.getrandbits(w) for _ in range(n_words)]
    writer.add_segment(0, n_words + rng.choice([0, 2, 2000]), writer.add_data(words), n_words)
    writer.write_to_file()


def image_of(path: Path) -> Tuple[str, Any]:
    """('ok', image) / ('rejected', msg) / ('raw', exception)."""
    from flipjump.fjm.fjm_reader import Reader
    from flipjump.utils.exceptions import FlipJumpReadFjmException

    try:
        reader = Reader(path)
    except FlipJumpReadFjmException as exc:
        return 'rejected', str(exc)[:120]
    except BaseException as exc:  # noqa: B902
        return 'raw', exc
    segs = [(s.segment_start, s.segment_length) for s in reader.memory_segments]
    return 'ok', (reader.memory_width, segs, {k: v for k, v in reader.memory.items() if v}, reader)


# ------------------------------------------------------------------------------ independent parse + consistency predicate
def parse(data: bytes) -> Optional[Dict[str, Any]]:
    """my own decoding of the documented layout; None when the bytes cannot even be framed."""
    try:
        magic, w, version, nseg = struct.unpack_from(HEADER, data, 0)
        pos = struct.calcsize(HEADER)
        flags = reserved = 0
        if version != 0:
            flags, reserved = struct.unpack_from(EXT, data, pos)
            pos += struct.calcsize(EXT)
        if nseg > (len(data) - pos) // 32:
            return None
        segs = [struct.unpack_from(SEG, data, pos + 32 * i) for i in range(nseg)]
        pos += 32 * nseg
        payload = data[pos:]
        if version == 3:
            payload = lzma.decompress(payload, format=lzma.FORMAT_RAW, filters=[{'id': lzma.FILTER_LZMA2}])
        if w not in (8, 16, 32, 64) or len(payload) % (w // 8):
            return None
        return {'magic': magic, 'w': w, 'version': version, 'segments': segs, 'pool': len(payload) // (w // 8),
                'reserved': reserved, 'flags': flags}
    except (struct.error, lzma.LZMAError, EOFError, ValueError, MemoryError):
        return None


def inconsistencies(info: Dict[str, Any]) -> List[str]:
    """field-level contradictions: the parts of a file disagree with each other."""
    out = []
    segs = info['segments']
    for start, length, dstart, dlen in segs:
        if dstart + dlen > info['pool']:
            out.append('data-range-outside-pool')
        if dlen > length:
            out.append('data-longer-than-segment')
    spans = sorted((s, s + n) for s, n, _, _ in segs if n > 0)
    for (a0, a1), (b0, b1) in zip(spans, spans[1:]):
        if b0 < a1:
            out.append('overlapping-segments')
            break
    return sorted(set(out))


def observations(info: Dict[str, Any]) -> List[str]:
    """not writer-producible but not contradictory: reported, never a verdict."""
    out = []
    top = (1 << info['w']) // info['w']
    for start, length, dstart, dlen in info['segments']:
        if start % 2 or length % 2:
            out.append('odd-start-or-length')
        if length == 0:
            out.append('zero-length-segment')
        if start + length > top:
            out.append('segment-beyond-address-space')
    return sorted(set(out))


# ------------------------------------------------------------------------------ running accepted files
def _alarm(signum, frame):  # type: ignore[no-untyped-def]
    raise KeyboardInterrupt('fjverif watchdog')


def run_accepted(path: Path, engine: str, counters: Dict[str, Any]) -> Optional[str]:
    """fjm_run.run on an accepted file must end in a termination or a library exception."""
    from flipjump.interpreter import fjm_run
    from flipjump.utils.exceptions import FlipJumpException

    engines.apply_env({'engine': engine})
    old = signal.signal(signal.SIGALRM, _alarm)
    signal.setitimer(signal.ITIMER_REAL, 1.0)
    try:
        try:
            fjm_run.run(path)
            counters['runs_terminated'] = counters.get('runs_terminated', 0) + 1
        finally:
            signal.setitimer(signal.ITIMER_REAL, 0)
            signal.signal(signal.SIGALRM, old)
            engines.clear_env()
    except FlipJumpException:
        counters['runs_library_exception'] = counters.get('runs_library_exception', 0) + 1
    except KeyboardInterrupt:
        counters['runs_cut_by_watchdog'] = counters.get('runs_cut_by_watchdog', 0) + 1
    except BaseException as exc:  # noqa: B902
        return f'{type(exc).__name__}: {str(exc)[:160]}'
    return None


class Judge:
    def __init__(self, journal: Any):
        self.counters: Dict[str, Any] = {}
        self.violations: List[Dict[str, Any]] = []
        self.hashes: List[str] = []
        self.journal = journal
        self.path = engines.tmpdir() / 'c10-case.fjm'

    def bad(self, key: str, what: str, data: bytes, extra: Optional[Dict[str, Any]] = None) -> None:
        if sum(1 for v in self.violations if v['key'] == key) < 3:
            self.violations.append({'key': key, 'what': what, 'replay': {'file_hex': data.hex(), **(extra or {})}})

    def count(self, key: str, n: int = 1) -> None:
        self.counters[key] = self.counters.get(key, 0) + n

    def feed(self, data: bytes, origin: str, original_image: Optional[Tuple[Any, ...]] = None, run: bool = True) -> str:
        self.journal.note({'file_hex': data.hex() if len(data) < 20000 else data[:20000].hex(), 'origin': origin})
        self.path.write_bytes(data)
        old = signal.signal(signal.SIGALRM, _alarm)
        signal.setitimer(signal.ITIMER_REAL, 30.0)
        try:
            status, value = image_of(self.path)
        except KeyboardInterrupt:
            status, value = 'timeout', None
        finally:
            signal.setitimer(signal.ITIMER_REAL, 0)
            signal.signal(signal.SIGALRM, old)
        self.count('monitor_evaluations')
        self.count(f'reader_{status}')
        self.count(f'origin/{origin}')
        if status == 'timeout':
            self.counters.setdefault('inconclusive_timeouts', 0)
            self.counters['inconclusive_timeouts'] += 1
            return status
        if status == 'raw':
            self.bad(f'reader-raw-exception/{type(value).__name__}', f'{origin}: Reader raised {value!r} on a {len(data)}-byte file',
                     data, {'origin': origin})
            return status
        if status == 'rejected':
            return status
        w, segs, nonzero, reader = value
        if original_image is not None and (w, segs, nonzero) != original_image:
            self.bad('torn-file-accepted-with-different-image',
                     f'{origin}: a strict prefix ({len(data)} bytes) loads as a different image', data, {'origin': origin})
        info = parse(data)
        if info is None:
            self.count('accepted_but_unframed_by_monitor')
        else:
            for inc in inconsistencies(info):
                self.bad(f'inconsistent-file-accepted/{inc}', f'{origin}: accepted although {inc}: segments={info["segments"][:3]} pool={info["pool"]}',
                         data, {'origin': origin})
            for obs in observations(info):
                self.count(f'observation/{obs}')
            top_key = max(reader.memory) if reader.memory else 0
            del top_key
        if run:
            runnable = True
            try:
                reader.assert_runnable()
            except Exception:  # noqa: B902
                runnable = False
            engine = 'native' if self.counters['monitor_evaluations'] % 2 else 'fast'
            failure = run_accepted(self.path, engine, self.counters)
            if failure is not None:
                self.bad(f'run-raw-exception/{engine}/{failure.split(":")[0]}', f'{origin}: fjm_run.run raised {failure}', data,
                         {'origin': origin, 'runnable': runnable})
        return status


# ------------------------------------------------------------------------------ shards
def shard_prefix(spec: Dict[str, Any], judge: Judge) -> List[Any]:
    rng = rng_for(spec['seed'], PROPERTY, 'prefix', spec['shard'])
    samples = []
    src = engines.tmpdir() / 'c10-src.fjm'
    for index in range(spec['files']):
        meta = sample_file(rng, src, big=index % 3 == 0)
        data = src.read_bytes()
        status, value = image_of(src)
        if status != 'ok':
            judge.bad('reader-refuses-writer-output', f'writer file refused: {value}', data)
            continue
        original = value[:3]
        judge.hashes.append(case_hash(data.hex()))
        for cut in range(len(data)):
            judge.feed(data[:cut], 'prefix', original_image=original, run=(cut % 16 == 0))
            judge.count('prefixes')
        judge.count('files_fully_prefix_enumerated')
        if index == 0:
            samples.append({'file_bytes': len(data), **meta, 'prefixes_tried': len(data)})
    return samples


FIELD_VALUES = [0, 1, 2, 3, 0xFF, 0xFFFF, 1 << 31, 1 << 32, (1 << 63), (1 << 64) - 1, (1 << 64) - 2]


def mutate(rng: random.Random, data: bytes) -> Tuple[bytes, str]:
    info = parse(data)
    kind = rng.choice(['header-field', 'segment-field', 'segment-field', 'segment-field', 'bitflip', 'truncate-extend',
                       'splice', 'payload-damage', 'random', 'structured', 'segment-table'])
    b = bytearray(data)
    version = info['version'] if info else 1
    seg_off = 20 + (12 if version else 0)
    if kind == 'header-field':
        name, off, fmt = rng.choice([('magic', 0, '<H'), ('w', 2, '<H'), ('version', 4, '<Q'), ('nseg', 12, '<Q')] +
                                    ([('flags', 20, '<Q'), ('reserved', 28, '<L')] if version else []))
        limit = (1 << (8 * struct.calcsize(fmt))) - 1
        true = struct.unpack_from(fmt, b, off)[0]
        value = rng.choice(FIELD_VALUES + [true + 1, true - 1, 8, 16, 32, 64, 4, 5]) & limit
        struct.pack_into(fmt, b, off, value)
        return bytes(b), f'header-field/{name}'
    if kind == 'segment-field' and info and info['segments']:
        i = rng.randrange(len(info['segments']))
        f = rng.randrange(4)
        off = seg_off + 32 * i + 8 * f
        true = info['segments'][i][f]
        neighbours = list(info['segments'][i]) + [info['pool'], info['pool'] + 1, info['pool'] - 1]
        if len(info['segments']) > 1:
            other = info['segments'][(i + 1) % len(info['segments'])]
            neighbours += [other[0], other[0] + other[1] - 1, other[0] + 1, other[0] - 1]
        value = rng.choice(FIELD_VALUES + [true + 1, true - 1, true + 2, true - 2] + neighbours) & ((1 << 64) - 1)
        if off + 8 <= len(b):
            struct.pack_into('<Q', b, off, value)
        return bytes(b), f'segment-field/{("start", "length", "data_start", "data_length")[f]}'
    if kind == 'bitflip' and b:
        for _ in range(rng.choice([1, 1, 2, 8])):
            pos = rng.randrange(len(b))
            b[pos] ^= 1 << rng.randrange(8)
        return bytes(b), 'bitflip'
    if kind == 'truncate-extend':
        if rng.random() < 0.5 and b:
            return bytes(b[:rng.randrange(len(b))]), 'truncate'
        return bytes(b) + bytes(rng.getrandbits(8) for _ in range(rng.choice([1, 2, 7, 8, 64]))), 'extend'
    if kind == 'splice' and len(b) > 8:
        a, c = sorted(rng.randrange(len(b)) for _ in range(2))
        return bytes(b[:a] + b[c:] + b[a:c]), 'splice'
    if kind == 'payload-damage' and info:
        start = seg_off + 32 * len(info['segments'])
        if start < len(b):
            for _ in range(rng.choice([1, 3, 10])):
                b[rng.randrange(start, len(b))] = rng.getrandbits(8)
        return bytes(b), 'payload-damage'
    if kind == 'random':
        return bytes(rng.getrandbits(8) for _ in range(rng.choice([0, 1, 19, 20, 32, 52, 64, 200]))), 'random-bytes'
    if kind == 'segment-table':
        # a well-formed file (every data range inside the pool, data <= length) whose ONLY possible contradiction is the
        # relation between segments: overlapping, nested, identical, with empty entries sorted between them, in any table order
        w = rng.choice([8, 16, 32, 64])
        version = rng.choice([0, 1, 2, 3])
        table = []
        pool = 0
        for _ in range(rng.choice([2, 3, 3, 4, 5])):
            start = 2 * rng.randrange(0, 10)
            length = rng.choice([0, 0, 2, 2, 4, 8, 12])
            dlen = rng.choice([0, length, 2 * rng.randrange(0, length // 2 + 1)])
            table.append((start, length, pool, dlen))
            pool += dlen
        out = bytearray(struct.pack(HEADER, 0x4A46, w, version, len(table)))
        if version:
            out += struct.pack(EXT, 0, 0)
        for seg in table:
            out += struct.pack(SEG, *seg)
        payload = b''.join(rng.randrange(1, 1 << min(w, 16)).to_bytes(w // 8, 'little') for _ in range(pool))
        if version == 3:
            payload = lzma.compress(payload, format=lzma.FORMAT_RAW, filters=[{'id': lzma.FILTER_LZMA2, 'preset': 0}])
        return bytes(out) + payload, 'segment-table'
    # structure-aware random file
    w = rng.choice([8, 16, 32, 64, 64, 7, 0])
    version = rng.choice([0, 1, 2, 3, 3, 4])
    nseg = rng.choice([0, 1, 2, 3, 1 << 40])
    out = bytearray(struct.pack(HEADER, 0x4A46, w, version, nseg))
    if version:
        out += struct.pack(EXT, rng.choice([0, 1, 1 << 63]), rng.choice([0, 0, 0, 1]))
    pool_words = rng.choice([0, 2, 4, 16])
    for _ in range(min(nseg, 4)):
        out += struct.pack(SEG, *[rng.choice([0, 2, 4, 6, 8, 1, 3, pool_words, 1 << 62, (1 << 64) - 2, rng.getrandbits(6)])
                                 for _ in range(4)])
    payload = bytes(rng.getrandbits(8) for _ in range(pool_words * max(1, (w if w in (8, 16, 32, 64) else 8) // 8)))
    if version == 3 and rng.random() < 0.7:
        payload = lzma.compress(payload, format=lzma.FORMAT_RAW, filters=[{'id': lzma.FILTER_LZMA2, 'preset': 0}])
        if rng.random() < 0.3 and payload:
            payload = payload[:rng.randrange(len(payload))]
    return bytes(out) + payload, 'structured'


def mutate_large(rng: random.Random, data: bytes) -> Tuple[bytes, str]:
    kind = rng.choice(['damage', 'damage', 'tail', 'truncate', 'zero-run', 'intact'])
    b = bytearray(data)
    body = 64  # past header + segment table
    if kind == 'damage':
        for _ in range(rng.choice([1, 2, 5])):
            b[rng.randrange(body, len(b))] = rng.choice([0, 0, 1, 0xFF, rng.getrandbits(8)])
    elif kind == 'tail':
        b += bytes(rng.getrandbits(8) for _ in range(rng.choice([1, 8, 70000, 140000])))
    elif kind == 'truncate':
        del b[rng.randrange(body, len(b)):]
    elif kind == 'zero-run':
        pos = rng.randrange(body, len(b))
        b[pos:pos + rng.choice([1, 16, 70000])] = bytes(min(len(b) - pos, rng.choice([1, 16, 70000])))
    return bytes(b), f'large/{kind}'


def shard_mutate(spec: Dict[str, Any], judge: Judge) -> List[Any]:
    rng = rng_for(spec['seed'], PROPERTY, 'mutate', spec['shard'])
    src = engines.tmpdir() / 'c10-src.fjm'
    samples = []
    base: List[bytes] = []
    large: List[bytes] = []
    for index in range(spec['cases']):
        if index % 40 == 0:
            base = []
            for _ in range(4):
                sample_file(rng, src, big=False)
                base.append(src.read_bytes())
        if index % 150 == 0:
            large_file(rng, src)
            large = [src.read_bytes()]
        if index % 12 == 11 and large:
            data, label = mutate_large(rng, large[0])
        else:
            data, label = mutate(rng, rng.choice(base))
        judge.count(f'mutation/{label}')
        judge.feed(data, label)
        judge.hashes.append(case_hash(data.hex()))
        if index == 0:
            samples.append({'mutation': label, 'file_hex': data[:96].hex(), 'bytes': len(data)})
    return samples


def run_shard(spec: Dict[str, Any], journal: Any) -> Dict[str, Any]:
    soft, hard = resource.getrlimit(resource.RLIMIT_AS)
    resource.setrlimit(resource.RLIMIT_AS, (6 << 30, hard))  # a header-driven giant allocation becomes a MemoryError
    judge = Judge(journal)
    samples = shard_prefix(spec, judge) if spec['kind'] == 'prefix' else shard_mutate(spec, judge)
    engines.cleanup_tmpdir()
    inconclusive = []
    if judge.counters.get('inconclusive_timeouts'):
        inconclusive.append(f'{judge.counters["inconclusive_timeouts"]} reader calls exceeded the 30 s watchdog')
    return {'counters': judge.counters, 'violations': judge.violations, 'hashes': judge.hashes, 'samples': samples,
            'evaluations': judge.counters.get('monitor_evaluations', 0), 'inconclusive': inconclusive}


def replay_case(record: Dict[str, Any], journal: Any) -> Dict[str, Any]:
    judge = Judge(journal)
    judge.feed(bytes.fromhex(record['file_hex']), record.get('origin', 'replay'))
    return {'counters': judge.counters, 'violations': judge.violations, 'evaluations': 1, 'hashes': []}


def shard_crash(spec: Dict[str, Any], res: Dict[str, Any]) -> Optional[Dict[str, Any]]:
    if res.get('rc') is not None and res.get('rc') != 'memory' and res.get('journal'):
        return {'key': f'process-died/rc{res["rc"]}', 'what': f'worker died (rc={res["rc"]}) while handling a file',
                'replay': res['journal']}
    return None


def finalize(tier: str, seed: int, counters: Dict[str, Any], evaluations: int, distinct: int) -> Dict[str, Any]:
    inconclusive = []
    for key in ('files_fully_prefix_enumerated', 'reader_ok', 'reader_rejected', 'mutation/header-field/w', 'mutation/header-field/nseg',
                'mutation/segment-field/data_length', 'mutation/segment-field/start', 'mutation/payload-damage',
                'mutation/structured', 'runs_terminated'):
        if not counters.get(key):
            inconclusive.append(f'{key} never observed')
    return {
        'coverage': {
            'rule': 'every strict prefix of each sampled writer-produced file (all versions/widths; enumerates every crash '
                    'offset of write_to_file) + single-field corruptions of header and segment table (0, 1, max, 2^63, '
                    'true value +-1/2, neighbouring fields), payload bit-flips/truncations/splices (incl. inside the lzma '
                    'stream), random and structure-aware random files. oracle: exception type; prefix images equal the '
                    'original; accepted files satisfy an independent consistency predicate; fjm_run.run on accepted files '
                    'ends in a termination or library exception. evaluation = one Reader() call; distinct by file bytes',
            'exhaustive': False,
        },
        'inconclusive': inconclusive,
        'assumptions': ['RLIMIT_AS 6 GiB per worker: an allocation unrelated to the file size becomes MemoryError',
                        '"never hangs" is restated as: each Reader() call on a file < 64 KiB returns within 30 s',
                        'odd starts/lengths, zero-length segments and segments beyond the 2^w-bit space are counted as '
                        'observations (non-canonical, not contradictory)'],
    }
