"""
Shared by C01 and C07 (and re-used by C11 under the sanitizer build): run one generated image
under a list of engine configurations and compare every observation with the reference machine.
"""

from __future__ import annotations

import random
from typing import Any, Dict, List, Optional, Tuple

from fjverif import engines, imagegen
from fjverif.common import case_hash
from fjverif.common import rng_for
from fjverif.refmachine import RefMachine, Segments

RING_CHOICES = [None, 0, 1, 2, 3, 10, 64]


def c01_configs(rng: random.Random, case: Dict[str, Any]) -> List[Dict[str, Any]]:
    version = rng.randrange(4)
    # (the last-ops ring of length 10 is what the fj command and the quickstart API run with: the native engine then takes its
    # generic loop instead of the flat one)
    return [{'engine': e, 'version': version} for e in ('featured', 'fast', 'native')] + [{'engine': 'native', 'version': version, 'ring': 10}]


def c07_configs(rng: random.Random, case: Dict[str, Any], wide: bool = False) -> List[Dict[str, Any]]:
    version = rng.randrange(4)
    ring = rng.choice(RING_CHOICES[1:])
    cuts = [c for c in case.get('cuts', []) if c > 0] or [5]
    base = [
        {'engine': 'featured', 'ring': ring},
        {'engine': 'fast'},
        {'engine': 'fast', 'ring': ring},
        {'engine': 'native'},
        {'engine': 'native', 'ring': ring},
        {'engine': 'native', 'no_flat': True},
        {'engine': 'native', 'no_flat': True, 'ring': rng.choice(RING_CHOICES[2:])},
        {'engine': 'native', 'alloc_fail': True},
        {'engine': 'native', 'measure': True},
        {'engine': 'native', 'flat_max_words': rng.choice(cuts)},
        {'engine': 'native', 'flat_env': rng.choice(cuts)},
        {'engine': 'native', 'flat_max_words': rng.choice(cuts), 'ring': rng.choice(RING_CHOICES[2:])},
        {'engine': 'native', 'flat_max_words': rng.choice([1, 2, 3, 5, 8, (1 << 14) - 1, (1 << 14) + 1, 1 << 62])},
    ]
    if wide:
        for cut in cuts:
            base.append({'engine': 'native', 'flat_max_words': cut})
            base.append({'engine': 'native', 'flat_max_words': cut, 'measure': True})
            base.append({'engine': 'native', 'flat_env': cut, 'ring': rng.choice(RING_CHOICES[2:])})
        base.append({'engine': 'native', 'measure': True, 'no_flat': True})
        base.append({'engine': 'featured'})
    for cfg in base:
        cfg['version'] = version
    return [cfg for cfg in base if flat_window_is_harmless(case, cfg)]


def flat_window_is_harmless(case: Dict[str, Any], cfg: Dict[str, Any]) -> bool:
    """the flat window a configuration would really allocate: kept <= 2^24 words (128 MB) or so large that the
    allocation is certain to fail (>= 2^45 words) - the harness must not ask the machine for tens of gigabytes."""
    limit = cfg.get('flat_max_words') or cfg.get('flat_env') or (1 << 23)
    if cfg.get('engine') != 'native' or cfg.get('no_flat') or cfg.get('alloc_fail'):
        return True
    window = max([min(s + n, limit) for s, n in case['segments'] if s < limit] or [0])
    return window <= (1 << 24) or window >= (1 << 45)


def interesting_words(case: Dict[str, Any], ref: RefMachine, rng: random.Random, extra: int = 12) -> List[int]:
    words = set(ref.touched)
    words.update(int(k) for k, _ in case['mem'])
    segs = case['segments']
    for _ in range(extra):
        s, n = rng.choice(segs)
        words.add(s + rng.randrange(n))
    for s, n in segs:
        words.update((s, s + n - 1))
    return sorted(w for w in words if ref.seg.contains(w))


def classify(case: Dict[str, Any], ref: RefMachine, config: Dict[str, Any], field: str, obs: Dict[str, Any]) -> str:
    """mechanism key for a divergence (never contains seeds or values)."""
    engine = config.get('engine', 'native')
    storage = obs.get('storage') or ''
    loop = ''
    if engine == 'native':
        loop = 'measure' if config.get('measure') else ('ring' if config.get('ring') else 'noring')
        engine = f'native-{storage or "unknown"}-{loop}'
    top_bit = 1 << case['w']
    if case['w'] == 64 and config.get('engine', 'native') == 'native' and (
            (ref.fault_address or 0) >= top_bit or touches_top(case, ref)):
        # the reference machine's access went past the last bit of the 2^64-bit address space: the native
        # engine's uint64 address arithmetic wraps there (one mechanism, whatever field shows it)
        return 'native/top-of-address-space-wrap'
    return f'{engine}/{field}'


def touches_top(case: Dict[str, Any], ref: RefMachine) -> bool:
    last_word = (1 << case['w']) // case['w'] - 1
    return last_word in ref.touched and any(ip + 2 * case['w'] > (1 << case['w']) for ip in ref.visits)


def compare_case(case: Dict[str, Any], configs: List[Dict[str, Any]], rng: random.Random, *, check_memory: bool,
                 check_ring: bool, counters: Dict[str, Any], journal: Any = None,
                 ref: Optional[RefMachine] = None) -> Tuple[List[Dict[str, Any]], RefMachine]:
    """returns (violations, reference machine after its run)."""
    if ref is None:
        ref = imagegen.reference_run(case, ring_len=64 if check_ring else None)
    Device = engines.make_recording_device()
    input_bytes = bytes.fromhex(case['input'])
    words = interesting_words(case, ref, rng) if check_memory else []
    expected_mem = {wd: ref.peek(wd) for wd in words}
    violations: List[Dict[str, Any]] = []
    paths: Dict[int, Any] = {}
    for config in configs:
        version = config.get('version', 1)
        if version not in paths:
            path = engines.tmpdir() / f'case-v{version}.fjm'
            try:
                engines.write_case(case, path, version)
            except Exception as exc:  # the writer refusing a generated image is C06's business
                counters.setdefault('writer_rejected', 0)
                counters['writer_rejected'] += 1
                counters.setdefault('writer_rejected_samples', [])
                if len(counters['writer_rejected_samples']) < 3:
                    counters['writer_rejected_samples'].append(repr(exc)[:200])
                continue
            paths[version] = path
        label = engines.config_label({k: v for k, v in config.items() if k != 'version'})
        if journal is not None:
            journal.note({'case': case, 'config': config})
        device = Device(input_bytes)
        obs = engines.run_engine(paths[version], config, device)
        counters.setdefault('runs_by_config', {})
        counters['runs_by_config'][label.split('=')[0] if 'flat' in label else label] = \
            counters['runs_by_config'].get(label.split('=')[0] if 'flat' in label else label, 0) + 1
        if obs.get('storage'):
            counters.setdefault('storage_modes', {})
            counters['storage_modes'][obs['storage']] = counters['storage_modes'].get(obs['storage'], 0) + 1
        counters['monitor_evaluations'] = counters.get('monitor_evaluations', 0) + 1

        def bad(field: str, got: Any, want: Any) -> None:
            obs_clean = {k: v for k, v in obs.items() if k != 'exc_obj'}
            violations.append({
                'key': classify(case, ref, config, field, obs),
                'what': f'{label}: {field} got {got!r} want {want!r} (ref: {ref.cause} after {ref.ops} ops)',
                'replay': {'case': case, 'config': config, 'field': field, 'got': repr(got), 'want': repr(want),
                           'observed': obs_clean, 'kind': 'enginecmp'},
            })

        if obs['cause'] != ref.cause:
            bad('cause', (obs['cause'], obs.get('exc')), ref.cause)
            continue
        if obs['ops'] != ref.ops:
            bad('ops', obs['ops'], ref.ops)
        if ref.fault_address is not None and obs['fault'] != ref.fault_address:
            bad('fault-address', obs['fault'], ref.fault_address)
        if [tuple(e) for e in device.log] != ref.io_log:
            bad('io-log', device.log[-6:], ref.io_log[-6:])
        if check_ring:
            ring_len = config.get('ring')
            want_ring = None if ring_len is None else (ref.ring[-ring_len:] if ring_len else [])
            if obs['ring'] != want_ring:
                bad('last-ops', obs['ring'], want_ring)
        if check_memory and device.memory is not None:
            got_mem = engines.read_words(device, words)
            diff = [(wd, got_mem[wd], expected_mem[wd]) for wd in words if got_mem[wd] != expected_mem[wd]]
            counters['memory_words_compared'] = counters.get('memory_words_compared', 0) + len(words)
            if diff:
                bad('final-memory', diff[:4], 'reference memory')
    return violations, ref


def nontrivial(ref: RefMachine) -> bool:
    return ref.ops >= 3 and len(ref.features) >= 2


def note_features(counters: Dict[str, Any], case: Dict[str, Any], ref: RefMachine) -> None:
    feats = counters.setdefault('features', {})
    for f in ref.features:
        feats[f] = feats.get(f, 0) + 1
    causes = counters.setdefault('ref_causes', {})
    causes[ref.cause] = causes.get(ref.cause, 0) + 1
    geoms = counters.setdefault('geometries', {})
    key = f'{case["geom"]}/w{case["w"]}'
    geoms[key] = geoms.get(key, 0) + 1
    counters['ref_ops_total'] = counters.get('ref_ops_total', 0) + ref.ops


def sample_of(case: Dict[str, Any], ref: RefMachine) -> Dict[str, Any]:
    return {'w': case['w'], 'geom': case['geom'], 'segments': case['segments'][:6], 'mem': case['mem'][:12],
            'input': case['input'], 'ref': {'cause': ref.cause, 'ops': ref.ops, 'fault': ref.fault_address,
                                            'features': sorted(ref.features)}}


def replay_case(record: Dict[str, Any], journal: Any) -> Dict[str, Any]:
    case, config = record['case'], record['config']
    counters: Dict[str, Any] = {}
    rng = random.Random(0)
    violations, _ = compare_case(case, [config], rng, check_memory=True, check_ring=True, counters=counters)
    return {'violations': violations, 'counters': counters, 'evaluations': 1, 'hashes': [case_hash(case)]}


# ------------------------------------------------------------------------------ corpus programs against the reference machine
def corpus_rows() -> List[Dict[str, Any]]:
    import csv

    from fjverif.common import REPO_ROOT

    tables = REPO_ROOT / 'tests' / 'tests_tables'
    compiled: Dict[str, List[str]] = {}
    rows: List[Dict[str, Any]] = []
    for name in ('test_compile_fast.csv', 'test_compile_medium.csv', 'test_compile_hexlib.csv'):
        if (tables / name).exists():
            for r in csv.reader(open(tables / name)):
                if r:
                    r = [x.strip() for x in r]
                    compiled[r[0]] = r
    for name in ('test_run_fast.csv', 'test_run_medium.csv', 'test_run_hexlib.csv'):
        if (tables / name).exists():
            for r in csv.reader(open(tables / name)):
                if r:
                    r = [x.strip() for x in r]
                    if r[0] in compiled:
                        c = compiled[r[0]]
                        rows.append({'name': r[0], 'files': [str(REPO_ROOT / p.strip()) for p in c[1].split('|')], 'w': int(c[3]),
                                     'stl': c[6] == 'True', 'input': str(REPO_ROOT / r[2]) if r[2] else None})
    return rows


def shard_corpus(spec: Dict[str, Any], journal: Any, prop: str, configs: List[Dict[str, Any]], check_memory: bool) -> Dict[str, Any]:
    """real programs (assembled by the tree under test, real stl tables and pointer code) on the three engines, judged by
    the reference machine run on the image the reader loads."""
    import contextlib
    import io
    from pathlib import Path

    import flipjump
    from flipjump.fjm.fjm_consts import FJMVersion
    from flipjump.fjm.fjm_reader import Reader

    from fjverif.refmachine import RefMachine

    rng = rng_for(spec['seed'], prop, 'corpus', spec['shard'])
    counters: Dict[str, Any] = {}
    violations: List[Dict[str, Any]] = []
    hashes: List[str] = []
    rows = corpus_rows()[spec['shard']::spec['shards']]
    rng.shuffle(rows)
    Device = engines.make_recording_device()
    for row in rows[:spec['programs']]:
        out = engines.tmpdir() / 'corpus.fjm'
        try:
            with contextlib.redirect_stdout(io.StringIO()):
                flipjump.assemble([Path(f) for f in row['files']], out, memory_width=row['w'], use_stl=row['stl'],
                                  fjm_version=FJMVersion(rng.randrange(4)), print_time=False, warning_as_errors=False)
        except flipjump.FlipJumpException:
            counters['corpus_not_assembled'] = counters.get('corpus_not_assembled', 0) + 1
            continue
        try:
            reader = Reader(out)
        except flipjump.FlipJumpException as exc:
            violations.append({'key': 'corpus/assembled-image-refused-by-reader', 'what': f'{row["files"]}: {str(exc)[:200]}',
                               'replay': {'kind': 'corpus', 'row': row}})
            continue
        stdin = Path(row['input']).read_bytes() if row['input'] else b''
        ref = RefMachine(row['w'], [(sg.segment_start, sg.segment_length) for sg in reader.memory_segments],
                         {k: v for k, v in reader.memory.items() if v}, stdin, track=False, ring_len=64)
        ref.run(2_500_000)
        if ref.cause == 'cut':
            counters['corpus_too_long_for_reference'] = counters.get('corpus_too_long_for_reference', 0) + 1
            continue
        counters['corpus_programs'] = counters.get('corpus_programs', 0) + 1
        counters['corpus_reference_ops'] = counters.get('corpus_reference_ops', 0) + ref.ops
        seg_words = Segments([(sg.segment_start, sg.segment_length) for sg in reader.memory_segments])
        mem_words = sorted(wd for wd in ref.mem if seg_words.contains(wd)) if check_memory else []
        for config in configs:
            engine = config['engine']
            cap = 120_000 if spec.get('tier') == 'quick' else 1_500_000
            if engine == 'featured' and ref.ops > cap // 3:
                continue
            if engine == 'fast' and ref.ops > cap:
                continue
            label = engines.config_label(config)
            journal.note({'corpus': row['name'], 'config': config})
            device = Device(stdin)
            obs = engines.run_engine(out, config, device, watchdog_s=300)
            counters['monitor_evaluations'] = counters.get('monitor_evaluations', 0) + 1
            if obs.get('storage'):
                counters.setdefault('corpus_storage_modes', {})
                counters['corpus_storage_modes'][obs['storage']] = counters['corpus_storage_modes'].get(obs['storage'], 0) + 1
            got = [obs['cause'], obs['ops'], obs['fault'], [tuple(e) for e in device.log]]
            want = [ref.cause, ref.ops, ref.fault_address, ref.io_log]
            names = ['cause', 'ops', 'fault-address', 'io-log']
            if config.get('ring') is not None:
                names.append('last-ops')
                got.append(obs['ring'])
                want.append(ref.ring[-config['ring']:] if config['ring'] else [])
            if check_memory and device.memory is not None and got[:2] == want[:2]:
                got_mem = engines.read_words(device, mem_words)
                diff = [(wd, got_mem[wd], ref.peek(wd)) for wd in mem_words if got_mem[wd] != ref.peek(wd)]
                counters['memory_words_compared'] = counters.get('memory_words_compared', 0) + len(mem_words)
                names.append('final-memory')
                got.append(diff[:3])
                want.append([])
            if got != want:
                field = next(n for n, a, b in zip(names, got, want) if a != b)
                violations.append({'key': f'corpus/{label.split("=")[0]}/{field}',
                                   'what': f'{row["name"]} on {label}: {field} differs from the reference '
                                           f'({got[0]}/{got[1]} vs {want[0]}/{want[1]})',
                                   'replay': {'kind': 'corpus', 'program': row['name'], 'files': row['files'], 'config': config}})
        hashes.append('corpus:' + row['name'])
    engines.cleanup_tmpdir()
    return {'counters': counters, 'violations': violations, 'hashes': hashes, 'samples': [],
            'evaluations': counters.get('monitor_evaluations', 0)}


