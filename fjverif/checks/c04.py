"""C04 - hex library macros compute their documented function for every operand (DESIGN 4, C04/C04; 3.7)."""

from __future__ import annotations

from typing import Any, Dict, List

from fjverif import engines
from fjverif.stlmon import runner, spec_hex

PROPERTY = 'C04'
LEVEL = 'exploration'
NATIVE_VARIANT = 'opt'
SPECS = spec_hex.SPECS


def plan(tier: str, seed: int) -> List[Dict[str, Any]]:
    quick = tier == 'quick'
    n_single = 16 if quick else 32
    out = [{'kind': 'single', 'part': i, 'parts': n_single, 'seed': seed, 'tier': tier, 'timeout_s': 1500 if quick else 10000}
           for i in range(n_single)]
    for i in range(4 if quick else 16):
        out.append({'kind': 'standalone-init', 'part': i, 'parts': 4 if quick else 16, 'seed': seed, 'tier': tier,
                    'timeout_s': 1500 if quick else 10000})
    for i in range(6 if quick else 16):
        out.append({'kind': 'sequence', 'part': i, 'seed': seed, 'tier': tier, 'programs': 5 if quick else 40,
                    'timeout_s': 1500 if quick else 10000})
    return out


STANDALONE_TABLES = {'add': ['add_carry'], 'sub': ['sub_carry'], 'or': ['or_dst'], 'and': ['and_dst'], 'cmp': ['cmp_dst']}


def standalone_specs(rng: Any) -> List[Any]:
    """the documented alternative to hex.init: `hex.tables.init_shared` plus only the tables a macro `@requires`, placed wherever
    the program likes (the only way to use the library at w=16). every spec gets its own init block at a drawn position: a
    table's alignment must come from the table itself, not from what hex.init happens to put in front of it."""
    import dataclasses

    out = []
    for spec in SPECS:
        tables = [t for t in spec.requires.split(',') if t]
        if not tables or any(t not in STANDALONE_TABLES for t in tables) or spec.doc.startswith(('hex/mul', 'hex/div')):
            continue
        available = {'tables_res', 'tables_ret'} | {h for t in tables for h in STANDALONE_TABLES[t]}
        if any(op.kind == 'hidden' and op.target not in available for op in spec.operands):
            continue
        filler = rng.choice([0, 1, 2, 5, 100, 200, 250, 253, 254, 255, 256, 257, 300, 400, 511, 512, 700])
        block = ('stl.startup\n;fjv_go\n' + ';\n' * filler + 'fjv_go:\n;fjv_after\nhex.tables.init_shared\n'
                 + ''.join(f'hex.{t}.init\n' for t in tables) + 'fjv_after:')
        out.append((dataclasses.replace(spec, needs=block, widths=(16, 32, 64)), sorted(available)))
    return out


def run_shard(spec: Dict[str, Any], journal: Any) -> Dict[str, Any]:
    rec = runner.Recorder(PROPERTY)
    if spec['kind'] == 'standalone-init':
        from fjverif.common import rng_for

        rng = rng_for(spec['seed'], PROPERTY, 'standalone', spec['part'])
        sub = runner.Recorder(PROPERTY)
        for index, (s_spec, available) in enumerate(standalone_specs(rng)):
            if index % spec['parts'] != spec['part']:
                continue
            hidden = [h for h in spec_hex.HIDDEN if h.name in available]
            runner.shard_single(sub, [s_spec], [0], (spec['seed'], PROPERTY, 'standalone', spec['part'], index), spec['tier'], journal,
                                hidden=hidden)
        engines.cleanup_tmpdir()
        # (programs that do not fit w=16 and the like are this shard's own business: its counters stay apart from the main ones)
        counters = {'standalone_init': {k: v for k, v in sub.counters.items() if not isinstance(v, (dict, list))},
                    'monitor_evaluations': sub.counters.get('monitor_evaluations', 0),
                    'applications_monitored': sub.counters.get('applications_monitored', 0)}
        return {'counters': counters, 'violations': sub.violations, 'hashes': sub.hashes, 'samples': [],
                'evaluations': sub.counters.get('monitor_evaluations', 0)}
    if spec['kind'] == 'single':
        indices = list(range(len(SPECS)))[spec['part']::spec['parts']]
        runner.shard_single(rec, SPECS, indices, (spec['seed'], PROPERTY, 'single', spec['part']), spec['tier'], journal,
                            hidden=spec_hex.HIDDEN)
    else:
        runner.shard_sequence(rec, SPECS, (spec['seed'], PROPERTY, 'sequence', spec['part']), spec['programs'], spec['tier'], journal,
                              ['hex', 'bit', 'field'], 'hex', hidden=spec_hex.HIDDEN, keep_going=True)
    engines.cleanup_tmpdir()
    return {'counters': rec.counters, 'violations': rec.violations, 'hashes': rec.hashes, 'samples': rec.samples,
            'evaluations': rec.counters.get('monitor_evaluations', 0),
            'distinct_extra': rec.counters.get('distinct_operand_cases', 0)}


def replay_case(record: Dict[str, Any], journal: Any) -> Dict[str, Any]:
    return {'counters': {}, 'violations': [], 'evaluations': 1, 'hashes': [],
            'inconclusive': ['the replay file carries the program text, operand values and the documented expectation']}


def finalize(tier: str, seed: int, counters: Dict[str, Any], evaluations: int, distinct: int) -> Dict[str, Any]:
    inconclusive = []
    macros = counters.get('macros', {})
    missing = sorted({s.macro for s in SPECS} - set(macros))
    if missing:
        inconclusive.append(f'macros never monitored: {missing}')
    if counters.get('monitor_evaluations', 0) < 100000:
        inconclusive.append(f'only {counters.get("monitor_evaluations", 0)} monitored applications')
    if counters.get('programs_not_assembled'):
        inconclusive.append(f'{counters["programs_not_assembled"]} rendered programs did not assemble: {counters.get("assembly_errors")}')
    if counters.get('unbindable'):
        inconclusive.append(f'{counters["unbindable"]} (macro, n, w) combinations could not be bound to variables')
    if not counters.get('standalone_init', {}).get('monitor_evaluations'):
        inconclusive.append('no macro was monitored with standalone table inits (hex.tables.init_shared + hex.<table>.init)')
    if not counters.get('sequence_programs'):
        inconclusive.append('no sequence program ran')
    if counters.get('applications_checked_with_a_stale_carry', 0) < 1000:
        inconclusive.append('composition half of the property: fewer than 1000 applications ran with a carry left set by an earlier macro')
    if not counters.get('fast_engine_slices'):
        inconclusive.append('no slice was re-run on the pure-Python fast loop')
    return {
        'coverage': {
            'rule': 'SYNC-monitored runs of the real library on the real interpreter: per documented hex macro a single-macro '
                    'program whose operands are poked through DeviceMemory - exhaustively when the bits the macro reads are <= 16 '
                    '(e.g. all 65536 pairs of 8-bit operands), boundary-biased random otherwise - and random sequence programs of '
                    '4-40 applications over shared variables. at every SYNC every cell of every declared variable (destinations, '
                    'sources, cells beyond [:n], bystanders) and the branch marker are compared with the spec table transcribed '
                    'from the macro doc comments. evaluation = one monitored macro application; distinct = distinct (application, operand values read) pairs, counted by the monitor per program (programs are disjoint across shards) plus distinct programs',
            'macros_in_spec_table': len({s.macro for s in SPECS}),
            'spec_entries': len(SPECS),
        },
        'inconclusive': inconclusive,
        'assumptions': ['the spec table (fjverif/stlmon/spec_hex.py) is my transcription of the doc comments',
                        'undocumented aliasing of operands is not generated',
                        'library-internal state (add/sub carry, hex.mul.dst / add_carry_dst, hex.tables.res/ret, table jumpers) is '
                        'monitored as variables. the add/sub carry is legitimately left set by documented macros (scalar hex.add/sub, set_carry, not_carry): '
                        'a macro that does not name it must still compute its documented function and leave the flag as it was or clean (0). '
                        'for the other internal registers ("expected to be 0") a macro promises nothing while one of them is dirty',
                        'in sequence programs a violation is recorded and the model re-synchronised, so one discrepant macro does not '
                        'mask the composition checks of the others'],
    }
