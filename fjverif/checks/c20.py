"""C20 - the fj command, its split flows and the Python API agree (DESIGN 4, C20)."""

from __future__ import annotations

import csv
import json
import os
import re
import shutil
import struct
import subprocess
import sys
from pathlib import Path
from typing import Any, Dict, List, Optional, Tuple

from fjverif import primgen
from fjverif.common import PYTHON, REPO_ROOT, VERIF_ROOT, case_hash, rng_for

PROPERTY = 'C20'
LEVEL = 'exploration'
NATIVE_VARIANT = 'opt'

# the one-step flow without -o assembles into a temporary out.fjm: an audit hook captures its bytes when the
# interpreter opens it for reading (no source edit; the real main() runs)
CLI_WRAPPER = r'''
import os, sys
sys.path.insert(0, os.environ['VERIF_REPO']); sys.path.insert(1, os.environ['FJVERIF_ROOT'])
from fjverif import common, native_build
common.use_repo_tree(); native_build.register('opt')
capture = os.environ.get('FJVERIF_CAPTURE')
if capture:
    seen = set()
    def hook(event, args):
        if event == 'open' and isinstance(args[0], (str, bytes, os.PathLike)):
            path = os.fspath(args[0])
            if isinstance(path, bytes):
                path = path.decode('utf-8', 'replace')
            # (whatever the temporary files are called: the first .fjm / .fjd that is opened for reading)
            kind = 'out.fjm' if path.endswith('.fjm') else 'debug.fjd' if path.endswith('.fjd') else None
            if kind and kind not in seen and str(args[1]).startswith('r') and path not in seen and os.path.exists(path):
                seen.add(path); seen.add(kind)
                with open(path, 'rb') as src:  # re-entrant open of the same file is harmless: it is in `seen`
                    data = src.read()
                with open(os.path.join(capture, kind), 'wb') as dst:
                    dst.write(data)
    sys.addaudithook(hook)
from flipjump.flipjump_cli import main
sys.argv = ['fj'] + sys.argv[1:]
main()
'''

API_CHILD = r'''
import json, os, sys
sys.path.insert(0, os.environ['VERIF_REPO']); sys.path.insert(1, os.environ['FJVERIF_ROOT'])
from fjverif import common, native_build
common.use_repo_tree(); native_build.register('opt')
from pathlib import Path
import flipjump
from flipjump.fjm.fjm_consts import FJMVersion
spec = json.loads(sys.argv[1])
if spec.get('host_recursion_limit'):
    sys.setrecursionlimit(spec['host_recursion_limit'])   # the program that hosts the library has its own settings
kw = {}
if spec.get('width') is not None: kw['memory_width'] = spec['width']
if spec.get('version') is not None: kw['fjm_version'] = FJMVersion(spec['version'])
if spec.get('no_stl'): kw['use_stl'] = False
if spec.get('debug'): kw['debugging_file_path'] = Path(spec['debug'])
flipjump.assemble([Path(p) for p in spec['files']], Path(spec['out']), warning_as_errors=bool(spec.get('werror')), print_time=False, **kw)
sys.stderr.write('FJVERIF-ASSEMBLED\n')
if spec.get('run'):
    if spec.get('prelude'):
        # an earlier API run in the same process (default device, leaves a partial output byte behind): a later API call must not
        # be affected by it. its own 3 output bits never complete a byte, so nothing reaches stdout.
        flipjump.run(Path(spec['prelude']), print_time=False, print_termination=False)
    stats = flipjump.run(Path(spec['out']), print_time=False, print_termination=False)   # io_device defaults to StandardIO
    sys.stdout.flush()
    sys.stderr.write('FJVERIF-TERMINATION ' + json.dumps({'cause': str(stats.termination_cause), 'ops': stats.op_counter}) + '\n')
    # the API's own one-step call (temporary .fjm), with an in-memory device fed the same input
    from flipjump.interpreter.io_devices.FixedIO import FixedIO
    dev = FixedIO(bytes.fromhex(spec.get('stdin_hex', '')))
    kw.pop('debugging_file_path', None)
    import contextlib, io
    with contextlib.redirect_stdout(io.StringIO()):
        stats2 = flipjump.assemble_and_run([Path(p) for p in spec['files']], warning_as_errors=bool(spec.get('werror')), print_time=False,
                                           print_termination=False, io_device=dev, **kw)
    sys.stderr.write('FJVERIF-ONESTEP ' + json.dumps({'cause': str(stats2.termination_cause), 'ops': stats2.op_counter,
                                                       'out': dev.get_output(allow_incomplete_output=True).hex()}) + '\n')
'''


API_SESSION = r'''
import json, os, sys
sys.path.insert(0, os.environ['VERIF_REPO']); sys.path.insert(1, os.environ['FJVERIF_ROOT'])
from fjverif import common, native_build
common.use_repo_tree(); native_build.register('opt')
from pathlib import Path
import contextlib, io
import flipjump
from flipjump.fjm.fjm_consts import FJMVersion
# ONE process, several API calls one after another (what a program that uses the library does): every call must give what a
# fresh `fj` process gives for the same sources and options, whatever was assembled - or failed to assemble - before it.
for spec in json.loads(sys.argv[1]):
    kw = {}
    if spec.get('width') is not None: kw['memory_width'] = spec['width']
    if spec.get('version') is not None: kw['fjm_version'] = FJMVersion(spec['version'])
    if spec.get('no_stl'): kw['use_stl'] = False
    try:
        with contextlib.redirect_stdout(io.StringIO()):
            flipjump.assemble([Path(p) for p in spec['files']], Path(spec['out']), warning_as_errors=bool(spec.get('werror')),
                              print_time=False, **kw)
        res = {'ok': True}
    except flipjump.FlipJumpException as exc:
        res = {'ok': False, 'error': type(exc).__name__ + ': ' + str(exc)[:200]}
    except BaseException as exc:
        res = {'ok': False, 'error': 'RAW ' + type(exc).__name__ + ': ' + str(exc)[:200]}
    sys.stderr.write('FJVERIF-SESSION ' + json.dumps(res) + '\n')
'''

SESSION_FAILURES = [
    'ns q {\n  def m {\n    ;\n  }\n  ;1 +\n}\n', 'ns a {\nns b {\n;`\n}\n}\n', 'ns outer {\n  x:\n  ;nolabel\n', 'ns z {\n ;\n',
    'ns c {\n  K = 1/0\n  ;K\n}\n', 'def d {\n  d\n}\n;\nd\n', ';\n;undeclared_label_xyz\n', 'def m a {\n ;a\n}\n;\nm\n',
    'ns p {\n  def f {\n    ..nope\n  }\n}\n;\np.f\n', ';\nrep(2, i) nothing i\n', 'x:\nx:\n;\n',
]


def plan(tier: str, seed: int) -> List[Dict[str, Any]]:
    quick = tier == 'quick'
    n = 8 if quick else 16
    return [{'seed': seed, 'shard': i, 'shards': n, 'cases': 5 if quick else 120, 'timeout_s': 1500 if quick else 7200}
            for i in range(n)]


def corpus() -> List[Dict[str, Any]]:
    rows = []
    tables = REPO_ROOT / 'tests' / 'tests_tables'
    compile_rows = {}
    for name in ('test_compile_fast.csv', 'test_compile_medium.csv'):
        path = tables / name
        if path.exists():
            for r in csv.reader(open(path)):
                if r:
                    r = [x.strip() for x in r]
                    compile_rows[r[0]] = r
    for name in ('test_run_fast.csv', 'test_run_medium.csv'):
        path = tables / name
        if path.exists():
            for r in csv.reader(open(path)):
                if r:
                    r = [x.strip() for x in r]
                    if r[0] in compile_rows:
                        c = compile_rows[r[0]]
                        rows.append({'name': r[0], 'files': [str(REPO_ROOT / p.strip()) for p in c[1].split('|')], 'width': int(c[3]),
                                     'stl': c[6] == 'True', 'input': str(REPO_ROOT / r[2]) if r[2] else None})
    return rows


def run_proc(cmd: List[str], env: Dict[str, str], cwd: Path, stdin: Optional[bytes], timeout: int = 600) -> Tuple[int, bytes, bytes]:
    proc = subprocess.run(cmd, input=stdin if stdin is not None else b'', capture_output=True, env=env, cwd=str(cwd), timeout=timeout)
    return proc.returncode, proc.stdout, proc.stderr


def header_of(data: bytes) -> Dict[str, Any]:
    magic, w, version, nseg = struct.unpack_from('<HHQQ', data, 0)
    return {'magic': magic, 'w': w, 'version': version, 'segments': nseg}


def termination_of(text: str) -> Optional[Tuple[str, int]]:
    m = re.search(r'Finished by (\S+)[^\n]*?\(([\d,]+) ops executed', text)
    if not m:
        return None
    return m.group(1), int(m.group(2).replace(',', ''))


class Judge:
    def __init__(self, journal: Any, workdir: Path):
        self.counters: Dict[str, Any] = {}
        self.violations: List[Dict[str, Any]] = []
        self.hashes: List[str] = []
        self.samples: List[Any] = []
        self.journal = journal
        self.workdir = workdir
        self.env = dict(os.environ)
        self.env['FJVERIF_ROOT'] = str(VERIF_ROOT)
        self.env['PYTHONIOENCODING'] = 'latin-1'
        self.env.pop('FJVERIF_CAPTURE', None)

    def count(self, key: str, n: int = 1) -> None:
        self.counters[key] = self.counters.get(key, 0) + n

    def bad(self, key: str, what: str, case: Dict[str, Any]) -> None:
        if sum(1 for v in self.violations if v['key'] == key) < 3:
            self.violations.append({'key': key, 'what': what, 'replay': case})

    def prelude_fjm(self) -> Path:
        """a tiny program that outputs exactly 3 bits and halts (built once per shard with the repository's own writer)."""
        path = self.workdir / 'prelude.fjm'
        if not path.exists():
            from flipjump.fjm.fjm_consts import FJMVersion
            from flipjump.fjm.fjm_writer import Writer

            w = 64
            dw = 2 * w
            ops = [(dw + 1, 4 * w), (0, 0), (dw, 6 * w), (dw + 1, 8 * w), (0, 8 * w)]  # op0, (IO slot), out 0, out 1, halt
            ops[0] = (dw + 1, 4 * w)
            words: List[int] = []
            for f, j in ops:
                words += [f, j]
            writer = Writer(path, w, FJMVersion(1))
            writer.add_simple_segment_with_data(0, words)
            writer.write_to_file()
        return path

    def cli(self, args: List[str], cwd: Path, stdin: Optional[bytes] = None, capture: Optional[Path] = None) -> Tuple[int, bytes, bytes]:
        env = dict(self.env)
        if capture is not None:
            capture.mkdir(parents=True, exist_ok=True)
            env['FJVERIF_CAPTURE'] = str(capture)
        self.count('cli_processes')
        return run_proc([PYTHON, '-c', CLI_WRAPPER] + args, env, cwd, stdin)

    def api(self, spec: Dict[str, Any], cwd: Path, stdin: Optional[bytes] = None) -> Tuple[int, bytes, bytes]:
        self.count('api_processes')
        return run_proc([PYTHON, '-c', API_CHILD, json.dumps(spec)], self.env, cwd, stdin)

    def session(self, rng: Any, programs: List[Dict[str, Any]]) -> None:
        """route C used as a library: several assemblies (good ones, failing ones, the same one again and again, the standard
        library given explicitly with --no_stl) in one process, each compared with a fresh `fj --asm -o` process."""
        d = self.workdir / f'session{self.counters.get("sessions", 0)}'
        d.mkdir(parents=True)
        self.count('sessions')
        stl_dir = REPO_ROOT / 'flipjump' / 'stl'
        items: List[Dict[str, Any]] = []

        def small_runlib_program(index: int) -> Dict[str, Any]:
            body = ''.join(f'stl.output_bit {rng.getrandbits(1)}\n' for _ in range(rng.randrange(1, 9)))
            name = rng.choice(['', 'A', 'B'])
            text = f'stl.startup\n{name + ":" if name else ""}\n{body}stl.loop\n' if name else f'stl.startup\n{body}stl.loop\n'
            path = d / f'runlib_user{index}.fj'
            path.write_text(text)
            return {'name': 'runlib-explicit', 'files': [str(stl_dir / 'runlib.fj'), str(path)], 'width': 64, 'no_stl': True}

        shape = rng.choice(['mixed', 'mixed', 'explicit-stl', 'repeat'])
        n = rng.choice([3, 4, 5, 6])
        for index in range(n):
            r = rng.random()
            if shape == 'explicit-stl' or (shape == 'mixed' and r < 0.25):
                item = small_runlib_program(index)
            elif shape == 'repeat' and items and r < 0.7:
                item = dict(items[0])
            elif r < 0.5:
                text = rng.choice(SESSION_FAILURES)
                path = d / f'fail{index}.fj'
                path.write_text(text)
                stl = rng.random() < 0.4
                item = {'name': 'failing', 'files': [str(path)], 'width': 64 if stl else rng.choice([16, 32, 64]), 'no_stl': not stl}
            else:
                src = rng.choice(programs)
                item = {'name': src['name'], 'files': src['files'], 'width': src['width'], 'no_stl': not src['stl']}
            item = dict(item, version=rng.choice([None, 1, 3]), werror=rng.random() < 0.3, out=str(d / f'api{index}.fjm'))
            items.append(item)
        self.journal.note({'session': items})
        rc, so, se = self.api_session(items, d)
        results = [json.loads(line[len('FJVERIF-SESSION '):]) for line in se.decode('latin-1').splitlines() if line.startswith('FJVERIF-SESSION ')]
        if len(results) != len(items):
            self.count('sessions_incomplete')
            self.counters.setdefault('session_errors', [])
            if len(self.counters['session_errors']) < 3:
                self.counters['session_errors'].append(se.decode('latin-1')[-300:])
            shutil.rmtree(d, ignore_errors=True)
            return
        for index, (item, res) in enumerate(zip(items, results)):
            args = ['--asm', '-s', '-o', str(d / f'cli{index}.fjm'), '-w', str(item['width'])]
            if item['version'] is not None:
                args += ['-v', str(item['version'])]
            if item['no_stl']:
                args += ['--no_stl']
            if item['werror']:
                args += ['--werror']
            rc_b, so_b, se_b = self.cli(args + list(item['files']), d)
            cli_ok = rc_b == 0 and (d / f'cli{index}.fjm').exists()
            self.count('monitor_evaluations')
            self.count('session_steps')
            case = {'session': [{k: v for k, v in it.items() if k != 'out'} for it in items[:index + 1]], 'step': index}
            history = [it['name'] for it in items[:index]]
            if cli_ok != res['ok']:
                self.bad('api-session/accepts-differently-from-fresh-fj', f'step {index} ({item["name"]}) after {history}: fj '
                         f'{"assembled" if cli_ok else "failed"}, API in the same process {"assembled" if res["ok"] else "failed: " + res.get("error", "")}', case)
            elif cli_ok:
                if Path(item['out']).read_bytes() != (d / f'cli{index}.fjm').read_bytes():
                    self.bad('api-session/fjm-bytes-differ-from-fresh-fj', f'step {index} ({item["name"]}) after {history}: bytes differ', case)
                else:
                    self.count('session_files_compared')
            else:
                self.count('session_failures_agreed')
                if res.get('error', '').startswith('RAW'):
                    self.bad('api-session/raw-exception', f'step {index} ({item["name"]}): {res["error"]}', case)
        self.hashes.append(case_hash([[it['name'], it['files'], it['version']] for it in items]))
        shutil.rmtree(d, ignore_errors=True)

    def api_session(self, items: List[Dict[str, Any]], cwd: Path) -> Tuple[int, bytes, bytes]:
        self.count('api_processes')
        return run_proc([PYTHON, '-c', API_SESSION, json.dumps(items)], self.env, cwd, None)

    def one_case(self, rng: Any, program: Dict[str, Any], runnable: bool) -> None:
        d = self.workdir / f'case{self.counters.get("cases", 0)}'
        d.mkdir(parents=True)
        self.count('cases')
        files = program['files']
        width = program['width']
        stdin = Path(program['input']).read_bytes() if program.get('input') else b''
        # option combination
        opts: Dict[str, Any] = {
            'explicit_width': width != 64 or rng.random() < 0.5,
            'version': rng.choice([None, None, 0, 1, 2, 3]),
            'no_stl': not program['stl'],
            'werror': rng.random() < 0.5,
            'debug': rng.random() < 0.5,
            'preset': rng.choice([None, None, None, 0, 1, 2, 3, 9]),
            'relative_paths': rng.random() < 0.4,
        }
        case = {'program': program.get('name', 'generated'), 'files': files, 'opts': opts, 'width': width}
        self.journal.note(case)
        common: List[str] = []
        if opts['explicit_width']:
            common += ['-w', str(width)]
        if opts['version'] is not None:
            common += ['-v', str(opts['version'])]
        if opts['no_stl']:
            common += ['--no_stl']
        if opts['werror']:
            common += ['--werror']
        if opts['preset'] is not None:
            common += ['--lzma_preset', str(opts['preset'])]
        cwd = d
        src_args = list(files)
        if opts['relative_paths'] and not program.get('as_given'):
            cwd = Path(files[0]).parent
            src_args = [os.path.relpath(f, cwd) for f in files]
        if program.get('as_given'):
            cwd = Path(program['cwd'])      # the paths are used exactly as spelled, relative to this directory, on every route

        # route B: two-step  (--asm -o, then --run)
        out_b = d / 'two_step.fjm'
        dbg_b = d / 'two_step.fjd'
        if rng.random() < 0.3:
            # the output paths of the CLI routes already hold (longer) files of some earlier build: what is there afterwards must
            # still be a function of the sources and options only
            junk = bytes(rng.getrandbits(8) for _ in range(4096)) * rng.choice([1, 40, 400])
            for stale in (out_b, dbg_b, d / 'one_step.fjm', d / 'one_step.fjd'):
                stale.write_bytes(junk)
            self.count('cases_with_preexisting_output_files')
        rc, so, se = self.cli(['--asm', '-s', '-o', str(out_b)] + common + (['-d', str(dbg_b)] if opts['debug'] else []) + src_args, cwd)
        if rc != 0 or not out_b.exists():
            self.count('two_step_assembly_failed')
            self.counters.setdefault('assembly_failures', [])
            if len(self.counters['assembly_failures']) < 5:
                self.counters['assembly_failures'].append((case['program'], se.decode('latin-1')[-200:]))
            # every other route must refuse it as well
            spec = {'files': files, 'out': str(d / 'api.fjm'), 'width': width if opts['explicit_width'] else None,
                    'version': opts['version'], 'no_stl': opts['no_stl'], 'werror': opts['werror'], 'debug': None, 'run': runnable,
                    'stdin_hex': stdin.hex()}
            if program.get('host_recursion_limit'):
                spec['host_recursion_limit'] = program['host_recursion_limit']
            rc_c, so_c, se_c = self.api(spec, cwd if program.get('as_given') else d, stdin)
            rc_a, so_a, se_a = self.cli(['-s', '-o', str(d / 'one_step.fjm')] + common + src_args, cwd, stdin)
            self.count('monitor_evaluations')
            self.count('refusals_compared')
            if rc_c == 0 or rc_a == 0 or b'FJVERIF-ONESTEP' in se_c or b'FJVERIF-ASSEMBLED' in se_c:
                self.bad('routes-disagree-on-acceptance', f'{case["program"]} {opts}: fj --asm refuses it ({se.decode("latin-1")[-120:]!r}); one-step fj '
                         f'rc={rc_a}, API rc={rc_c}, flipjump.assemble() {"succeeded" if b"FJVERIF-ASSEMBLED" in se_c else "failed"}', case)
            if runnable and opts['version'] is None:
                # the one-step flow without -o assembles with its own default version (1): acceptance must not depend on that
                rc_t, so_t, se_t = self.cli(['-s'] + common + src_args, cwd, stdin)
                self.count('refusals_compared_with_the_temporary_file_flow')
                if rc_t == 0:
                    self.bad('routes-disagree-on-acceptance/default-versions', f'{case["program"]} {opts}: fj --asm -o (default version 3) refuses '
                             f'the program: {se.decode("latin-1")[-160:]!r}, fj without -o (default version 1) assembles and runs it', case)
            shutil.rmtree(d, ignore_errors=True)
            return
        bytes_b = out_b.read_bytes()
        if opts['version'] is None and opts['preset'] is not None:
            # the documented default with -o is version 3: saying so explicitly must give the same bytes, preset included
            out_e = d / 'explicit_v3.fjm'
            self.cli(['--asm', '-s', '-o', str(out_e), '-v', '3'] + common + src_args, cwd)
            self.count('default_version_vs_explicit_v3_with_preset')
            if not out_e.exists() or out_e.read_bytes() != bytes_b:
                self.bad('fjm-bytes/default-version-vs-explicit-v3', f'{case["program"]} {opts}: -o with --lzma_preset {opts["preset"]} differs '
                         f'from the same command with -v 3', case)
        # route A1: one-step with -o
        out_a = d / 'one_step.fjm'
        dbg_a = d / 'one_step.fjd'
        a_args = ['-o', str(out_a)] + common + (['-d', str(dbg_a)] if opts['debug'] else []) + src_args
        if runnable:
            rc_a, so_a, se_a = self.cli(['-s'] + a_args, cwd, stdin)
        else:
            rc_a, so_a, se_a = self.cli(['--asm', '-s'] + a_args, cwd)
        # route C: the API
        out_c = d / 'api.fjm'
        dbg_c = d / 'api.fjd'
        effective_version = opts['version'] if opts['version'] is not None else 3
        spec = {'files': files, 'out': str(out_c), 'width': width if opts['explicit_width'] else None,
                'version': opts['version'], 'no_stl': opts['no_stl'], 'werror': opts['werror'],
                'debug': str(dbg_c) if opts['debug'] else None, 'run': runnable}
        if runnable:
            spec['prelude'] = str(self.prelude_fjm())
            spec['stdin_hex'] = stdin.hex()
        if program.get('host_recursion_limit'):
            spec['host_recursion_limit'] = program['host_recursion_limit']
        rc_c, so_c, se_c = self.api(spec, cwd if program.get('as_given') else d, stdin)
        self.count('monitor_evaluations')

        if out_a.exists() and out_a.read_bytes() != bytes_b:
            self.bad('fjm-bytes/one-step-vs-two-step', f'{case["program"]} {opts}: -o bytes differ between one-step and --asm', case)
        api_comparable = opts['preset'] is None or effective_version != 3
        if rc_c != 0 or not out_c.exists():
            self.bad('api-assembly-failed-where-cli-succeeded', f'{case["program"]} {opts}: {se_c.decode("latin-1")[-300:]}', case)
        elif api_comparable and out_c.read_bytes() != bytes_b:
            self.bad('fjm-bytes/api-vs-cli', f'{case["program"]} {opts}: API .fjm differs from fj --asm -o', case)
        else:
            self.count('fjm_files_compared')
        if opts['debug'] and dbg_b.exists():
            for other, label in ((dbg_a, 'one-step'), (dbg_c, 'api')):
                if other.exists() and other.read_bytes() != dbg_b.read_bytes():
                    self.bad(f'fjd-bytes/{label}-vs-two-step', f'{case["program"]} {opts}: debug file differs', case)
                elif other.exists():
                    self.count('fjd_files_compared')
        # defaults, read from the produced header
        head = header_of(bytes_b)
        if not opts['explicit_width'] and head['w'] != 64:
            self.bad('default/width', f'default width is {head["w"]}, documented 64', case)
        if opts['version'] is None and head['version'] != 3:
            self.bad('default/version-with-outfile', f'default version with -o is {head["version"]}, documented 3', case)
        self.count('defaults_checked')

        if runnable:
            # route B second step, and route A2: one-step WITHOUT -o (temporary out.fjm captured by the audit hook)
            rc_r, so_r, se_r = self.cli(['--run', '-s', str(out_b)], d, stdin)
            cap = d / 'capture'
            rc_t, so_t, se_t = self.cli(['-s'] + common + src_args, cwd, stdin, capture=cap)
            outs = {'one-step -o': so_a, 'two-step --run': so_r, 'one-step temp': so_t, 'api': so_c}
            if program.get('warns'):
                # (routes that assemble in the same process print the warning before the program's output)
                outs = {k: (so_r if v.endswith(so_r) else v) for k, v in outs.items()}
            if len(set(outs.values())) != 1:
                detail = {k: v[:60] for k, v in outs.items()}
                self.bad('program-output-differs-between-routes', f'{case["program"]} {opts}: {detail}', case)
            else:
                self.count('program_outputs_compared')
            captured = cap / 'out.fjm'
            if captured.exists():
                temp_head = header_of(captured.read_bytes())
                self.count('temp_fjm_captured')
                if opts['version'] is None and temp_head['version'] != 1:
                    self.bad('default/version-without-outfile', f'default version without -o is {temp_head["version"]}, documented 1', case)
                if opts['version'] is not None and captured.read_bytes() != bytes_b and (opts['preset'] is None or opts['version'] != 3 or True):
                    self.bad('fjm-bytes/one-step-temp-vs-two-step', f'{case["program"]} {opts}: temporary out.fjm differs from --asm -o', case)
            else:
                self.count('temp_fjm_not_captured')
            # termination: visible in the non-silent output of the CLI, compared with the API's statistics
            rc_n, so_n, se_n = self.cli(['--run', str(out_b)], d, stdin)
            term = termination_of(so_n.decode('latin-1'))
            api_term = None
            for line in se_c.decode('latin-1').splitlines():
                if line.startswith('FJVERIF-TERMINATION '):
                    api_term = json.loads(line[len('FJVERIF-TERMINATION '):])
            one_step = None
            for line in se_c.decode('latin-1').splitlines():
                if line.startswith('FJVERIF-ONESTEP '):
                    one_step = json.loads(line[len('FJVERIF-ONESTEP '):])
            if one_step is None:
                self.count('api_one_step_not_reported')
            else:
                self.count('api_one_step_runs_compared')
                if bytes.fromhex(one_step['out']) != so_r:
                    self.bad('program-output-differs-between-routes/api-assemble_and_run',
                             f'{case["program"]} {opts}: assemble_and_run output {bytes.fromhex(one_step["out"])[:60]!r} vs fj {so_r[:60]!r}', case)
                if term is not None and (term[0], term[1]) != (one_step['cause'], one_step['ops']):
                    self.bad('termination-differs-between-routes/api-assemble_and_run', f'{case["program"]}: CLI {term} vs assemble_and_run {one_step}', case)
            if term is None or api_term is None:
                self.count('termination_not_parsed')
            elif (term[0], term[1]) != (api_term['cause'], api_term['ops']):
                self.bad('termination-differs-between-routes', f'{case["program"]}: CLI {term} vs API {api_term}', case)
            else:
                self.count('terminations_compared')
        self.hashes.append(case_hash([case['program'], opts, files]))
        if len(self.samples) < 1:
            self.samples.append({'program': case['program'], 'options': opts, 'header': head, 'fjm_bytes': len(bytes_b)})
        shutil.rmtree(d, ignore_errors=True)


def run_shard(spec: Dict[str, Any], journal: Any) -> Dict[str, Any]:
    rng = rng_for(spec['seed'], PROPERTY, spec['shard'])
    workdir = Path(os.environ.get('FJVERIF_WORKDIR', '/var/tmp')) / f'c20-{spec["shard"]}'
    workdir.mkdir(parents=True, exist_ok=True)
    judge = Judge(journal, workdir)
    programs = corpus()
    mine = programs[spec['shard']::spec['shards']]
    rng.shuffle(mine)
    for program in mine[:spec['cases']]:
        judge.one_case(rng, program, runnable=True)
    hello = REPO_ROOT / 'programs' / 'print_tests' / 'hello_no-stl.fj'
    if hello.exists():
        warn_dir = workdir / 'warns'
        warn_dir.mkdir(exist_ok=True)
        (warn_dir / 'warning_hello.fj').write_text(hello.read_text() + '\ndef wm_unused a, b {\n  ;a\n}\n')
        for _ in range(2):
            judge.one_case(rng, {'name': 'warning-bearing-hello', 'files': [str(warn_dir / 'warning_hello.fj')], 'width': 64, 'stl': False,
                                 'input': None, 'warns': True}, runnable=True)
            judge.count('warning_bearing_cases')
    if hello.exists():
        # output that looks like escape sequences, and bytes above 127: the program's bytes are what every route shows
        esc_dir = workdir / 'escapes'
        esc_dir.mkdir(exist_ok=True)
        head, _, tail = hello.read_text().partition("output 'H'")
        fragments = [b'\\u0041', b'C:\\users\\x', b'\\U0001F600', b'\\N{DASH}', b'\\x41\\n', b'%s{0}', b'\xc3\xa9', b'\xff\xfe', b'\xe2\x82', b'tail\\']
        for k in range(2):
            text = b' '.join(rng.sample(fragments, 3)) + rng.choice([b'\\', b'\\u00', b'!', b'\xc3'])
            body = ''.join(f'    output {byte}\n' for byte in text)
            (esc_dir / f'escapes{k}.fj').write_text(head + body + '    end_loop\n')
            judge.one_case(rng, {'name': f'escape-looking-output-{text.hex()}', 'files': [str(esc_dir / f'escapes{k}.fj')], 'width': 64, 'stl': False,
                                 'input': None}, runnable=True)
            judge.count('escape_looking_output_cases')
    if hello.exists():
        # one program spread over many files with long names (the command builds its temporary directory's name from them)
        many_dir = workdir / 'many_files'
        many_dir.mkdir(exist_ok=True)
        first = many_dir / ('a_first_source_file_with_a_rather_long_name_' + 'x' * 40 + '.fj')
        first.write_text(hello.read_text())
        files = [str(first)]
        for k in range(rng.choice([6, 12])):
            extra = many_dir / (f'another_source_file_with_a_rather_long_name_number_{k:03d}_' + 'y' * 30 + '.fj')
            extra.write_text(f'// part {k}: nothing but a comment\n')
            files.append(str(extra))
        judge.one_case(rng, {'name': 'many-long-file-names', 'files': files, 'width': 64, 'stl': False, 'input': None}, runnable=True)
        judge.count('many_long_file_name_cases')
        # a source file whose name is as long as the file system allows (whatever a route derives from the name must still fit)
        limit_dir = workdir / 'name_limit'
        limit_dir.mkdir(exist_ok=True)
        for length in (255, rng.choice([254, 253, 251])):
            limit = limit_dir / ('n' * (length - 3) + '.fj')
            try:
                limit.write_text(hello.read_text())
            except OSError:
                judge.count('name_limit_not_supported_here')
                continue
            judge.one_case(rng, {'name': f'source-name-{length}-bytes', 'files': [str(limit)], 'width': 64, 'stl': False, 'input': None}, runnable=True)
            judge.count('name_limit_cases')
    # an expression a few hundred operators deep: whether it is "too deep" depends on max_recursion_depth only, not on the
    # recursion limit of the program that hosts the library
    deep_dir = workdir / 'deep'
    deep_dir.mkdir(exist_ok=True)
    for k, terms in enumerate([rng.choice([300, 420]), rng.choice([520, 700, 1500])]):
        (deep_dir / f'deep{k}.fj').write_text('dl:;dl' + '+1' * terms + '\n')
        judge.one_case(rng, {'name': f'deep-expression-{terms}', 'files': [str(deep_dir / f'deep{k}.fj')], 'width': 64, 'stl': False, 'input': None,
                             'host_recursion_limit': rng.choice([20000, 5000])}, runnable=False)
        judge.count('deep_expression_cases')
    if hello.exists():
        # a path that goes through a symbolic link and back up: the operating system resolves it, every route must read that file
        sym_dir = workdir / 'symlinks'
        (sym_dir / 'real' / 'inner').mkdir(parents=True, exist_ok=True)
        (sym_dir / 'real' / 'prog.fj').write_text(hello.read_text())
        (sym_dir / 'prog.fj').write_text(';0\n')   # a different program under the name a lexical normalisation would pick
        if not (sym_dir / 'link').exists():
            os.symlink(sym_dir / 'real' / 'inner', sym_dir / 'link')
        judge.one_case(rng, {'name': 'path-through-a-symlink', 'files': ['link/../prog.fj'], 'width': 64, 'stl': False, 'input': None,
                             'as_given': True, 'cwd': str(sym_dir)}, runnable=True)
        judge.count('symlink_path_cases')
    layout_dir = workdir / 'layouts'
    layout_dir.mkdir(exist_ok=True)
    for k in range(2):
        gap = rng.choice([1 << 12, 1 << 16, 1 << 20])
        text = ('stl.startup\n;fj_code\n'
                + f'segment {gap}\nreserve {64 * rng.choice([2, 8, 64])}\n'          # a segment that only reserves space ...
                + f'segment {2 * gap}\nfj_code:\nstl.output "OK{k}\\n"\nstl.loop\n'   # ... followed by one that holds code
                + (f'segment {3 * gap}\nreserve 128\n' if rng.random() < 0.5 else ''))
        (layout_dir / f'reserve_only_segment{k}.fj').write_text(text)
        judge.one_case(rng, {'name': 'reserve-only-segment-then-code', 'files': [str(layout_dir / f'reserve_only_segment{k}.fj')], 'width': 64,
                             'stl': True, 'input': None}, runnable=True)
        judge.count('layout_programs')
    small = [p for p in programs if any(k in p['name'] for k in ('hello', 'cat', 'simple', 'testbit', 'rep', 'func1', 'print_as'))] or programs
    for _ in range(3 if spec['cases'] <= 5 else spec['cases'] // 3):
        judge.session(rng, small)
    # generated primitive programs (bytes only - they are not meant to be run)
    for index in range(max(2, spec['cases'] // 2)):
        prog = primgen.generate(rng, flaws=False)
        if prog.model.impossible:
            continue
        split = rng.random() < 0.4 and len(prog.lines) > 3
        gen_dir = workdir / f'gen{index}'
        gen_dir.mkdir(exist_ok=True)
        if split:
            cut = rng.randrange(1, len(prog.lines))
            (gen_dir / 'a.fj').write_text('\n'.join(prog.lines[:cut]) + '\n')
            (gen_dir / 'b.fj').write_text('\n'.join(prog.lines[cut:]) + '\n')
            files = [str(gen_dir / 'a.fj'), str(gen_dir / 'b.fj')]
        else:
            (gen_dir / 'p.fj').write_text(prog.text())
            files = [str(gen_dir / 'p.fj')]
        judge.one_case(rng, {'name': 'generated', 'files': files, 'width': prog.w, 'stl': False, 'input': None}, runnable=False)
        judge.count('generated_programs')
    shutil.rmtree(workdir, ignore_errors=True)
    return {'counters': judge.counters, 'violations': judge.violations, 'hashes': judge.hashes, 'samples': judge.samples,
            'evaluations': judge.counters.get('monitor_evaluations', 0)}


def replay_case(record: Dict[str, Any], journal: Any) -> Dict[str, Any]:
    return {'counters': {}, 'violations': [], 'evaluations': 1, 'hashes': [],
            'inconclusive': ['C20 replay: re-run the check with the recorded seed (cases depend on option draws)']}


def finalize(tier: str, seed: int, counters: Dict[str, Any], evaluations: int, distinct: int) -> Dict[str, Any]:
    inconclusive = []
    for key, floor in (('fjm_files_compared', 10), ('program_outputs_compared', 8), ('terminations_compared', 8),
                       ('temp_fjm_captured', 5), ('defaults_checked', 10), ('fjd_files_compared', 4), ('generated_programs', 4)):
        if counters.get(key, 0) < floor:
            inconclusive.append(f'{key}={counters.get(key, 0)} below floor {floor}')
    return {
        'coverage': {
            'rule': 'corpus programs (tests tables fast+medium, with their stdin files) and generated primitive programs (also '
                    'split over two files) x random option combinations (-w, -v, --no_stl, -o, -d, --werror, --lzma_preset, -s, '
                    'relative paths / other working directory); routes: fj one-step with -o, fj one-step without -o (temporary '
                    'out.fjm captured by a sys.addaudithook wrapper around the real main()), fj --asm -o + fj --run, and '
                    'flipjump.assemble/run. oracle: byte equality of .fjm and .fjd, equality of program stdout and of '
                    'termination cause/op count, defaults read from the produced file header. evaluation = one program x options',
        },
        'inconclusive': inconclusive,
        'assumptions': ['the API has no lzma-preset parameter: version-3 files are compared with the API only at the default preset',
                        'program stdout compared under PYTHONIOENCODING=latin-1 (byte-transparent)'],
    }
