"""C16 - the debug label table is exact (DESIGN 4, C16)."""

from __future__ import annotations

import random
from pathlib import Path
from typing import Any, Dict, List, Optional, Set, Tuple

from fjverif import engines, macrogen, primgen
from fjverif.checks import c02, c03
from fjverif.common import case_hash, rng_for

PROPERTY = 'C16'
LEVEL = 'exploration'
NATIVE_VARIANT = None
INTERNAL_MARKERS = (':start:', ':wflips:', '_.wflip_area_start_')


def plan(tier: str, seed: int) -> List[Dict[str, Any]]:
    quick = tier == 'quick'
    n, per = (16, 200) if quick else (64, 4000)
    out = [{'seed': seed, 'shard': i, 'cases': per, 'timeout_s': 1500 if quick else 7200} for i in range(n)]
    # tables larger than the compressor's window (the repository's big programs have 10-25MiB of label text)
    for i, mib in enumerate([10] if quick else [10, 20, 40, 70]):
        out.append({'kind': 'large-table', 'seed': seed, 'shard': i, 'mib': mib, 'timeout_s': 3000})
    return out


def shard_large_table(spec: Dict[str, Any]) -> Dict[str, Any]:
    """a label table of `mib` MiB of JSON whose names repeat across its whole length (as the expansion paths of one heavy macro
    called at the start and at the end of a big program do): saved, loaded, compared; breakpoints resolved on the loaded file."""
    from flipjump.interpreter.debugging.breakpoints import get_breakpoint_handler
    from flipjump.utils.functions import load_debugging_labels, save_debugging_labels

    rng = rng_for(spec['seed'], PROPERTY, 'large-table', spec['shard'])
    target = spec['mib'] << 20
    table: Dict[str, int] = {}
    size = 0
    heads: List[str] = []
    alphabet = 'abcdefghijklmnopqrstuvwxyz_0123456789'
    while size < target:
        depth = rng.choice([1, 2, 3, 5])
        path = '---'.join(f'f{rng.randrange(1, 40)}:l{rng.randrange(1, 3000)}:' + ''.join(rng.choice(alphabet) for _ in range(rng.choice([4, 9, 20])))
                          + f'({rng.randrange(6)})' for _ in range(depth))
        name = f'{path}---' + ''.join(rng.choice(alphabet) for _ in range(rng.choice([3, 8])))
        if len(heads) < 4000:
            heads.append(name)
        elif size > target - (1 << 20):   # the tail repeats the head's paths under a new first element
            name = f'f99:l{len(table)}:tail(0)---' + heads[len(table) % len(heads)]
        if name in table:
            continue
        table[name] = 128 * rng.randrange(1, 1 << 30)
        size += len(name) + 16
    path = engines.tmpdir() / 'large.fjd'
    violations: List[Dict[str, Any]] = []
    counters: Dict[str, Any] = {'large_tables': 1, 'large_table_labels': len(table), 'monitor_evaluations': 1}
    replay = {'kind': 'large-table', 'spec': spec}
    try:
        save_debugging_labels(path, table)
        loaded = load_debugging_labels(path)
        if loaded != table or list(loaded) != list(table):
            violations.append({'key': 'save-load-roundtrip/large-table', 'what': f'table of {len(table)} labels ({spec["mib"]}MiB) changed in the round trip',
                               'replay': replay})
        needle = heads[7].split('---')[0]
        handler = get_breakpoint_handler(path, set(), {heads[3]}, {needle})
        want = {table[heads[3]]} | {a for n, a in table.items() if needle in n}
        counters['breakpoint_queries'] = 1
        if set(handler.breakpoints) != want:
            violations.append({'key': 'breakpoint-resolution/large-table', 'what': f'{len(handler.breakpoints)} breakpoints, want {len(want)}', 'replay': replay})
    except Exception as exc:  # noqa: B902 - a saved table that cannot be loaded back is the violation, whatever is raised
        violations.append({'key': 'save-load-roundtrip/large-table', 'what': f'table of {len(table)} labels ({spec["mib"]}MiB): {type(exc).__name__}: {exc}',
                           'replay': replay})
    engines.cleanup_tmpdir()
    return {'counters': counters, 'violations': violations, 'hashes': [f'large-table:{spec["mib"]}'], 'samples': [], 'evaluations': 1}


def check_macro_program(rng: random.Random, counters: Dict[str, Any]) -> Tuple[List[Tuple[str, str, Any]], Optional[str]]:
    gen = macrogen.generate(rng)
    n_eval = counters.get('monitor_evaluations', 0)
    stale = n_eval % 5 == 2
    prefix: List[Tuple[str, Any]] = []
    files_m, inlined = list(gen.files), gen.inlined
    if n_eval % 4 == 1:
        # a file of the repository's stl in front, under a short name of this assembly's own choosing, and one call of an stl macro
        # that calls another one and declares a label (the parser caches the parsed stl prefix per process: nothing of an earlier
        # assembly - its short names least of all - may show in this table)
        short = ('s0', 'lib0', 'zz9', 'std')[(n_eval // 4) % 4]
        prefix = [(short, c03.REPO_ROOT / 'flipjump' / 'stl' / 'runlib.fj')]
        tail = 'stl.comp_if0 0, fjv_tail\nfjv_tail:\n;\n'
        files_m[-1] = (files_m[-1][0], files_m[-1][1] + tail.replace('\n', '\r\n' if '\r\n' in files_m[-1][1] else '\n'))
        inlined = inlined + tail
        counters['programs_behind_a_cached_stl_prefix'] = counters.get('programs_behind_a_cached_stl_prefix', 0) + 1
    if stale:
        # the output paths already hold the files of an EARLIER assembly of the same sources at another width (same label names,
        # other addresses): the table on disk afterwards must be the one of this assembly
        other_w = {64: 32, 32: 64, 16: 32}.get(gen.w, 64)
        c03.assemble_files(files_m, other_w, 'macro16', prefix=prefix)
        counters['assemblies_over_existing_output_files'] = counters.get('assemblies_over_existing_output_files', 0) + 1
    status_m, _, labels_m = c03.assemble_files(files_m, gen.w, 'macro16', keep_existing=stale, prefix=prefix)
    status_i, _, labels_i = c03.assemble_files([('f1', inlined)], gen.w, 'inlined16', prefix=prefix)
    counters['monitor_evaluations'] = n_eval + 1
    if status_m == 'ok' and n_eval % 3 == 0:
        # the table is a function of the sources: assembling them again in the same process gives the same table, synthetic
        # labels (macro start labels, wflip areas) included
        status_again, _, labels_again = c03.assemble_files(files_m, gen.w, 'macro16', prefix=prefix)
        counters['tables_compared_with_a_second_assembly'] = counters.get('tables_compared_with_a_second_assembly', 0) + 1
        if status_again != 'ok' or labels_again != labels_m or list(labels_again) != list(labels_m):
            missing = sorted(set(labels_m) ^ set(labels_again or {}))[:3]
            return [('table-differs-on-second-assembly', f'the same sources assembled twice in one process give different tables (names that differ: {missing})',
                     {'files': gen.files, 'w': gen.w})], None
    if status_m != 'ok' or status_i != 'ok':
        counters['macro_programs_not_assembled'] = counters.get('macro_programs_not_assembled', 0) + 1
        return [], None
    out: List[Tuple[str, str, Any]] = []
    replay = {'files': gen.files, 'inlined': gen.inlined, 'w': gen.w, 'expected': gen.expected_labels}
    counters['statements_continued_over_two_lines'] = counters.get('statements_continued_over_two_lines', 0) + gen.continuations
    for name, unique in gen.expected_labels.items():
        counters['labels_checked'] = counters.get('labels_checked', 0) + 1
        if '---' in name:
            counters['macro_local_labels_checked'] = counters.get('macro_local_labels_checked', 0) + 1
        if ':rep' in name:
            counters['rep_expansion_labels_checked'] = counters.get('rep_expansion_labels_checked', 0) + 1
        if name not in labels_m:
            near = [k for k in labels_m if k.split('---')[-1] == name.split('---')[-1]][:3]
            out.append(('expected-label-name-missing', f'no label named {name!r} in the table (same-suffix names: {near})', replay))
            break
        if labels_m[name] != labels_i[unique]:
            out.append(('label-address', f'label {name!r}: table says {labels_m[name]:#x}, the statement it precedes is at '
                                         f'{labels_i[unique]:#x}', replay))
            break
    # every expansion is findable: the address where it starts carries a label (a source label, or the synthetic start label of
    # this expansion or of one that opens at the same address) - also for the iterations of a rep
    if not out:
        by_address: Dict[int, List[str]] = {}
        for name, address in labels_m.items():
            by_address.setdefault(address, []).append(name)
        for path, start_label, is_rep in gen.expansion_starts:
            address = labels_i.get(start_label)
            if address is None:
                continue
            counters['expansion_starts_checked'] = counters.get('expansion_starts_checked', 0) + 1
            if is_rep:
                counters['rep_expansion_starts_checked'] = counters.get('rep_expansion_starts_checked', 0) + 1
            # (the assembler adds a start label only where the address has no label yet: ANY label there will do)
            if not by_address.get(address):
                out.append(('expansion-start-has-no-name', f'expansion {path!r} starts at {address:#x}; labels there: {by_address.get(address, [])[:3]}', replay))
                break
    # every other user-level name must be one the model expects: no two expansions may collapse into one name
    if prefix and not out:
        import re

        known = {short for short, _ in prefix} | {short for short, _ in files_m}
        for name in labels_m:
            tags = {m.group(2) for m in re.finditer(r'(^|---)([A-Za-z0-9_]+):l\d+:', name)}
            if tags - known:
                out.append(('label-names-a-file-of-another-assembly', f'label {name!r} is tagged with {sorted(tags - known)}, the files of this assembly are {sorted(known)}', replay))
                break
    extra = [k for k in labels_m if k not in gen.expected_labels and not any(mk in k for mk in INTERNAL_MARKERS)
             and ':stl.' not in k and k != 'fjv_tail']
    if extra and not out:
        out.append(('unexpected-label-name', f'table holds names the program does not declare: {extra[:3]}', replay))
    if len(set(gen.expected_labels)) != len(gen.expected_labels):
        out.append(('model-self-check', 'internal: the model produced duplicate names', replay))
    return out, case_hash(gen.files) if gen.calls_expanded >= 2 else None


def check_primitive_program(rng: random.Random, counters: Dict[str, Any]) -> List[Tuple[str, str, Any]]:
    prog = primgen.generate(rng, flaws=False)
    if prog.model.impossible:
        return []
    status, reader, labels = c02.assemble(prog, rng.randrange(4), tag='c16p')
    counters['monitor_evaluations'] = counters.get('monitor_evaluations', 0) + 1
    if status != 'ok':
        return []
    out: List[Tuple[str, str, Any]] = []
    for name, address in prog.model.labels.items():
        counters['labels_checked'] = counters.get('labels_checked', 0) + 1
        if labels.get(name) != address:
            out.append(('label-address', f'primitive program: label {name}: table {labels.get(name)} want {address}',
                        {'text': prog.text(), 'w': prog.w}))
            break
    return out


NAME_PARTS = ['main', 'loop', 'f1:l3:foo', 'f2:l10:ns.bar(2)', 'f1:l7:rep0:m(1)', 'f1:l7:rep1:m(1)', 'x', 'end', ':start:', 'hex.add', 'a', 'ab',
              'abc', 'é-ü', 'with space', '"quoted"', '\\back']


def check_roundtrip_and_breakpoints(rng: random.Random, counters: Dict[str, Any]) -> List[Tuple[str, str, Any]]:
    from flipjump.interpreter.debugging.breakpoints import get_breakpoint_handler
    from flipjump.utils.functions import load_debugging_labels, save_debugging_labels

    table: Dict[str, int] = {}
    for _ in range(rng.choice([0, 1, 3, 10, 60, 400])):
        name = '---'.join(rng.choice(NAME_PARTS) for _ in range(rng.choice([1, 1, 2, 3, 5])))
        table[name] = rng.choice([0, 64, rng.getrandbits(16), rng.getrandbits(64), (1 << 64) - 1])
    path = engines.tmpdir() / 'c16.fjd'
    save_debugging_labels(path, table)
    loaded = load_debugging_labels(path)
    counters['monitor_evaluations'] = counters.get('monitor_evaluations', 0) + 1
    counters['roundtrips'] = counters.get('roundtrips', 0) + 1
    out: List[Tuple[str, str, Any]] = []
    if loaded != table or list(loaded) != list(table):
        out.append(('save-load-roundtrip', f'table of {len(table)} labels changed in the round trip', {'table': table}))
    names = sorted(table)
    exact = set(rng.sample(names, min(len(names), rng.choice([0, 1, 2, 4])))) | ({'not-a-label'} if rng.random() < 0.3 else set())
    contains = set(rng.sample(['loop', 'f1', 'rep', 'a', 'ab', '---', 'zz', ':start:', 'bar(2)', ''], rng.choice([0, 1, 2])))
    addresses = {rng.getrandbits(12) for _ in range(rng.choice([0, 1, 3]))}
    handler = get_breakpoint_handler(path, set(addresses), set(exact), set(contains))
    want = set(addresses) | {table[n] for n in exact if n in table} | {a for n, a in table.items() if any(c in n for c in contains)}
    counters['breakpoint_queries'] = counters.get('breakpoint_queries', 0) + 1
    if set(handler.breakpoints) != want:
        out.append(('breakpoint-resolution', f'breakpoints {sorted(handler.breakpoints)[:6]} want {sorted(want)[:6]} '
                                             f'(exact {sorted(exact)[:3]}, contains {sorted(contains)})',
                    {'table': table, 'exact': sorted(exact), 'contains': sorted(contains), 'addresses': sorted(addresses)}))
    else:
        # the name shown for a breakpoint address must be a label that really sits at that address
        for address, name in handler.breakpoints.items():
            if name is not None and table.get(name) != address:
                out.append(('breakpoint-name', f'breakpoint at {address:#x} is named {name!r} whose address is {table.get(name)}', {'table': table}))
                break
    return out


def run_shard(spec: Dict[str, Any], journal: Any) -> Dict[str, Any]:
    if spec.get('kind') == 'large-table':
        return shard_large_table(spec)
    rng = rng_for(spec['seed'], PROPERTY, spec['shard'])
    counters: Dict[str, Any] = {}
    violations: List[Dict[str, Any]] = []
    hashes: List[str] = []
    samples: List[Any] = []
    for index in range(spec['cases']):
        mode = index % 4
        journal.note({'index': index, 'mode': mode, 'seed': spec['seed'], 'shard': spec['shard']})
        if mode in (0, 1):
            found, h = check_macro_program(rng, counters)
            if h:
                hashes.append(h)
        elif mode == 2:
            found = check_primitive_program(rng, counters)
        else:
            found = check_roundtrip_and_breakpoints(rng, counters)
        for key, what, replay in found:
            if sum(1 for v in violations if v['key'] == key) < 3:
                violations.append({'key': key, 'what': what, 'replay': replay})
        if len(samples) < 1 and mode == 0 and not found:
            samples.append({'note': 'labels of a generated macro program compared with the addresses of the statements they precede '
                                    'in the hand-inlined program', 'labels_checked_so_far': counters.get('labels_checked', 0)})
    engines.cleanup_tmpdir()
    return {'counters': counters, 'violations': violations, 'hashes': hashes, 'samples': samples,
            'evaluations': counters.get('monitor_evaluations', 0)}


def replay_case(record: Dict[str, Any], journal: Any) -> Dict[str, Any]:
    return {'counters': {}, 'violations': [], 'evaluations': 1, 'hashes': [],
            'inconclusive': ['C16 replay files carry the program texts and the expected name -> statement map']}


def finalize(tier: str, seed: int, counters: Dict[str, Any], evaluations: int, distinct: int) -> Dict[str, Any]:
    inconclusive = []
    for key, floor in (('labels_checked', 3000), ('macro_local_labels_checked', 800), ('rep_expansion_labels_checked', 100),
                       ('roundtrips', 200), ('breakpoint_queries', 200)):
        if counters.get(key, 0) < floor:
            inconclusive.append(f'{key}={counters.get(key, 0)} below floor {floor}')
    if not counters.get('large_tables'):
        inconclusive.append('no table larger than the compression window went through the round trip')
    return {
        'coverage': {
            'rule': 'generated macro programs (call DAGs, reps, namespaces, 1-3 files; see C03) and primitive programs: every source '
                    'label - top-level, namespaced, and macro-local in every expansion - must appear in the saved table under the '
                    'name of its expansion path (<file>:l<line>:<macro>(<arity>) joined by ---, rep<i> for rep expansions) with '
                    'the address of the statement it precedes (taken from the hand-inlined program, whose addresses C02 checks '
                    'against an independent denotation); no undeclared user-level name may appear. random dictionaries for the '
                    'save/load round trip (order preserved) and breakpoint queries by address / exact label / substring against a '
                    'set-comprehension model. evaluation = one program or one dictionary',
        },
        'inconclusive': inconclusive,
        'assumptions': ['names containing :start:, :wflips: or _.wflip_area_start_ are the assembler\'s own bookkeeping and are ignored'],
    }
