"""C07 - results and final memory do not depend on engine or storage layout (DESIGN 4, C07)."""

from __future__ import annotations

from typing import Any, Dict, List

from fjverif import engines, imagegen
from fjverif.checks import enginecmp
from fjverif.common import case_hash, rng_for

PROPERTY = 'C07'
LEVEL = 'exploration'
NATIVE_VARIANT = 'opt'
GEOMS = ['page-edge', 'cache-alias', 'window-cut', 'far', 'top', 'magic', 'many', 'gaps', 'compact', 'w8',
         'cache-alias', 'page-edge', 'window-cut', 'many-pages', 'big-first']


def plan(tier: str, seed: int) -> List[Dict[str, Any]]:
    shards, per = (16, 320) if tier == 'quick' else (64, 2500)
    out = [{'seed': seed, 'shard': i, 'cases': per, 'tier': tier, 'timeout_s': 900 if tier == 'quick' else 7200}
           for i in range(shards)]
    n_corpus = 2 if tier == 'quick' else 16
    for i in range(n_corpus):
        out.append({'kind': 'corpus', 'seed': seed, 'shard': i, 'shards': n_corpus, 'tier': tier,
                    'programs': 2 if tier == 'quick' else 30, 'timeout_s': 1500 if tier == 'quick' else 7200})
    return out


CORPUS_CONFIGS = [{'engine': 'native'}, {'engine': 'native', 'ring': 10}, {'engine': 'native', 'no_flat': True},
                  {'engine': 'native', 'no_flat': True, 'ring': 3}, {'engine': 'native', 'flat_max_words': 1000},
                  {'engine': 'native', 'flat_max_words': 16385, 'ring': 5}, {'engine': 'native', 'measure': True},
                  {'engine': 'fast'}, {'engine': 'fast', 'ring': 10}, {'engine': 'featured', 'ring': 10}]


def run_shard(spec: Dict[str, Any], journal: Any) -> Dict[str, Any]:
    if spec.get('kind') == 'corpus':
        return enginecmp.shard_corpus(spec, journal, PROPERTY, CORPUS_CONFIGS, check_memory=True)
    rng = rng_for(spec['seed'], PROPERTY, spec['shard'])
    counters: Dict[str, Any] = {}
    violations: List[Dict[str, Any]] = []
    hashes: List[str] = []
    samples: List[Any] = []
    wide = spec['tier'] == 'thorough'
    for index in range(spec['cases']):
        geom = GEOMS[index % len(GEOMS)]
        width = (64, 32, 16, 8)[(index // len(GEOMS)) % 4]
        if index % 40 == 17:
            case = imagegen.page_walk_case(rng, rng.choice([32, 64, 64]), rng.choice([20, 33, 48, 70, 130, 300]), rng.choice([2, 3]))
        else:
            case = imagegen.generate_case(rng, geom, width, max_ops=3000)
        configs = enginecmp.c07_configs(rng, case, wide=wide)
        found, ref = enginecmp.compare_case(case, configs, rng, check_memory=True, check_ring=True,
                                            counters=counters, journal=journal)
        enginecmp.note_features(counters, case, ref)
        violations.extend(found)
        if enginecmp.nontrivial(ref):
            hashes.append(case_hash(case))
        if len(samples) < 2 and ref.ops >= 4:
            samples.append(enginecmp.sample_of(case, ref))
    engines.cleanup_tmpdir()
    return {'counters': counters, 'violations': violations, 'hashes': hashes, 'samples': samples,
            'evaluations': counters.get('monitor_evaluations', 0)}


def finalize(tier: str, seed: int, counters: Dict[str, Any], evaluations: int, distinct: int) -> Dict[str, Any]:
    inconclusive = []
    modes = counters.get('storage_modes', {})
    for mode in ('flat', 'hybrid', 'paged'):
        if not modes.get(mode):
            inconclusive.append(f'native storage mode {mode!r} never observed')
    geoms = counters.get('geometries', {})
    for g in ('page-edge', 'cache-alias', 'window-cut', 'far', 'top', 'magic', 'many'):
        if not any(k.startswith(g + '/') for k in geoms):
            inconclusive.append(f'geometry {g} never generated')
    if not counters.get('memory_words_compared'):
        inconclusive.append('no final-memory word was compared')
    if distinct < 150:
        inconclusive.append(f'only {distinct} non-trivial programs generated')
    return {
        'coverage': {
            'rule': 'generated images in sparse geometries (page edges, cache-slot aliases, flat-window cuts, far '
                    'segments, top of address space, magic-valued words, many segments), each run on featured/fast and '
                    'on the native engine under flat/hybrid/paged storage with and without the last-ops ring and the '
                    'measurement loop; evaluation = one run compared with the reference machine on cause, op count, '
                    'fault address, IO log, last-ops list and the final value of every touched/initialised/sampled '
                    'in-segment word (read back through DeviceMemory); non-trivial = >= 3 ops and >= 2 feature bits',
            'programs': sum(geoms.values()),
        },
        'inconclusive': inconclusive,
        'assumptions': ['reference machine arbitrates which configuration is wrong',
                        'final memory is observed through the DeviceMemory handed to IODevice.attach_memory'],
    }


replay_case = enginecmp.replay_case
