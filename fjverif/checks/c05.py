"""C05 - bit library macros compute their documented function for every operand (DESIGN 4, C04/C05; 3.7)."""

from __future__ import annotations

from typing import Any, Dict, List

from fjverif import engines
from fjverif.stlmon import runner, spec_bit

PROPERTY = 'C05'
LEVEL = 'exploration'
NATIVE_VARIANT = 'opt'
SPECS = spec_bit.SPECS


def plan(tier: str, seed: int) -> List[Dict[str, Any]]:
    quick = tier == 'quick'
    n_single = 12 if quick else 32
    out = [{'kind': 'single', 'part': i, 'parts': n_single, 'seed': seed, 'tier': tier, 'timeout_s': 1500 if quick else 10000}
           for i in range(n_single)]
    for i in range(4 if quick else 16):
        out.append({'kind': 'sequence', 'part': i, 'seed': seed, 'tier': tier, 'programs': 4 if quick else 40,
                    'timeout_s': 1500 if quick else 10000})
    return out


def run_shard(spec: Dict[str, Any], journal: Any) -> Dict[str, Any]:
    rec = runner.Recorder(PROPERTY)
    if spec['kind'] == 'single':
        indices = list(range(len(SPECS)))[spec['part']::spec['parts']]
        runner.shard_single(rec, SPECS, indices, (spec['seed'], PROPERTY, 'single', spec['part']), spec['tier'], journal)
    else:
        runner.shard_sequence(rec, SPECS, (spec['seed'], PROPERTY, 'sequence', spec['part']), spec['programs'], spec['tier'], journal,
                              ['bit'], 'none')
    engines.cleanup_tmpdir()
    return {'counters': rec.counters, 'violations': rec.violations, 'hashes': rec.hashes, 'samples': rec.samples,
            'evaluations': rec.counters.get('monitor_evaluations', 0),
            'distinct_extra': rec.counters.get('distinct_operand_cases', 0)}


def replay_case(record: Dict[str, Any], journal: Any) -> Dict[str, Any]:
    return {'counters': {}, 'violations': [], 'evaluations': 1, 'hashes': [],
            'inconclusive': ['the replay file carries the program text, operand values and the documented expectation']}


def finalize(tier: str, seed: int, counters: Dict[str, Any], evaluations: int, distinct: int) -> Dict[str, Any]:
    inconclusive = []
    macros = counters.get('macros', {})
    missing = sorted({s.macro for s in SPECS} - set(macros))
    if missing:
        inconclusive.append(f'macros never monitored: {missing}')
    if counters.get('monitor_evaluations', 0) < 100000:
        inconclusive.append(f'only {counters.get("monitor_evaluations", 0)} monitored applications')
    if not counters.get('sequence_programs'):
        inconclusive.append('no sequence program ran')
    if not counters.get('fast_engine_slices'):
        inconclusive.append('no slice was re-run on the pure-Python fast loop')
    return {
        'coverage': {
            'rule': 'SYNC-monitored runs of the real library on the real interpreter: per documented bit macro a single-macro '
                    'program whose operands are poked through DeviceMemory - exhaustively when the bits the macro reads are <= 16 '
                    '(e.g. all 65536 pairs of 8-bit operands), boundary-biased random otherwise - and random sequence programs of '
                    '4-40 applications over shared variables. at every SYNC every cell of every declared variable (destinations, '
                    'sources, cells beyond [:n], bystanders) and the branch marker are compared with the spec table transcribed '
                    'from the macro doc comments. evaluation = one monitored macro application; distinct = distinct (application, operand values read) pairs, counted by the monitor per program (programs are disjoint across shards) plus distinct programs',
            'macros_in_spec_table': len({s.macro for s in SPECS}),
            'spec_entries': len(SPECS),
        },
        'inconclusive': inconclusive,
        'assumptions': ['the spec table (fjverif/stlmon/spec_bit.py) is my transcription of the doc comments',
                        'undocumented aliasing of operands is not generated',
                        'bit.neg is documented "x[:n]--" (copy of the line above); the table uses negation'],
    }
