"""C15 - debugging never changes the program and stops exactly where asked (DESIGN 4, C15)."""

from __future__ import annotations

import contextlib
import io
import random
import re
import sys
from pathlib import Path
from typing import Any, Dict, Iterator, List, Optional, Set, Tuple

from fjverif import engines, imagegen
from fjverif.common import case_hash, rng_for
from fjverif.refmachine import RefFault, RefMachine

PROPERTY = 'C15'
LEVEL = 'exploration'
NATIVE_VARIANT = 'opt'


def plan(tier: str, seed: int) -> List[Dict[str, Any]]:
    quick = tier == 'quick'
    n, per = (16, 200) if quick else (64, 2500)
    return [{'seed': seed, 'shard': i, 'cases': per, 'cli_cases': 12 if quick else 150, 'timeout_s': 1500 if quick else 7200} for i in range(n)]


# ------------------------------------------------------------------------------ command scripts
def gen_script(rng: random.Random, labels: Dict[str, int], w: int, interesting: List[int]) -> List[str]:
    n = rng.choice([0, 1, 2, 3, 5, 8, 12])
    lines: List[str] = []
    names = sorted(labels)

    def target() -> str:
        r = rng.random()
        addr = rng.choice(interesting) if interesting else 0
        if r < 0.25:
            return str((addr // w) * w)
        if r < 0.4:
            return hex((addr // w) * w)
        if r < 0.5 and names:
            return rng.choice(names)
        if r < 0.58:
            return rng.choice([str(addr | 1), '-64', str(1 << w), hex((1 << w) - w), 'nolabel', 'zz', '0xzz', '', '12 34'])
        if r < 0.66:
            return format((addr // w) * w, 'x')  # hex without the 0x prefix
        base = rng.choice(names) if names and rng.random() < 0.6 else str((addr // (2 * w)) * 2 * w)
        kind = rng.choice(['b', 'h', 'B', 'f', 'j'])
        length = rng.choice(['', '1', '2', '4', '8'])
        index = rng.choice(['', '', '0:', '1:', '3:'])
        return f':{kind}{length}:{index}{base}'

    for _ in range(n):
        r = rng.random()
        if r < 0.22:
            lines.append(rng.choice(['s', 'step', 'S', 'Step']))
        elif r < 0.4:
            lines.append(f'{rng.choice(["s", "skip", "SKIP"])} {rng.choice(["1", "2", "3", "7", "0x5", "40", "0", "-2", "x", "1000000"])}')
        elif r < 0.52:
            lines.append(rng.choice(['c', 'cont', 'continue', 'C']))
        elif r < 0.56:
            lines.append(rng.choice(['c*', 'ca', 'continue all', 'CA', 'Continue All', 'c* now']))
        elif r < 0.6:
            lines.append(rng.choice(['q', 'quit', 'exit', 'q now']))
        elif r < 0.82:
            lines.append(f'{rng.choice(["r", "read", "R"])} {target()}'.rstrip())
        elif r < 0.88:
            lines.append(rng.choice(['h', 'help', '?', 'h me']))
        elif r < 0.94:
            lines.append(rng.choice(['', '   ', 'skip', 'step 3', 'c all', 'cont all', 'foo', 'reads 0', 'continue  all', 'r']))
        else:
            lines.append(rng.choice(['s', 'c']))
    return lines


# ------------------------------------------------------------------------------ the debugger model
class Session:
    def __init__(self, case: Dict[str, Any], breakpoints: Set[int], labels: Dict[str, int], script: List[str]):
        self.case = case
        self.w = case['w']
        self.breakpoints = breakpoints
        self.labels = labels
        self.script = list(script)
        self.pos = 0
        self.machine = RefMachine(case['w'], [tuple(s) for s in case['segments']], {int(a): int(v) for a, v in case['mem']},
                                  bytes.fromhex(case['input']), track=True)
        self.events: List[Tuple[Any, ...]] = []
        self.final: Tuple[str, int, Optional[int]] = ('', 0, None)
        self.unreadable_pause = False

    def next_line(self) -> Optional[str]:
        if self.pos >= len(self.script):
            return None
        line = self.script[self.pos]
        self.pos += 1
        return line.strip()

    def read_word(self, bit_address: int) -> Optional[int]:
        wi = bit_address // self.w
        if not self.machine.seg.contains(wi):
            return None
        return self.machine.peek(wi)

    def model_read(self, target_text: str) -> Tuple[Any, ...]:
        w = self.w
        prefix = None
        target = target_text
        m = re.match(r':([bhBfj])(\d*):(\d+:)?([^:]*)', target_text)
        if m:
            kind, length, index_s, target = m.groups()
            prefix = (kind, int(length) if length else 1, int(index_s[:-1]) if index_s else 0)
        if target in self.labels:
            address = self.labels[target]
        else:
            try:
                address = int(target)
            except ValueError:
                try:
                    address = int(target, 16)
                except ValueError:
                    return ('read-invalid',)
        if address % w != 0 or address < 0 or address >= (1 << w):
            return ('read-bad-address',)
        if prefix and prefix[0] in ('f', 'j'):
            kind, length, index = prefix
            address += w * (2 * length * index + (1 if kind == 'j' else 0))
            prefix = None
        if prefix is None:
            value = self.read_word(address)
            return ('read-failure',) if value is None else ('read-word', address, value)
        kind, length, index = prefix
        first = address + 2 * length * index * w
        last = first + 2 * w * length
        bits = {'b': 1, 'h': 4, 'B': 8}[kind]
        value = 0
        words = []
        for a in range(first + w, last, 2 * w):
            v = self.read_word(a)
            if v is None:
                return ('read-failure',)
            words.append(v)
        for v in reversed(words):
            value = (value << bits) | ((v >> w.bit_length()) & ((1 << bits) - 1))
        return ('read-variable', first, last, value)

    def run(self, max_ops: int = 100000) -> None:
        m = self.machine
        active = True
        next_break: Optional[int] = None
        while True:
            ip = m.ip
            if active and (next_break == m.ops or ip in self.breakpoints):
                self.events.append(('pause', 'Breakpoint' if ip in self.breakpoints else 'Debug Step', ip, m.ops))
                # the prompt shows the op's flip and jump words; an op whose words are unreadable must still behave
                # as in an undebugged run (the property) - remember that this pause is such a one
                words_ok = True
                try:
                    probe = RefMachine(self.w, m.seg, m.mem)
                    probe.fetch(ip, 'x')
                    probe.fetch(ip + self.w, 'x')
                except RefFault:
                    words_ok = False
                if not words_ok:
                    self.unreadable_pause = True
                action = None
                while action is None:
                    line = self.next_line()
                    if line is None:
                        action = ('exit', 0)
                        break
                    if not line:
                        continue
                    tokens = line.split()
                    command, argument = tokens[0].lower(), (tokens[1] if len(tokens) > 1 else None)
                    if command in ('h', 'help', '?'):
                        self.events.append(('help',))
                    elif command in ('r', 'read'):
                        if argument is None:
                            self.events.append(('usage',))
                        else:
                            self.events.append(self.model_read(' '.join(tokens[1:])))
                    elif command in ('s', 'step') and argument is None:
                        action = ('step', 0)
                    elif command in ('s', 'skip') and argument is not None:
                        count = parse_count(argument)
                        if count is None or count <= 0:
                            self.events.append(('skip-rejected',))
                        else:
                            action = ('skip', count)
                    elif command in ('c', 'cont', 'continue') and argument is None:
                        action = ('continue', 0)
                    elif command in ('c*', 'ca') or line.lower() == 'continue all':
                        action = ('continue_all', 0)
                    elif command in ('q', 'quit', 'exit'):
                        action = ('exit', 0)
                    else:
                        self.events.append(('unknown',))
                if action[0] == 'step':
                    next_break = m.ops + 1
                elif action[0] == 'skip':
                    next_break = m.ops + action[1]
                elif action[0] == 'continue':
                    next_break = None
                elif action[0] == 'continue_all':
                    active = False
                else:
                    self.final = ('keyboard-interrupt', m.ops, None)
                    return
            cause = m.step()
            if cause is not None:
                self.final = (cause, m.ops, m.fault_address)
                return
            if m.ops > max_ops:
                self.final = ('cut', m.ops, None)
                return


def parse_count(text: str) -> Optional[int]:
    """decimal or 0x-hex (the documented forms); anything else is rejected."""
    t = text.strip()
    if re.fullmatch(r'[+-]?[0-9]+', t):
        if re.fullmatch(r'[+-]?0[0-9]+', t):
            return None  # int(x, 0) rejects leading zeros
        return int(t)
    if re.fullmatch(r'[+-]?0[xX][0-9a-fA-F]+', t):
        return int(t, 16)
    return None


# ------------------------------------------------------------------------------ parsing what the debugger printed
def parse_output(text: str) -> List[Tuple[Any, ...]]:
    events: List[Tuple[Any, ...]] = []
    for title, body in re.findall(r'==== (.+?) ====\n(.*?)(?=\n==== |\Z)', text, re.S):
        if title in ('Breakpoint', 'Debug Step'):
            a = re.search(r'Address (0x[0-9a-f]+)', body)
            o = re.search(r'(\d+) ops executed', body)
            events.append(('pause', title, int(a.group(1), 16) if a else -1, int(o.group(1)) if o else -1))
        elif title == 'Read Memory':
            mm = re.search(r'memory\[(0x[0-9a-f]+)\] = (\d+)', body)
            events.append(('read-word', int(mm.group(1), 16), int(mm.group(2))) if mm else ('read-unparsed', body[:80]))
        elif title == 'Reading FlipJump Variable':
            mm = re.search(r'memory\[(0x[0-9a-f]+), (0x[0-9a-f]+)\) = (\d+)', body)
            events.append(('read-variable', int(mm.group(1), 16), int(mm.group(2), 16), int(mm.group(3))) if mm else ('read-unparsed', body[:80]))
        elif title == 'Bad memory address':
            events.append(('read-bad-address',))
        elif title == 'Read Memory Failure':
            events.append(('read-failure',))
        elif title == 'Invalid memory address.':
            events.append(('read-invalid',))
        elif title == 'Debugger commands':
            events.append(('help',))
        elif title == 'Debugger':
            if body.startswith('usage:'):
                events.append(('usage',))
            elif body.startswith('skip needs'):
                events.append(('skip-rejected',))
            elif body.startswith('unknown command'):
                events.append(('unknown',))
            else:
                events.append(('debugger-message', body[:60]))
        else:
            events.append(('other', title))
    return events


# ------------------------------------------------------------------------------ one session against the real debugger
def run_real(case: Dict[str, Any], path: Path, dbg_path: Optional[Path], bp_addresses: Set[int], bp_labels: Set[str],
             bp_contains: Set[str], script: List[str], ring: Optional[int]) -> Dict[str, Any]:
    import flipjump

    Device = engines.make_recording_device()
    device = Device(bytes.fromhex(case['input']))
    out = io.StringIO()
    old_stdin = sys.stdin
    sys.stdin = io.StringIO(''.join(line + '\n' for line in script))
    engines.clear_env()
    result: Dict[str, Any] = {'exc': None}
    try:
        with contextlib.redirect_stdout(out):
            stats = flipjump.debug(path, dbg_path, breakpoints_addresses=set(bp_addresses), breakpoints=set(bp_labels),
                                   breakpoints_contains=set(bp_contains), io_device=device, print_time=False,
                                   print_termination=False, last_ops_debugging_list_length=ring)
        result.update(cause=str(stats.termination_cause), ops=int(stats.op_counter), fault=stats.memory_error_address)
    except BaseException as exc:  # noqa: B902
        result.update(cause='exception', ops=-1, fault=None, exc=f'{type(exc).__name__}: {str(exc)[:200]}')
    finally:
        sys.stdin = old_stdin
    result['text'] = out.getvalue()
    result['device'] = device
    return result


LABEL_POOL = ['main', 'loop', 'abc', 'f1:l3:foo---loop', 'f1:l3:foo---f1:l9:bar---x', 'data', 'data_x', 'beef', 'zz_top', 'x',
              'f2:l1:m---:start:', 'ns.inner.v', 'cafe0']


def one_case(rng: random.Random, counters: Dict[str, Any], journal: Any) -> Tuple[List[Dict[str, Any]], Optional[str], Any]:
    from flipjump.utils.functions import save_debugging_labels

    case = imagegen.generate_case(rng, rng.choice(['compact', 'gaps', 'w8', 'window-cut', 'many', 'top']), max_ops=400)
    ref = imagegen.reference_run(case)
    w = case['w']
    executed = sorted(ref.visits)
    touched_bits = [wd * w for wd in sorted(ref.touched)]
    # labels: some on executed ops, some on data, some elsewhere
    labels: Dict[str, int] = {}
    for name in rng.sample(LABEL_POOL, rng.randrange(0, len(LABEL_POOL))):
        labels[name] = rng.choice(executed + touched_bits + [rng.randrange(0, 1 << min(w, 16))])
    bp_addresses = set(rng.sample(executed, min(len(executed), rng.choice([0, 1, 1, 2, 4])))) | \
        ({rng.randrange(0, 1 << min(w, 14))} if rng.random() < 0.2 else set())
    bp_labels = set(rng.sample(sorted(labels), min(len(labels), rng.choice([0, 0, 1, 2])))) | ({'missing_label'} if rng.random() < 0.1 else set())
    bp_contains = set(rng.sample(['loop', 'data', 'f1', 'a', '---', 'zz', 'nomatch'], rng.choice([0, 0, 1, 2])))
    model_bps = set(bp_addresses) | {labels[n] for n in bp_labels if n in labels} | \
        {a for n, a in labels.items() if any(sub in n for sub in bp_contains)}
    if not model_bps:
        model_bps = bp_addresses = {executed[0]}
    script = gen_script(rng, labels, w, executed + touched_bits)
    session = Session(case, model_bps, labels, script)
    session.run()
    if session.final[0] == 'cut':
        return [], None, None
    path = engines.tmpdir() / 'c15.fjm'
    dbg = engines.tmpdir() / 'c15.fjd'
    engines.write_case(case, path, rng.randrange(4))
    save_debugging_labels(dbg, labels)
    journal.note({'case': case, 'labels': labels, 'bp': [sorted(bp_addresses), sorted(bp_labels), sorted(bp_contains)], 'script': script})
    real = run_real(case, path, dbg if labels else None, bp_addresses, bp_labels, bp_contains, script, rng.choice([None, 3, 10]))
    counters['monitor_evaluations'] = counters.get('monitor_evaluations', 0) + 1
    got_events = parse_output(real['text'])
    pauses = [e for e in session.events if e[0] == 'pause']
    counters['pauses_checked'] = counters.get('pauses_checked', 0) + len(pauses)
    counters['reads_checked'] = counters.get('reads_checked', 0) + sum(1 for e in session.events if e[0].startswith('read'))
    counters['commands_fed'] = counters.get('commands_fed', 0) + session.pos
    for e in session.events:
        counters.setdefault('event_kinds', {})
        counters['event_kinds'][e[0]] = counters['event_kinds'].get(e[0], 0) + 1
    violations: List[Dict[str, Any]] = []
    replay = {'case': case, 'labels': labels, 'bp_addresses': sorted(bp_addresses), 'bp_labels': sorted(bp_labels),
              'bp_contains': sorted(bp_contains), 'script': script}
    tag = '/op-with-unreadable-word' if session.unreadable_pause else ''

    def bad(key: str, what: str) -> None:
        violations.append({'key': key + tag, 'what': what, 'replay': replay})

    want_final = session.final
    got_final = (real['cause'], real['ops'], real['fault'])
    if real['exc']:
        bad('session-raised', f'debug session raised {real["exc"]}')
    elif got_events != session.events:
        first = next((i for i, (a, b) in enumerate(zip(got_events, session.events)) if a != b), min(len(got_events), len(session.events)))
        bad('pause-or-read-sequence', f'event #{first}: debugger {got_events[first:first + 2]} model {session.events[first:first + 2]} '
                                      f'(of {len(got_events)}/{len(session.events)} events; script {script[:6]})')
    elif got_final[:2] != want_final[:2] or (want_final[2] is not None and got_final[2] != want_final[2]):
        bad('termination', f'debugged run ended {got_final}, model {want_final}')
    elif [tuple(e) for e in real['device'].log] != session.machine.io_log:
        bad('output-differs', f'device saw {real["device"].log[-4:]} model {session.machine.io_log[-4:]}')
    elif real['device'].memory is not None:
        m = session.machine
        words = sorted(wd for wd in (set(m.touched) | {int(a) for a, _ in case['mem']}) if m.seg.contains(wd))
        got = engines.read_words(real['device'], words)
        diff = [(wd, got[wd], m.peek(wd)) for wd in words if got[wd] != m.peek(wd)]
        if diff:
            bad('memory-after-session', f'{diff[:3]}')
    # no quit in the script => identical to the undebugged reference run
    if want_final[0] != 'keyboard-interrupt' and (want_final[0], want_final[1]) != (ref.cause, ref.ops):
        bad('model-self-check', 'internal: model without quit differs from the plain reference run')
    sample = None
    if pauses and len(session.events) > len(pauses):
        sample = {'w': w, 'breakpoints': sorted(model_bps)[:4], 'script': script[:8], 'events': [list(e) for e in session.events[:8]],
                  'final': list(want_final)}
    return violations, case_hash([case, script, sorted(model_bps)]) if pauses else None, sample


# ------------------------------------------------------------------------------ the same sessions through the fj command
def cli_source(rng: random.Random) -> Tuple[str, int]:
    """a small program without the library and without input/output (the command's debugger and the program share the
    terminal): labelled ops, macros whose first address has no label of its own (the assembler names it '...---:start:'),
    a namespace, flips of a scratch word; ends in a self-loop."""
    w = rng.choice([16, 32, 64])
    lines = ['def blink < scratch {', '    ;', '    scratch+1;', '}', 'def hop @ here {', '  here:', '    ;', '}',
             'ns box {', '    def twice {', '        blink', '        ;', '    }', '}', '',
             '    ;code_start', 'IO:', '    ;0', 'code_start:']   # (the op at 2w is the input/output op: never executed)
    for k in range(rng.randrange(3, 12)):
        r = rng.random()
        if r < 0.3:
            lines.append(f'L{k}:')
            lines.append(f'    scratch+{rng.randrange(w)};' if rng.random() < 0.5 else '    ;')
        elif r < 0.55:
            lines.append('    blink')
        elif r < 0.7:
            lines.append('    hop')
        elif r < 0.85:
            lines.append('    box.twice')
        else:
            lines += ['ns box {', f'  mark{k}:', '    ;', '}']
    lines += ['end:', '    ;end', 'scratch:', '    ;0', '']
    return '\n'.join(lines), w


def termination_in(text: str) -> Optional[Tuple[str, int]]:
    m = re.search(r'Finished by (\S+)[^\n]*?\(([\d,]+) ops executed', text)
    return (m.group(1), int(m.group(2).replace(',', ''))) if m else None


def run_cli(args: List[str], script: List[str]) -> Dict[str, Any]:
    from flipjump import flipjump_cli

    out, err = io.StringIO(), io.StringIO()
    old_stdin = sys.stdin
    sys.stdin = io.StringIO(''.join(line + '\n' for line in script))
    engines.clear_env()
    result: Dict[str, Any] = {'exc': None}
    try:
        with contextlib.redirect_stdout(out), contextlib.redirect_stderr(err):
            flipjump_cli.assemble_run_according_to_cmd_line_args(cmd_line_args=list(args))
    except SystemExit as exc:
        result['exit'] = exc.code
    except BaseException as exc:  # noqa: B902
        result['exc'] = f'{type(exc).__name__}: {str(exc)[:200]}'
    finally:
        sys.stdin = old_stdin
    result['text'] = out.getvalue()
    result['err'] = err.getvalue()
    return result


def cli_case(rng: random.Random, counters: Dict[str, Any], journal: Any) -> List[Dict[str, Any]]:
    import flipjump
    from flipjump.fjm.fjm_reader import Reader
    from flipjump.utils.functions import load_debugging_labels

    source, w = cli_source(rng)
    d = engines.tmpdir()
    src, fjm, dbg = d / 'c15cli.fj', d / 'c15cli.fjm', d / 'c15cli.fjd'
    src.write_text(source)
    flipjump.assemble([src], fjm, memory_width=w, use_stl=False, debugging_file_path=dbg, print_time=False)
    labels = load_debugging_labels(dbg)
    reader = Reader(fjm)
    case = {'w': w, 'segments': [[sg.segment_start, sg.segment_length] for sg in reader.memory_segments],
            'mem': [[k, v] for k, v in reader.memory.items() if v], 'input': ''}
    ref = imagegen.reference_run(case)
    executed = sorted(ref.visits)
    on_path = sorted(n for n, a in labels.items() if a in ref.visits and not n.startswith('-'))   # (a command-line word)
    starts = [n for n in on_path if n.endswith(':start:')]
    bp_labels = set(rng.sample(on_path, min(len(on_path), rng.choice([0, 1, 2])))) | ({'missing_label'} if rng.random() < 0.1 else set())
    if starts and rng.random() < 0.5:
        bp_labels.add(rng.choice(starts))
    bp_contains = set(rng.sample(['L', 'blink', 'start', 'hop', 'box.', 'mark', 'nomatch', 'end'], rng.choice([0, 0, 1, 2])))
    if not bp_labels and not bp_contains:
        bp_labels = {rng.choice(on_path)}
    model_bps = {labels[n] for n in bp_labels if n in labels} | {a for n, a in labels.items() if any(sub in n for sub in bp_contains)}
    script = gen_script(rng, labels, w, executed + [labels['scratch']])
    session = Session(case, model_bps, labels, script)
    session.run()
    if session.final[0] == 'cut':
        return []
    silent = rng.random() < 0.5
    bp_args = (['-b'] + sorted(bp_labels) if bp_labels else []) + (['-B'] + sorted(bp_contains) if bp_contains else [])
    common = (['-s'] if silent else []) + bp_args
    routes = {
        'run-only': ['--run', str(fjm), '-d', str(dbg)] + common,
        'one-step': [str(src), '--no_stl', '-w', str(w)] + common + rng.choice([[], ['-d'], ['-d', str(d / 'c15cli-onestep.fjd')]]),
    }
    replay = {'source': source, 'w': w, 'script': script, 'routes': routes}
    journal.note({'cli': replay})
    violations: List[Dict[str, Any]] = []
    for route, args in routes.items():
        real = run_cli(args, script)
        counters['monitor_evaluations'] = counters.get('monitor_evaluations', 0) + 1
        counters['cli_sessions'] = counters.get('cli_sessions', 0) + 1
        counters[f'cli_sessions/{route}'] = counters.get(f'cli_sessions/{route}', 0) + 1
        counters['cli_pauses_checked'] = counters.get('cli_pauses_checked', 0) + sum(1 for e in session.events if e[0] == 'pause')
        if any(n.endswith(':start:') for n in bp_labels):
            counters['cli_sessions_with_a_macro_start_breakpoint'] = counters.get('cli_sessions_with_a_macro_start_breakpoint', 0) + 1
        got = parse_output(real['text'])
        if real['exc'] or real.get('exit') not in (None, 0):
            violations.append({'key': f'cli/{route}/session-raised', 'what': f'fj {args[-6:]} ended with {real["exc"] or real.get("exit")}: {real["err"][-200:]}',
                               'replay': replay})
        elif got != session.events:
            first = next((i for i, (a, b) in enumerate(zip(got, session.events)) if a != b), min(len(got), len(session.events)))
            violations.append({'key': f'cli/{route}/pause-or-read-sequence',
                               'what': f'event #{first}: fj {got[first:first + 2]} model {session.events[first:first + 2]} (of {len(got)}/{len(session.events)}; '
                                       f'breakpoints {sorted(bp_labels)} contains {sorted(bp_contains)}, silent={silent})', 'replay': replay})
        elif not silent:
            term = termination_in(real['text'])
            if term is None:
                counters['cli_termination_not_parsed'] = counters.get('cli_termination_not_parsed', 0) + 1
            elif term != (session.final[0], session.final[1]):
                violations.append({'key': f'cli/{route}/termination', 'what': f'fj reports {term}, model {session.final[:2]}', 'replay': replay})
            else:
                counters['cli_terminations_checked'] = counters.get('cli_terminations_checked', 0) + 1
    return violations


def run_shard(spec: Dict[str, Any], journal: Any) -> Dict[str, Any]:
    rng = rng_for(spec['seed'], PROPERTY, spec['shard'])
    counters: Dict[str, Any] = {}
    violations: List[Dict[str, Any]] = []
    hashes: List[str] = []
    samples: List[Any] = []
    for _ in range(spec['cases']):
        found, h, sample = one_case(rng, counters, journal)
        for v in found:
            if sum(1 for x in violations if x['key'] == v['key']) < 3:
                violations.append(v)
        if h:
            hashes.append(h)
        if sample and len(samples) < 1:
            samples.append(sample)
    for _ in range(spec.get('cli_cases', 0)):
        for v in cli_case(rng, counters, journal):
            if sum(1 for x in violations if x['key'] == v['key']) < 3:
                violations.append(v)
    engines.cleanup_tmpdir()
    return {'counters': counters, 'violations': violations, 'hashes': hashes, 'samples': samples,
            'evaluations': counters.get('monitor_evaluations', 0)}


def replay_case(record: Dict[str, Any], journal: Any) -> Dict[str, Any]:
    return {'counters': {}, 'violations': [], 'evaluations': 1, 'hashes': [],
            'inconclusive': ['C15 replay files carry the image, label table, breakpoints and command script']}


def finalize(tier: str, seed: int, counters: Dict[str, Any], evaluations: int, distinct: int) -> Dict[str, Any]:
    inconclusive = []
    kinds = counters.get('event_kinds', {})
    for k in ('pause', 'read-word', 'read-variable', 'read-failure', 'read-bad-address', 'read-invalid', 'help', 'unknown', 'skip-rejected', 'usage'):
        if not kinds.get(k):
            inconclusive.append(f'debugger event {k!r} never produced')
    if counters.get('pauses_checked', 0) < 500:
        inconclusive.append(f'only {counters.get("pauses_checked", 0)} pauses checked')
    if counters.get('cli_sessions', 0) < 100 or counters.get('cli_sessions_with_a_macro_start_breakpoint', 0) < 10:
        inconclusive.append(f'only {counters.get("cli_sessions", 0)} sessions through the fj command')
    return {
        'coverage': {
            'rule': 'generated images run under flipjump.debug with breakpoints by address, exact label and substring over '
                    'synthetic label tables, and command scripts of up to 12 lines over the whole vocabulary (step, skip N with '
                    'decimal/hex/invalid counts, continue, continue-all, quit, reads of addresses / labels / :bN: :hN: :BN: :f: :j: '
                    'variables with indices, help, unknown and malformed commands, EOF). stdin is replaced by the script and the '
                    'printed "Address .. / N ops executed" blocks and read results are parsed and compared with a debugger model '
                    'layered on the reference machine; final termination, device output and memory must equal the model (which, '
                    'without quit, equals the undebugged run). the same model also judges sessions through the fj command itself '
                    '(assemble_run_according_to_cmd_line_args in-process, script on stdin): generated no-library sources with labels, '
                    'namespaces and label-less macro starts (---:start: names), -b / -B breakpoints, silent or not, run-only with -d FILE '
                    'and the one-step flow with -d FILE, bare -d or no -d at all (temporary label file). evaluation = one session',
        },
        'inconclusive': inconclusive,
        'assumptions': ['the command grammar of the model is transcribed from DEBUGGER_HELP', 'featured loop only (the debugger forces it)'],
    }
