"""C06 - writing then reading an .fjm preserves the memory image in every version (DESIGN 4, C06)."""

from __future__ import annotations

import random
from pathlib import Path
from typing import Any, Dict, List, Optional, Tuple

from fjverif import engines
from fjverif.common import REPO_ROOT, case_hash, rng_for

PROPERTY = 'C06'
LEVEL = 'exploration'
NATIVE_VARIANT = None
TAILS = [0, 0, 2, 2, 998, 1000, 1002, 1004, 10 ** 6]


def plan(tier: str, seed: int) -> List[Dict[str, Any]]:
    shards, per = (14, 450) if tier == 'quick' else (48, 9000)
    out = [{'kind': 'calls', 'seed': seed, 'shard': i, 'cases': per, 'timeout_s': 1200 if tier == 'quick' else 7200}
           for i in range(shards)]
    for spec in out[3::4]:   # (python -O strips assert statements and sets __debug__ to False)
        spec['env'] = {'PYTHONOPTIMIZE': '1'}
    n_asm = 2 if tier == 'quick' else 12
    for i in range(n_asm):
        out.append({'kind': 'assembled', 'seed': seed, 'shard': i, 'shards': n_asm, 'tier': tier, 'timeout_s': 3000})
    out.append({'kind': 'contracts-under-repo-tests', 'seed': seed, 'shard': 0, 'timeout_s': 3000})
    # pools larger than the compressor's window: (preset, MiB) - the repeat lies further back than the next smaller dictionary
    large = [(9, 9, 64), (7, 9, 32), (0, 9, 64)] if tier == 'quick' else \
        [(p, 9, 64) for p in range(10)] + [(p, 9, 32) for p in (0, 6, 7, 8, 9)] + [(8, 17, 64), (9, 17, 64), (9, 33, 64), (6, 17, 32),
                                                                                      (0, 65, 64), (6, 65, 64)]
    for i, (preset, mib, w) in enumerate(large):
        out.append({'kind': 'large-compressed', 'seed': seed, 'shard': i, 'preset': preset, 'mib': mib, 'w': w, 'timeout_s': 3000})
    return out


def shard_large(spec: Dict[str, Any]) -> Dict[str, Any]:
    """one image whose data pool is larger than the compressor's dictionary and repeats its head at the very end: written at
    version 3 with the given preset (and at version 1 as the plain rendering), read back, compared word by word."""
    from flipjump.fjm.fjm_consts import FJMVersion
    from flipjump.fjm.fjm_reader import Reader
    from flipjump.fjm.fjm_writer import Writer
    from flipjump.utils.exceptions import FlipJumpReadFjmException, FlipJumpWriteFjmException

    rng = rng_for(spec['seed'], PROPERTY, 'large', spec['shard'])
    w, preset = spec['w'], spec['preset']
    n = ((spec['mib'] << 20) // (w // 8)) & ~1
    raw = rng.randbytes(n * (w // 8))
    words = [int.from_bytes(raw[i:i + w // 8], 'little') for i in range(0, len(raw), w // 8)]
    head = 20000
    words[-head:] = words[:head]                      # a repeat (n - head) words back
    for i in range(head, min(n - head, head + 200000)):
        words[i] &= 0xFF                                  # a compressible stretch too
    del raw
    counters: Dict[str, Any] = {'large_images': 1, 'large_pool_words': n}
    violations: List[Dict[str, Any]] = []
    tag = f'preset{preset}/w{w}/{spec["mib"]}MiB'
    start = 2 * rng.randrange(0, 1000)
    length = n + 2 * rng.choice([0, 1, 600])
    readers = {}
    for version in (1, 3):
        path = engines.tmpdir() / f'large-v{version}.fjm'
        try:
            writer = Writer(path, w, FJMVersion(version), lzma_preset=preset)
            ds = writer.add_data(list(words))
            writer.add_segment(start, length, ds, n)
            writer.write_to_file()
        except FlipJumpWriteFjmException:
            counters['large_rejected_by_writer'] = counters.get('large_rejected_by_writer', 0) + 1
            continue
        counters['monitor_evaluations'] = counters.get('monitor_evaluations', 0) + 1
        try:
            readers[version] = Reader(path)
        except FlipJumpReadFjmException as exc:
            violations.append({'key': 'reader-refuses-writer-output/large-pool', 'what': f'v{version} {tag}: writer accepted, reader refused: {exc}',
                               'replay': {'kind': 'large', 'spec': spec, 'version': version}})
        finally:
            path.unlink()
    probes = list(range(0, 300)) + list(range(n - head - 100, n)) + [rng.randrange(n) for _ in range(20000)]
    for version, reader in readers.items():
        for i in probes:
            counters['words_compared'] = counters.get('words_compared', 0) + 1
            got = reader.get_word((start + i) * w)
            if got != words[i]:
                violations.append({'key': 'word-value/large-pool', 'what': f'v{version} {tag}: word {start + i}: got {got:#x} want {words[i]:#x}',
                                   'replay': {'kind': 'large', 'spec': spec, 'version': version}})
                break
        segs = [(s.segment_start, s.segment_length) for s in reader.memory_segments]
        if segs != [(start, length)]:
            violations.append({'key': 'segments/large-pool', 'what': f'v{version} {tag}: segments {segs} want {[(start, length)]}',
                               'replay': {'kind': 'large', 'spec': spec, 'version': version}})
    engines.cleanup_tmpdir()
    return {'counters': counters, 'violations': violations, 'hashes': [f'large:{tag}'], 'samples': [],
            'evaluations': counters.get('monitor_evaluations', 0)}


def shard_contracts(spec: Dict[str, Any]) -> Dict[str, Any]:
    """second oracle (DESIGN 3.10): the repository's own test suite runs with icontract postconditions/invariants on the
    Reader, the Writer and the bit-level devices (fjverif/contracts_plugin.py). a contract that fires is a violation; zero
    evaluations (icontract missing, names bound before decoration) make this tier inconclusive."""
    import json
    import os
    import subprocess

    from fjverif.common import DEPS_DIR, PYTHON, VERIF_ROOT

    out_file = engines.tmpdir() / 'contracts.json'
    env = dict(os.environ, FJVERIF_CONTRACTS_OUT=str(out_file),
               PYTHONPATH=os.pathsep.join([str(REPO_ROOT), str(VERIF_ROOT), str(DEPS_DIR)]))
    proc = subprocess.run([PYTHON, '-m', 'pytest', '-q', '-p', 'no:cacheprovider', '-p', 'fjverif.contracts_plugin', '--timeout=900',
                           '-x', '--no-header', '-o', 'cache_dir=' + str(engines.tmpdir() / 'pytest-cache')],
                          cwd=str(REPO_ROOT), env=env, capture_output=True, timeout=2500)
    counters: Dict[str, Any] = {}
    violations: List[Dict[str, Any]] = []
    inconclusive: List[str] = []
    if out_file.exists():
        data = json.loads(out_file.read_text())
        counters['contract_evaluations'] = data['counts']
        total = sum(data['counts'].values())
        counters['monitor_evaluations'] = total
        for broken in data['broken'][:3]:
            violations.append({'key': f'contract/{broken["contract"]}', 'what': f'under the repository tests: {broken["detail"]}',
                               'replay': {'kind': 'contracts', 'contract': broken['contract']}})
        if total == 0:
            inconclusive.append('contracts tier: no contract was evaluated (icontract missing or classes bound before decoration)')
        elif data['exitstatus'] != 0 and not data['broken']:
            inconclusive.append('contracts tier: the repository tests failed under the plugin without a contract firing: '
                                + proc.stdout.decode('utf-8', 'replace')[-300:])
    else:
        inconclusive.append('contracts tier: the pytest run produced no report: ' + proc.stderr.decode('utf-8', 'replace')[-300:])
    engines.cleanup_tmpdir()
    return {'counters': counters, 'violations': violations, 'hashes': [f'contract:{k}' for k in counters.get('contract_evaluations', {})],
            'samples': [], 'evaluations': counters.get('monitor_evaluations', 0), 'inconclusive': inconclusive}


# ------------------------------------------------------------------------------ generation
def gen_calls(rng: random.Random) -> Dict[str, Any]:
    """a writer call sequence: [('data', [words]) | ('segment', start, length, data_ref, data_off, data_len)].
    data_ref names an earlier 'data' call; flaws are injected deliberately and labelled."""
    w = rng.choice([8, 16, 32, 64])
    mask = (1 << w) - 1
    top_words = (1 << w) // w
    n = rng.choice([1, 1, 2, 3, 4, 6])
    calls: List[List[Any]] = []
    flaws: List[str] = []
    placed: List[Tuple[int, int]] = []
    datas: List[List[int]] = []
    beyond = rng.random() < 0.08  # segments past the 2^w-bit space (u64 word addresses allow it)
    for _ in range(n):
        dlen = 2 * rng.choice([0, 1, 1, 2, 3, 8, 40])
        tail = rng.choice(TAILS)
        length = dlen + tail
        if length == 0:
            length = 2
        limit = (1 << 62) if beyond else top_words
        for _try in range(30):
            r = rng.random()
            if not placed:
                start = 0 if r < 0.6 else 2 * rng.randrange(0, 50)
            elif r < 0.35:
                start = placed[-1][0] + placed[-1][1] + 2 * rng.choice([0, 0, 1, 5, 500])
            elif r < 0.5:
                start = limit - length - 2 * rng.choice([0, 0, 1, 7])
            else:
                start = 2 * rng.randrange(0, max(1, min(limit, 1 << 40) // 2))
            if start < 0 or start + length > limit:
                continue
            if all(start + length <= s or s + l <= start for s, l in placed):
                break
        else:
            continue
        words = []
        for i in range(dlen):
            r = rng.random()
            words.append(0 if r < 0.2 else 1 if r < 0.25 else mask if r < 0.35 else (start + i) * w & mask if r < 0.5
                         else rng.getrandbits(w))
        prior = [c for c in calls if c[0] == 'segment' and c[5] > 0]
        if prior and rng.random() < 0.08:
            # a data range that overlaps an earlier segment's range by exactly k words (k = 1 is the smallest overlap there is)
            a = rng.choice(prior)
            k = rng.choice([1, 1, 2, 3])
            off = a[4] + a[5] - k
            avail = sum(len(d) for d in datas[a[3]:]) - off
            dl = 2 * rng.randrange(1, max(2, avail // 2 + 1)) if avail >= 2 else 0
            dl = min(dl, avail - avail % 2, length - length % 2)
            if dl >= 2 and off >= 0:
                calls.append(['segment', start, length, a[3], off, dl])
                flaws.append('shared-data')
                placed.append((start, length))
                continue
        share = datas and rng.random() < 0.15
        if share:  # refer to (part of) an earlier data block - legal in versions 0/1
            ref = rng.randrange(len(datas))
            avail = len(datas[ref])
            off = 2 * rng.randrange(0, avail // 2 + 1) if avail else 0
            dl = 2 * rng.randrange(0, (avail - off) // 2 + 1)
            dl = min(dl, length - length % 2)
            calls.append(['segment', start, length, ref, off, dl])
            flaws.append('shared-data')
        else:
            calls.append(['data', words])
            datas.append(words)
            calls.append(['segment', start, length, len(datas) - 1, 0, dlen])
        placed.append((start, length))
    # flaw injection (each must be REJECTED by the writer with its own exception, or be harmless)
    r = rng.random()
    segs = [c for c in calls if c[0] == 'segment']
    if segs and r < 0.30:
        victim = rng.choice(segs)
        kind = rng.choice(['odd-data-length', 'odd-start', 'odd-length', 'overlap', 'zero-length', 'data-longer',
                           'data-outside-pool', 'word-too-big', 'word-negative', 'beyond-u64'])
        flaws.append(kind)
        if kind == 'odd-data-length':
            if victim[5] >= 2:
                victim[5] -= 1
            elif victim[2] > victim[5]:
                victim[5] += 1
                if victim[5] > len(datas[victim[3]]) - victim[4]:
                    datas[victim[3]].append(rng.getrandbits(w))
        elif kind == 'odd-start':
            victim[1] += 1
        elif kind == 'odd-length':
            victim[2] += 1
        elif kind == 'overlap' and len(segs) >= 2:
            other = rng.choice([s for s in segs if s is not victim])
            victim[1] = max(0, other[1] + 2 * rng.randrange(-1, max(1, other[2] // 2)))
        elif kind == 'zero-length':
            victim[2] = 0
            victim[5] = 0
        elif kind == 'data-longer':
            victim[5] = victim[2] + 2
            while len(datas[victim[3]]) < victim[4] + victim[5]:
                datas[victim[3]].append(rng.getrandbits(w))
        elif kind == 'data-outside-pool':
            victim[4] = len(datas[victim[3]]) + 2 * rng.choice([0, 1, 50]) - max(0, victim[5] - 2)
            victim[5] = max(victim[5], 2)
            if victim[2] < victim[5]:
                victim[2] = victim[5]
            flaws.append('data-outside-pool-last')  # only meaningful when it is the last data block
        elif kind == 'word-too-big' and datas[victim[3]]:
            datas[victim[3]][rng.randrange(len(datas[victim[3]]))] = mask + rng.choice([1, 2, 1 << 70])
        elif kind == 'word-negative' and datas[victim[3]]:
            datas[victim[3]][rng.randrange(len(datas[victim[3]]))] = -rng.choice([1, 2, 1 << 70])
        elif kind == 'beyond-u64':
            victim[1] = (1 << 64) - rng.choice([0, 2, victim[2]])
    resume = False
    if rng.random() < 0.35:
        # the caller CATCHES a rejected call and goes on (a rejected call must leave the writer as it was): every later call
        # still counts, and some rejected segments are retried with the same data range at a free address
        resume = True
        flaws.append('resume-after-rejection')
        cursor = max([c[1] + c[2] for c in calls if c[0] == 'segment' and c[1] + c[2] < (1 << 50)] + [0]) + 2 * rng.choice([0, 1, 50])
        cursor += cursor % 2
        for call in [c for c in calls if c[0] == 'segment']:
            if rng.random() < 0.6 and cursor + call[2] + 2 <= (top_words if not beyond else 1 << 62):
                length = call[2] + call[2] % 2 or 2
                calls.append(['segment', cursor, max(length, call[5] + call[5] % 2), call[3], call[4], call[5] - call[5] % 2])
                cursor += max(length, call[5]) + 2 + 2 * rng.choice([0, 3])
                cursor += cursor % 2
    reuse = rng.random() < 0.3
    if reuse:
        flaws.append('caller-reuses-its-lists')
    return {'w': w, 'calls': calls, 'flaws': sorted(set(flaws)), 'preset': rng.randrange(10), 'resume': resume, 'caller_reuses_lists': reuse}


# ------------------------------------------------------------------------------ model + oracle
def model_of(case: Dict[str, Any], accepted: Optional[List[int]] = None) -> Optional[Dict[str, Any]]:
    """what the calls mean: captured BEFORE the writer touches its data (relative-jump rewrite happens in place).
    returns None when the sequence is not meaningful (a data range outside the supplied data)."""
    datas: List[List[int]] = []
    pool: List[int] = []
    offsets: List[int] = []
    segments: List[Tuple[int, int, List[int]]] = []
    ok = True
    for index, call in enumerate(case['calls']):
        if accepted is not None and index not in accepted:
            if call[0] == 'data':
                offsets.append(-1)  # (a rejected data block: nothing refers to it - drive_writer skips such segment calls)
                datas.append([])
            continue
        if call[0] == 'data':
            offsets.append(len(pool))
            datas.append(list(call[1]))
            pool.extend(call[1])
        else:
            _, start, length, ref, off, dl = call
            abs_start = offsets[ref] + off
            if abs_start + dl > len(pool) or abs_start < 0:
                ok = False
                segments.append((start, length, []))
            else:
                segments.append((start, length, pool[abs_start:abs_start + dl]))
    return {'segments': segments, 'meaningful': ok}


def drive_writer(case: Dict[str, Any], version: int, path: Path, accepted: Optional[List[int]] = None) -> Tuple[str, Optional[BaseException]]:
    """`accepted` (resume mode): filled with the indices of the calls the writer accepted; a rejected call is caught and the
    sequence goes on, as a caller that handles the library's write error would."""
    from flipjump.fjm.fjm_consts import FJMVersion
    from flipjump.fjm.fjm_writer import Writer
    from flipjump.utils.exceptions import FlipJumpWriteFjmException

    try:
        writer = Writer(path, case['w'], FJMVersion(version), lzma_preset=case['preset'])
        starts: List[Optional[int]] = []
        for index, call in enumerate(case['calls']):
            try:
                if call[0] == 'data':
                    starts.append(None)
                    passed = list(call[1])
                    starts[-1] = writer.add_data(passed)
                    if case.get('caller_reuses_lists'):
                        # the caller's list is the caller's: it is scribbled on / refilled right after the call (a scratch buffer)
                        passed[:] = [(~x) & 0xFF for x in passed][::-1] + [7, 7]
                        if index % 2:
                            passed.clear()
                else:
                    _, start, length, ref, off, dl = call
                    if starts[ref] is None:
                        continue  # refers to a data block the writer rejected
                    writer.add_segment(start, length, starts[ref] + off, dl)
            except FlipJumpWriteFjmException:
                if accepted is None:
                    raise
                continue
            if accepted is not None:
                accepted.append(index)
        writer.write_to_file()
        return 'accepted', None
    except FlipJumpWriteFjmException as exc:
        return 'rejected', exc
    except Exception as exc:  # noqa: B902
        return 'raw', exc


def probes_for(rng: random.Random, segments: List[Tuple[int, int, List[int]]]) -> Tuple[List[int], List[int]]:
    inside: List[int] = []
    outside: List[int] = []
    for start, length, data in segments:
        if length <= 3000:
            inside.extend(range(start, start + length))
        else:
            inside.extend(range(start, start + len(data) + 3))
            inside.extend([start + length - 1, start + length - 2, start + len(data) + 999, start + len(data) + 1000])
            inside.extend(start + rng.randrange(length) for _ in range(6))
        outside.extend([start - 1, start + length, start + length + 1])
    def in_any(a: int) -> bool:
        return any(s <= a < s + n for s, n, _ in segments)
    return sorted(set(a for a in inside if in_any(a))), sorted(set(a for a in outside if a >= 0 and not in_any(a)))


def check_reader(case: Dict[str, Any], model: Dict[str, Any], version: int, path: Path, rng: random.Random,
                 counters: Dict[str, Any]) -> Optional[Tuple[str, str]]:
    """returns (key-suffix, what) on a violation."""
    from flipjump.fjm.fjm_reader import Reader
    from flipjump.utils.exceptions import FlipJumpReadFjmException, FlipJumpRuntimeMemoryException

    w = case['w']
    try:
        reader = Reader(path)
    except FlipJumpReadFjmException as exc:
        return 'reader-refuses-writer-output', f'writer accepted, reader refused: {exc}'
    except Exception as exc:  # noqa: B902
        return f'reader-raw-exception/{type(exc).__name__}', f'reader raised {exc!r}'
    want_segments = [(s, n) for s, n, _ in model['segments']]
    got_segments = [(seg.segment_start, seg.segment_length) for seg in reader.memory_segments]
    if got_segments != want_segments:
        return 'segments', f'segments {got_segments[:4]} want {want_segments[:4]}'
    inside, outside = probes_for(rng, model['segments'])
    expected: Dict[int, int] = {}
    for start, length, data in model['segments']:
        for i, v in enumerate(data):
            expected[start + i] = v
    top = 1 << w
    for a in inside:
        if a >= top:  # the reader masks word addresses to w bits; addresses beyond are not comparable
            continue
        counters['words_compared'] = counters.get('words_compared', 0) + 1
        try:
            got = reader.get_word(a * w)
        except FlipJumpRuntimeMemoryException:
            return 'word-invalid-inside-segment', f'word {a} inside a segment is not readable'
        if got != expected.get(a, 0):
            return 'word-value', f'word {a}: got {got:#x} want {expected.get(a, 0):#x}'
    for a in outside:
        if a >= top:
            continue
        counters['outside_probes'] = counters.get('outside_probes', 0) + 1
        try:
            got = reader.get_word(a * w)
            return 'word-valid-outside-segments', f'word {a} outside every segment reads {got:#x}'
        except FlipJumpRuntimeMemoryException:
            pass
    def in_any(a: int) -> bool:
        return any(s <= a < s + n for s, n in want_segments)
    for key in reader.memory:
        if not in_any(key) and key < top:
            return 'memory-key-outside-segments', f'Reader.memory holds word {key} outside every segment'
    for lo, hi in reader.zeros_boundaries:
        if not (lo < hi and in_any(lo) and in_any(hi - 1)):
            return 'zeros-boundary-outside-segments', f'zeros boundary [{lo},{hi})'
    return None


def judge(case: Dict[str, Any], rng: random.Random, counters: Dict[str, Any]) -> List[Dict[str, Any]]:
    model = model_of(case)
    assert model is not None
    violations: List[Dict[str, Any]] = []
    flaws = case['flaws']
    tag = '+'.join(f for f in flaws if f != 'shared-data') or 'clean'
    outcomes = {}
    for version in (0, 1, 2, 3):
        path = engines.tmpdir() / f'c06-v{version}.fjm'
        if path.exists():
            path.unlink()
        accepted_calls: Optional[List[int]] = [] if case.get('resume') else None
        status, exc = drive_writer(case, version, path, accepted_calls)
        if accepted_calls is not None:
            model = model_of(case, accepted_calls)
            counters['calls_rejected_and_resumed'] = counters.get('calls_rejected_and_resumed', 0) + len(case['calls']) - len(accepted_calls)
            if not any(case['calls'][i][0] == 'segment' for i in accepted_calls):
                continue  # nothing was accepted: nothing to read back
        outcomes[version] = status
        counters.setdefault('writer_outcomes', {})
        counters['writer_outcomes'][status] = counters['writer_outcomes'].get(status, 0) + 1
        counters['monitor_evaluations'] = counters.get('monitor_evaluations', 0) + 1

        def bad(suffix: str, what: str) -> None:
            violations.append({'key': f'{suffix}', 'what': f'v{version} w={case["w"]} flaws={flaws}: {what}',
                               'replay': {'case': case, 'version': version}})

        if status == 'raw':
            bad(f'writer-raw-exception/{type(exc).__name__}/{tag}', f'writer raised {exc!r}')
            continue
        if status == 'rejected':
            continue
        if not model['meaningful']:
            # the writer accepted a segment whose data range is outside the data it was given
            found = None
            try:
                from flipjump.fjm.fjm_reader import Reader
                Reader(path)
                found = 'reader accepted it too'
            except Exception as rexc:  # noqa: B902
                found = f'reader: {type(rexc).__name__}'
            bad(f'writer-accepts-unrepresentable/{tag}', f'data range outside the supplied data was accepted ({found})')
            continue
        result = check_reader(case, model, version, path, rng, counters)
        if result is not None:
            bad(f'{result[0]}/{tag}', result[1])
    accepted = [v for v, s in outcomes.items() if s == 'accepted']
    counters['accepted_all_versions'] = counters.get('accepted_all_versions', 0) + (len(accepted) == 4)
    return violations


# ------------------------------------------------------------------------------ assembled programs
def corpus_programs() -> List[Path]:
    root = REPO_ROOT / 'programs'
    names = ['print_tests/hello_world.fj', 'print_tests/cat.fj', 'simple_math_checks/ncat.fj', 'print_tests/hello_no-stl.fj',
             'sanity_checks/simple.fj', 'print_tests/hexprint.fj', 'simple_math_checks/nadd.fj', 'sanity_checks/rep.fj',
             'print_tests/print_as_digit.fj', 'sanity_checks/testbit.fj', 'quine16.fj', 'func_tests/func1.fj']
    return [root / n for n in names if (root / n).exists()]


def shard_assembled(spec: Dict[str, Any]) -> Dict[str, Any]:
    import flipjump
    from flipjump.fjm.fjm_consts import FJMVersion
    from flipjump.fjm.fjm_reader import Reader

    counters: Dict[str, Any] = {}
    violations: List[Dict[str, Any]] = []
    hashes: List[str] = []
    programs = corpus_programs()
    mine = programs[spec['shard']::spec['shards']]
    if spec['tier'] == 'quick':
        mine = mine[:3]
    # layouts the corpus does not have: segments that only reserve space between / after segments that hold code
    rng = rng_for(spec['seed'], PROPERTY, 'assembled', spec['shard'])
    for k in range(2 if spec['tier'] == 'quick' else 12):
        gap = rng.choice([1 << 12, 1 << 16, 1 << 20])
        pieces = ['stl.startup\n;fj_code\n']
        address = gap
        for _ in range(rng.choice([1, 2, 3])):
            pieces.append(f'segment {address}\nreserve {64 * rng.choice([2, 8, 64, 2000])}\n')
            address += gap
        pieces.append(f'segment {address}\nfj_code:\nstl.output "L{k}"\nstl.loop\n')
        if rng.random() < 0.5:
            pieces.append(f'segment {address + gap}\nreserve 128\n')
        path = engines.tmpdir() / f'reserve_only_segments_{k}.fj'
        path.write_text(''.join(pieces))
        mine = mine + [path]
    for program in mine:
        text = program.read_text()
        use_stl = 'no-stl' not in program.name and 'simple.fj' != program.name
        width = 16 if 'quine16' in program.name else 64
        images = {}
        for version in (0, 1, 2, 3):
            out = engines.tmpdir() / f'asm-v{version}.fjm'
            try:
                flipjump.assemble([program], out, memory_width=width, use_stl=use_stl and width == 64,
                                  fjm_version=FJMVersion(version), print_time=False, warning_as_errors=False)
            except flipjump.FlipJumpException as exc:
                images[version] = ('error', type(exc).__name__)
                continue
            try:
                reader = Reader(out)
            except flipjump.FlipJumpException as exc:
                violations.append({'key': 'reader-refuses-assembled-program', 'what': f'{program.name} v{version}: {str(exc)[:200]}',
                                   'replay': {'program': str(program), 'version': version}})
                images[version] = ('error', 'reader: ' + type(exc).__name__)
                continue
            images[version] = ('ok', [(s.segment_start, s.segment_length) for s in reader.memory_segments],
                               {k: v for k, v in reader.memory.items() if v}, reader.zeros_boundaries)
        counters['assembled_programs'] = counters.get('assembled_programs', 0) + 1
        counters['monitor_evaluations'] = counters.get('monitor_evaluations', 0) + 4
        base = images[0]
        for version in (1, 2, 3):
            if images[version][:3] != base[:3]:
                violations.append({'key': 'assembled-image-differs-between-versions',
                                   'what': f'{program.name}: version {version} image differs from version 0',
                                   'replay': {'program': str(program), 'version': version}})
        if base[0] == 'ok':
            hashes.append(case_hash([program.name, len(base[2])]))
        del text
    engines.cleanup_tmpdir()
    return {'counters': counters, 'violations': violations, 'hashes': hashes, 'samples': [],
            'evaluations': counters.get('monitor_evaluations', 0)}


def run_shard(spec: Dict[str, Any], journal: Any) -> Dict[str, Any]:
    if spec['kind'] == 'assembled':
        return shard_assembled(spec)
    if spec['kind'] == 'contracts-under-repo-tests':
        return shard_contracts(spec)
    if spec['kind'] == 'large-compressed':
        return shard_large(spec)
    from fjverif import contracts_plugin

    contracts_on = contracts_plugin.apply()  # the generated call sequences run with the same contracts on
    rng = rng_for(spec['seed'], PROPERTY, spec['shard'])
    counters: Dict[str, Any] = {}
    violations: List[Dict[str, Any]] = []
    hashes: List[str] = []
    samples: List[Any] = []
    for index in range(spec['cases']):
        case = gen_calls(rng)
        journal.note(case)
        found = judge(case, rng, counters)
        violations.extend(found[:4])
        for f in case['flaws'] or ['clean']:
            counters.setdefault('flaw_classes', {})
            counters['flaw_classes'][f] = counters['flaw_classes'].get(f, 0) + 1
        counters.setdefault('widths', {})
        counters['widths'][str(case['w'])] = counters['widths'].get(str(case['w']), 0) + 1
        if sum(1 for c in case['calls'] if c[0] == 'segment') >= 1 and any(c[0] == 'data' and c[1] for c in case['calls']):
            hashes.append(case_hash(case))
        if len(samples) < 2 and len(case['calls']) >= 4:
            samples.append({'w': case['w'], 'flaws': case['flaws'],
                            'calls': [[c[0], len(c[1])] if c[0] == 'data' else c for c in case['calls']][:8]})
    engines.cleanup_tmpdir()
    if contracts_on:
        counters['contract_evaluations_in_generated_workload'] = dict(contracts_plugin.COUNTS)
    return {'counters': counters, 'violations': violations, 'hashes': hashes, 'samples': samples,
            'evaluations': counters.get('monitor_evaluations', 0)}


def replay_case(record: Dict[str, Any], journal: Any) -> Dict[str, Any]:
    counters: Dict[str, Any] = {}
    if 'case' in record:
        violations = judge(record['case'], random.Random(0), counters)
    else:
        violations = []
    return {'counters': counters, 'violations': violations, 'evaluations': 1, 'hashes': []}


def finalize(tier: str, seed: int, counters: Dict[str, Any], evaluations: int, distinct: int) -> Dict[str, Any]:
    inconclusive = []
    outcomes = counters.get('writer_outcomes', {})
    if outcomes.get('accepted', 0) < 0.3 * max(1, sum(outcomes.values())):
        inconclusive.append(f'writer acceptance rate too low: {outcomes}')
    if not counters.get('words_compared'):
        inconclusive.append('no word was compared')
    if not counters.get('large_images'):
        inconclusive.append('no image larger than the compression window was written')
    if not counters.get('contract_evaluations'):
        inconclusive.append('the icontract tier (repository tests under contracts) did not report')
    if not counters.get('assembled_programs'):
        inconclusive.append('no assembled program compared across versions')
    for width in ('8', '16', '32', '64'):
        if not counters.get('widths', {}).get(width):
            inconclusive.append(f'width {width} never generated')
    return {
        'coverage': {
            'rule': 'random writer call sequences (1-6 segments, starts from 0 to the top of the address space and '
                    'beyond, zero tails of 0/2/998/1000/1002/1004/10^6 words, shared data ranges, boundary word '
                    'values, deliberate flaws) replayed on versions 0-3 x lzma presets; the reader result is compared '
                    'with a model of what the calls mean (segments, every word of small segments, edges/samples of '
                    'large ones, invalidity just outside). evaluation = one (sequence, version); non-trivial = has a '
                    'segment with data; plus corpus programs assembled at the 4 versions compared pairwise',
        },
        'inconclusive': inconclusive,
        'assumptions': ['the 30-line model of the writer API semantics (data captured at add_data time)'],
    }
