"""C12 - constant expressions evaluate as unbounded-integer arithmetic (DESIGN 4, C12)."""

from __future__ import annotations

import json
import random
from pathlib import Path
from typing import Any, Dict, List, Optional, Tuple

from fjverif import engines
from fjverif.common import VERIF_ROOT, case_hash, rng_for

PROPERTY = 'C12'
LEVEL = 'exploration'
NATIVE_VARIANT = None
W = 64
M60 = (1 << 60) - 1
TABLE = json.loads((VERIF_ROOT / 'spec' / 'operators.json').read_text())
BIN = TABLE['binary']
UN = TABLE['unary']
TERN_LEVEL = TABLE['ternary']['level']
OPERANDS = [-3, -1, 0, 1, 2, 5, (1 << 64) + 1]


class Skip(Exception):
    """the expression has no value under the table (division by zero, negative shift/exponent, too big)."""


# ------------------------------------------------------------------------------ AST: oracle evaluation + unparsing
# node: ('num', value, text) | ('id', name, value, kind) | ('un', op, child) | ('bin', op, l, r) | ('tern', c, a, b)
def ev(node: Any) -> int:
    kind = node[0]
    if kind == 'num':
        return node[1]
    if kind == 'id':
        return node[2]
    if kind == 'un':
        v = ev(node[2])
        if node[1] == '-':
            return -v
        if node[1] == '~':
            return ~v
        if v < 0:
            raise Skip()
        return v.bit_length()
    if kind == 'tern':
        c = ev(node[1])  # both branches are evaluated by an eager folder; both must have a value
        a, b = ev(node[2]), ev(node[3])
        return a if c else b
    op, lv, rv = node[1], ev(node[2]), ev(node[3])
    if op == '+':
        r = lv + rv
    elif op == '-':
        r = lv - rv
    elif op == '*':
        r = lv * rv
    elif op in ('/', '%'):
        if rv == 0:
            raise Skip()
        r = lv // rv if op == '/' else lv % rv
    elif op == '**':
        if rv < 0 or rv > 40 or lv.bit_length() * max(rv, 1) > 4000:
            raise Skip()
        r = lv ** rv
    elif op in ('<<', '>>'):
        if rv < 0 or rv > 300:
            raise Skip()
        r = lv << rv if op == '<<' else lv >> rv
    elif op == '&':
        r = lv & rv
    elif op == '|':
        r = lv | rv
    elif op == '^':
        r = lv ^ rv
    elif op == '&&':
        r = 1 if (lv and rv) else 0
    elif op == '||':
        r = 1 if (lv or rv) else 0
    elif op == '<':
        r = int(lv < rv)
    elif op == '>':
        r = int(lv > rv)
    elif op == '<=':
        r = int(lv <= rv)
    elif op == '>=':
        r = int(lv >= rv)
    elif op == '==':
        r = int(lv == rv)
    elif op == '!=':
        r = int(lv != rv)
    else:
        raise ValueError(op)
    if r.bit_length() > 4000:
        raise Skip()
    return r


def level(node: Any) -> int:
    kind = node[0]
    if kind in ('num', 'id'):
        return 100
    if kind == 'un':
        return UN[node[1]]['level']
    if kind == 'tern':
        return TERN_LEVEL
    return BIN[node[1]]['level']


def unparse(node: Any, style: str = 'min', rng: Optional[random.Random] = None) -> str:
    """style: 'min' = only the parentheses the table requires; 'full' = everything; 'rand' = extra ones at random."""
    kind = node[0]
    if kind == 'num':
        return node[2]
    if kind == 'id':
        return node[1]

    def wrap(child: Any, need: bool) -> str:
        text = unparse(child, style, rng)
        extra = style == 'full' or (style == 'rand' and rng is not None and rng.random() < 0.3)
        return f'({text})' if (need or (extra and child[0] not in ('num', 'id'))) else text

    if kind == 'un':
        child = node[2]
        need = level(child) < UN[node[1]]['level']
        sep = ' ' if (child[0] == 'un' and child[1] == node[1] == '-') else ''
        return f'{node[1]}{sep}{wrap(child, need)}'
    if kind == 'tern':
        c, a, b = node[1], node[2], node[3]
        return f'{wrap(c, c[0] == "tern")} ? {wrap(a, False)} : {wrap(b, False)}'
    op, left, right = node[1], node[2], node[3]
    lv, assoc = BIN[op]['level'], BIN[op]['assoc']
    need_l = level(left) < lv or (level(left) == lv and assoc != 'left')
    if right[0] == 'un':
        need_r = False  # a prefix operator on the right never needs parentheses
    else:
        need_r = level(right) < lv or (level(right) == lv and assoc != 'right')
    return f'{wrap(left, need_l)} {op} {wrap(right, need_r)}'


def num(value: int, rng: Optional[random.Random] = None) -> Any:
    """a literal node; negative values are unary minus applied to a literal (as in the language)."""
    if value < 0:
        return ('un', '-', num(-value, rng))
    text = str(value)
    if rng is not None:
        r = rng.random()
        if r < 0.2:
            text = hex(value)
        elif r < 0.3:
            text = bin(value)
        elif r < 0.4 and 0x20 <= value <= 0x7E and value not in (0x5C,):
            text = f"'{chr(value)}'"
        elif r < 0.45:
            text = hex(value).upper().replace('0X', '0X')
    return ('num', value, text)


def expected_tree(a: Any, op1: str, b: Any, op2: str, c: Any) -> Optional[Any]:
    """what `a op1 b op2 c` (no parentheses) denotes under the table; None = must be a syntax error."""
    l1, l2 = BIN[op1]['level'], BIN[op2]['level']
    if l1 > l2:
        return ('bin', op2, ('bin', op1, a, b), c)
    if l1 < l2:
        return ('bin', op1, a, ('bin', op2, b, c))
    assoc = BIN[op1]['assoc']
    if assoc == 'none':
        return None
    return ('bin', op2, ('bin', op1, a, b), c) if assoc == 'left' else ('bin', op1, a, ('bin', op2, b, c))


def flat_text(a: Any, op1: str, b: Any, op2: str, c: Any) -> str:
    def leaf(x: Any, first: bool) -> str:
        # a negative literal is written -N; in the first position of "x ** y" the table says -N ** y = -(N ** y),
        # so the expected tree is built from the same tokens (see pair_case)
        return unparse(x)
    return f'{leaf(a, True)} {op1} {leaf(b, False)} {op2} {leaf(c, False)}'


# ------------------------------------------------------------------------------ program rendering
class Item:
    """one expression under test: its text, expected value, and how identifiers are bound."""

    def __init__(self, text: str, value: int, params: List[Tuple[str, int]], uses_label: bool, origin: str):
        self.text, self.value, self.params, self.uses_label, self.origin = text, value, params, uses_label, origin


def render_program(items: List[Item], consts: Dict[str, int]) -> str:
    lines = [f'{name} = {value if value >= 0 else "0-" + str(-value)}' for name, value in consts.items()]
    body: List[str] = []
    macros: List[str] = []
    for index, item in enumerate(items):
        stmts = [f'(({item.text}) & {M60}) ; ((({item.text}) >> 60) & {M60})',
                 f'((({item.text}) >> 120) & {M60}) ; ((({item.text}) < 0) + (2 * (((({item.text}) >> 180) != 0) && ((({item.text}) >> 180) != (0 - 1)))))']
        if item.params or item.uses_label:
            names = ', '.join(p for p, _ in item.params)
            glob = ' < lab0' if item.uses_label else ''
            macros.append(f'def e{index} {names}{glob} {{\n    ' + '\n    '.join(stmts) + '\n}')
            args = ', '.join(str(v) if v >= 0 else f'(0-{-v})' for _, v in item.params)
            body.append(f'e{index} {args}'.rstrip())
        else:
            body.extend(stmts)
    return '\n'.join(lines + macros + ['lab0:'] + body) + '\n'


def assemble_text(text: str) -> Tuple[str, Any]:
    import flipjump
    from flipjump.fjm.fjm_consts import FJMVersion
    from flipjump.fjm.fjm_reader import Reader

    src = engines.tmpdir() / 'c12.fj'
    out = engines.tmpdir() / 'c12.fjm'
    src.write_text(text)
    if out.exists():
        out.unlink()
    import contextlib
    import io

    try:
        with contextlib.redirect_stdout(io.StringIO()):
            flipjump.assemble([src], out, memory_width=W, use_stl=False, fjm_version=FJMVersion(1), print_time=False,
                              warning_as_errors=False)
    except flipjump.FlipJumpException as exc:
        return 'error', exc
    except BaseException as exc:  # noqa: B902
        return 'raw', exc
    try:
        reader = Reader(out)
    except flipjump.FlipJumpException as exc:
        return 'raw', exc   # assembled, but the written image does not load: as bad as a raw exception
    return 'ok', reader.memory


def observed_value(memory: Dict[int, int], index: int) -> Tuple[int, bool]:
    base = 4 * index
    lo, mid, hi, flags = (memory.get(base + k, 0) for k in range(4))
    value = lo | (mid << 60) | (hi << 120)
    negative = bool(flags & 1)
    overflow = bool(flags & 2)
    if negative:
        value -= 1 << 180
    return value, overflow


class Checker:
    def __init__(self, journal: Any):
        self.counters: Dict[str, Any] = {}
        self.violations: List[Dict[str, Any]] = []
        self.hashes: List[str] = []
        self.journal = journal

    def count(self, key: str, n: int = 1) -> None:
        self.counters[key] = self.counters.get(key, 0) + n

    def bad(self, key: str, what: str, item: Item, consts: Dict[str, int]) -> None:
        if sum(1 for v in self.violations if v['key'] == key) < 4:
            self.violations.append({'key': key, 'what': what,
                                    'replay': {'text': item.text, 'value': str(item.value), 'params': item.params,
                                               'uses_label': item.uses_label, 'consts': consts, 'origin': item.origin}})

    def check_batch(self, items: List[Item], consts: Dict[str, int]) -> None:
        if not items:
            return
        self.journal.note({'batch': [it.text for it in items[:50]]})
        status, result = assemble_text(render_program(items, consts))
        self.count('assemblies')
        if status != 'ok':
            if len(items) == 1:
                item = items[0]
                self.count('monitor_evaluations')
                kind = 'rejected' if status == 'error' else f'raw-{type(result).__name__}'
                self.bad(f'{item.origin}/valid-expression-{kind}',
                         f'`{item.text}` has value {item.value} under the table but assembling failed: {str(result)[:200]}', item, consts)
                return
            mid = len(items) // 2
            self.check_batch(items[:mid], consts)
            self.check_batch(items[mid:], consts)
            return
        for index, item in enumerate(items):
            got, overflow = observed_value(result, index)
            self.count('monitor_evaluations')
            self.count(f'origin/{item.origin}')
            if item.value.bit_length() < 179:
                if got != item.value or overflow:
                    self.bad(f'{item.origin}/value', f'`{item.text}` assembled to {got} (overflow={overflow}), table says {item.value}', item, consts)
            else:
                self.count('values_beyond_observation_window')
                if (got - item.value) % (1 << 180) != 0:
                    self.bad(f'{item.origin}/value', f'`{item.text}` low 180 bits differ', item, consts)

    def expect_error(self, item_text: str, origin: str) -> None:
        """the table says this text has no parse (non-associative chain): it must be rejected by the library."""
        item = Item(item_text, 0, [], False, origin)
        status, result = assemble_text(render_program([item], {}))
        self.count('monitor_evaluations')
        self.count('expected_rejections')
        if status == 'ok':
            self.bad(f'{origin}/nonassociative-chain-accepted', f'`{item_text}` must be a syntax error but assembled', item, {})
        elif status == 'raw':
            self.bad(f'{origin}/raw-{type(result).__name__}', f'`{item_text}`: {result!r}', item, {})


# ------------------------------------------------------------------------------ workloads
def pairs_shard(spec: Dict[str, Any], chk: Checker) -> List[Any]:
    """EXHAUSTIVE: every ordered pair of binary operators x operand triples, unparenthesised."""
    ops = sorted(BIN)
    pairs = [(a, b) for a in ops for b in ops]
    mine = pairs[spec['part']::spec['parts']]
    samples = []
    for op1, op2 in mine:
        batch: List[Item] = []
        tree_probe = expected_tree(num(1), op1, num(1), op2, num(1))
        if tree_probe is None:
            for triple in ((1, 2, 3), (0, 0, 0), (5, 2, 1)):
                chk.expect_error(f'{triple[0]} {op1} {triple[1]} {op2} {triple[2]}', 'pairs')
            chk.count('operator_pairs')
            continue
        for a in OPERANDS:
            for b in OPERANDS:
                for c in OPERANDS:
                    na, nb, nc = num(a), num(b), num(c)
                    text = f'{unparse(na)} {op1} {unparse(nb)} {op2} {unparse(nc)}'
                    # the tokens "-N" are a unary minus applied to N: build the expected tree from the tokens
                    tree = tree_from_tokens(a, op1, b, op2, c)
                    try:
                        value = ev(tree)
                    except Skip:
                        chk.count('skipped_no_value')
                        continue
                    batch.append(Item(text, value, [], False, 'pairs'))
                    chk.hashes.append(f'p:{op1}:{op2}:{a}:{b}:{c}')
        for i in range(0, len(batch), 180):
            chk.check_batch(batch[i:i + 180], {})
        chk.count('operator_pairs')
        if not samples and batch:
            samples.append({'text': batch[len(batch) // 2].text, 'table_value': str(batch[len(batch) // 2].value)})
    return samples


def tree_from_tokens(a: int, op1: str, b: int, op2: str, c: int) -> Any:
    """parse `A op1 B op2 C` where a negative operand is the two tokens '-' N, with the table's precedences
    (unary minus is level 12: tighter than everything except **)."""
    def operand(v: int) -> Any:
        return num(abs(v)), v < 0
    (xa, na), (xb, nb), (xc, nc) = operand(a), operand(b), operand(c)
    # a leading/inner "-N" binds as -(N) unless the following operator is **, in which case -(N ** ...)
    l1, l2 = BIN[op1]['level'], BIN[op2]['level']
    neg = lambda x: ('un', '-', x)  # noqa: E731
    unary_level = UN['-']['level']

    def build(first: Any, first_neg: bool, rest: List[Tuple[str, Any, bool]]) -> Any:
        # precedence climbing over [first, (op, operand, neg)...] with prefix minus
        pos = [0]

        def parse_operand(x: Any, is_neg: bool, min_level: int) -> Any:
            if not is_neg:
                return x
            # unary minus: its operand extends over operators binding tighter than unary (only **)
            inner = climb(x, unary_level + 1)
            return neg(inner)

        def climb(lhs: Any, min_level: int) -> Any:
            while pos[0] < len(rest):
                op, x, is_neg = rest[pos[0]]
                lv = BIN[op]['level']
                if lv < min_level:
                    break
                pos[0] += 1
                next_min = lv + 1 if BIN[op]['assoc'] != 'right' else lv
                rhs = parse_operand(x, is_neg, next_min)
                rhs = climb(rhs, next_min)
                lhs = ('bin', op, lhs, rhs)
            return lhs

        lhs0 = parse_operand(first, first_neg, 0)
        return climb(lhs0, 0)

    del l1, l2
    return build(xa, na, [(op1, xb, nb), (op2, xc, nc)])


def unary_shard(spec: Dict[str, Any], chk: Checker) -> List[Any]:
    """every unary o binary and binary o unary pair, two-level ?: nests, literal notations."""
    rng = rng_for(spec['seed'], PROPERTY, 'unary')
    batch: List[Item] = []
    values = [0, 1, 2, 5, 7, (1 << 64) + 1]
    for u in UN:
        for op in sorted(BIN):
            for a in values:
                for b in values[:5]:
                    for shape in range(4):
                        na, nb = num(a), num(b)
                        if shape == 0:   # u a op b   -> the table decides whether u covers the binary
                            tree = ('un', u, ('bin', op, na, nb)) if BIN[op]['level'] > UN[u]['level'] else ('bin', op, ('un', u, na), nb)
                            text = f'{u}{unparse(na)} {op} {unparse(nb)}'
                        elif shape == 1:  # a op u b
                            tree = ('bin', op, na, ('un', u, nb))
                            text = f'{unparse(na)} {op} {u}{unparse(nb)}'
                        elif shape == 2:  # u (a op b)
                            tree = ('un', u, ('bin', op, na, nb))
                            text = f'{u}({unparse(na)} {op} {unparse(nb)})'
                        else:             # u u2 a op b
                            u2 = rng.choice(sorted(UN))
                            inner = ('un', u2, na)
                            tree = ('un', u, ('un', u2, ('bin', op, na, nb))) if BIN[op]['level'] > UN[u]['level'] else ('bin', op, ('un', u, inner), nb)
                            sep = ' ' if u == u2 == '-' else ''
                            text = f'{u}{sep}{u2}{unparse(na)} {op} {unparse(nb)}'
                        try:
                            value = ev(tree)
                        except Skip:
                            continue
                        batch.append(Item(text, value, [], False, 'unary-binary'))
                        chk.hashes.append(f'u:{u}:{op}:{a}:{b}:{shape}')
    # ternary nests: a ? b : c ? d : e   and   a ? b ? c : d : e   and ternary against each binary level
    tv = [0, 1, 3]
    for a in tv:
        for b in tv:
            for c in tv:
                for d in tv:
                    for e in (2, 9):
                        batch.append(Item(f'{a} ? {b} : {c} ? {d} : {e}', b if a else (d if c else e), [], False, 'ternary'))
                        batch.append(Item(f'{a} ? {b} ? {c} : {d} : {e}', (c if b else d) if a else e, [], False, 'ternary'))
    for op in sorted(BIN):
        for a, b, c, d in ((1, 2, 3, 4), (0, 5, 2, 3), (2, 0, 1, 7), (0, 0, 0, 1)):
            # a op b ? c : d  ==  (a op b) ? c : d ;  a ? b : c op d == a ? b : (c op d)
            try:
                batch.append(Item(f'{a} {op} {b} ? {c} : {d}', c if ev(('bin', op, num(a), num(b))) else d, [], False, 'ternary'))
                batch.append(Item(f'{a} ? {b} : {c} {op} {d}', b if a else ev(('bin', op, num(c), num(d))), [], False, 'ternary'))
            except Skip:
                pass
    # literal notations
    esc = TABLE['char_escapes']
    for code in range(0x20, 0x7F):
        if code == 0x5C:
            continue
        batch.append(Item(f"'{chr(code)}'", code, [], False, 'literals'))
    for key, value in esc.items():
        batch.append(Item(f"'\\{key}'", value, [], False, 'literals'))
    for code in (0, 1, 0x7F, 0x80, 0xFF, 0xA5):
        batch.append(Item(f"'\\x{code:02x}'", code, [], False, 'literals'))
        batch.append(Item(f"'\\X{code:02X}'", code, [], False, 'literals'))
    for value in (0, 1, 9, 10, 255, 256, 1 << 63, (1 << 64) - 1, 1 << 64, (1 << 100) + 12345):
        batch.append(Item(str(value), value, [], False, 'literals'))
        batch.append(Item(hex(value), value, [], False, 'literals'))
        batch.append(Item(hex(value).upper().replace('0X', '0X'), value, [], False, 'literals'))
        batch.append(Item(bin(value), value, [], False, 'literals'))
        batch.append(Item('0B' + bin(value)[2:], value, [], False, 'literals'))
    strings = ['a', 'ab', 'abc', 'Hello, World', 'x y', '\\n', 'a\\tb', '\\x41\\x42', 'q\\\\r', '~!@#$%^&*()', 'a//b', '\\0\\0z', "it's"]
    for s in strings:
        raw: List[int] = []
        i = 0
        while i < len(s):
            if s[i] == '\\':
                if s[i + 1] in 'xX':
                    raw.append(int(s[i + 2:i + 4], 16))
                    i += 4
                else:
                    raw.append(esc[s[i + 1]])
                    i += 2
            else:
                raw.append(ord(s[i]))
                i += 1
        batch.append(Item(f'"{s}"', sum(v << (8 * k) for k, v in enumerate(raw)), [], False, 'literals'))
    batch.append(Item('""', 0, [], False, 'literals'))
    # decimal literals of thousands of digits (CPython refuses int(str) beyond 4300 digits; the language has no such limit):
    # their value is computed here by an independent Horner loop, and observed through a modulus, a shift and a difference
    lit_rng = random.Random(len(batch))
    for n_digits in (3999, 4000, 4001, 4300, 4301, 5000, 7999, 8000, 8001, 12345):
        digits = str(lit_rng.randrange(1, 10)) + ''.join(lit_rng.choice('0123456789') for _ in range(n_digits - 1))
        value = 0
        for k in range(0, n_digits, 1000):
            piece = digits[k:k + 1000]
            value = value * 10 ** len(piece) + int(piece)
        batch.append(Item(f'({digits} % 1000000007)', value % 1000000007, [], False, 'literals'))
        shift = value.bit_length() - 100
        batch.append(Item(f'({digits} >> {shift})', value >> shift, [], False, 'literals'))
        tail = int(digits[-9:])
        delta = lit_rng.randrange(0, tail + 1)
        other = digits[:-9] + f'{tail - delta:09d}'
        batch.append(Item(f'({digits} - {other})', delta, [], False, 'literals'))
    for i in range(0, len(batch), 180):
        chk.check_batch(batch[i:i + 180], {})
    return [{'text': batch[7].text, 'table_value': str(batch[7].value)}]


def random_tree(rng: random.Random, depth: int, leaves: List[Any]) -> Any:
    if depth == 0 or rng.random() < 0.15:
        r = rng.random()
        if leaves and r < 0.45:
            return rng.choice(leaves)
        value = rng.choice([0, 1, 2, 3, 5, 7, 8, 16, 63, 64, 255, 1 << 32, (1 << 64) - 1, (1 << 64) + 1, rng.getrandbits(70),
                            rng.randrange(0, 40)])
        return num(value, rng)
    r = rng.random()
    if r < 0.12:
        return ('un', rng.choice(sorted(UN)), random_tree(rng, depth - 1, leaves))
    if r < 0.2:
        return ('tern', random_tree(rng, depth - 1, leaves), random_tree(rng, depth - 1, leaves), random_tree(rng, depth - 1, leaves))
    op = rng.choice(sorted(BIN))
    left = random_tree(rng, depth - 1, leaves)
    right = random_tree(rng, depth - 1, leaves) if op not in ('**', '<<', '>>') else \
        (num(rng.randrange(0, 9 if op == '**' else 70)) if rng.random() < 0.8 else random_tree(rng, 1, leaves))
    return ('bin', op, left, right)


def random_shard(spec: Dict[str, Any], chk: Checker) -> List[Any]:
    """random trees (depth <= 6) x parenthesisation styles x stage partitions of the identifiers."""
    rng = rng_for(spec['seed'], PROPERTY, 'random', spec['part'])
    samples = []
    produced = 0
    while produced < spec['cases']:
        batch: List[Item] = []
        consts: Dict[str, int] = {}
        for _ in range(120):
            n_ids = rng.choice([0, 0, 1, 2, 3])
            leaves: List[Any] = []
            params: List[Tuple[str, int]] = []
            uses_label = False
            for k in range(n_ids):
                value = rng.choice([0, 1, 2, 5, -3, 64, 100, (1 << 64) + 1, rng.getrandbits(40), rng.randrange(0, 20)])
                stage = rng.choice(['const', 'param', 'label'])
                if stage == 'const':
                    name = f'k{len(consts)}'
                    consts[name] = value
                    leaves.append(('id', name, value, 'const'))
                elif stage == 'param':
                    name = f'p{len(params)}'
                    params.append((name, value))
                    leaves.append(('id', name, value, 'param'))
                else:
                    uses_label = True
                    inner = ('bin', '+', ('id', 'lab0', 0, 'label'), num(value)) if value >= 0 else \
                        ('bin', '-', ('id', 'lab0', 0, 'label'), num(-value))
                    leaves.append(inner)
            tree = random_tree(rng, rng.randrange(1, 7), leaves)
            used_params = [p for p in params if _uses(tree, p[0])]
            uses_label = _uses(tree, 'lab0')
            try:
                value = ev(tree)
            except Skip:
                chk.count('skipped_no_value')
                continue
            except RecursionError:
                continue
            style = rng.choice(['min', 'min', 'rand', 'full'])
            text = unparse(tree, style, rng)
            if len(text) > 1500:
                continue
            stage_kinds = sorted({leaf[3] for leaf in _ids(tree)})
            batch.append(Item(text, value, used_params, uses_label, 'random/' + ('+'.join(stage_kinds) or 'literals')))
            chk.hashes.append(case_hash([text, used_params]))
        chk.check_batch(batch, consts)
        produced += len(batch)
        if not samples and batch:
            samples.append({'text': batch[0].text[:300], 'table_value': str(batch[0].value), 'params': batch[0].params})
    return samples


def _ids(tree: Any) -> List[Any]:
    if tree[0] == 'id':
        return [tree]
    if tree[0] == 'num':
        return []
    out: List[Any] = []
    for child in tree[1:]:
        if isinstance(child, tuple):
            out.extend(_ids(child))
    return out


def _uses(tree: Any, name: str) -> bool:
    return any(leaf[1] == name for leaf in _ids(tree))


def plan(tier: str, seed: int) -> List[Dict[str, Any]]:
    quick = tier == 'quick'
    out = [{'kind': 'pairs', 'part': i, 'parts': 12, 'seed': seed, 'timeout_s': 3000} for i in range(12)]
    out.append({'kind': 'unary', 'seed': seed, 'timeout_s': 3000})
    for i in range(3 if quick else 24):
        out.append({'kind': 'random', 'part': i, 'seed': seed, 'cases': 1800 if quick else 20000, 'timeout_s': 7000})
    return out


def run_shard(spec: Dict[str, Any], journal: Any) -> Dict[str, Any]:
    chk = Checker(journal)
    samples = {'pairs': pairs_shard, 'unary': unary_shard, 'random': random_shard}[spec['kind']](spec, chk)
    engines.cleanup_tmpdir()
    return {'counters': chk.counters, 'violations': chk.violations, 'hashes': chk.hashes, 'samples': samples,
            'evaluations': chk.counters.get('monitor_evaluations', 0)}


def replay_case(record: Dict[str, Any], journal: Any) -> Dict[str, Any]:
    chk = Checker(journal)
    item = Item(record['text'], int(record['value']), [tuple(p) for p in record['params']], record['uses_label'], record['origin'])
    chk.check_batch([item], record.get('consts', {}))
    return {'counters': chk.counters, 'violations': chk.violations, 'evaluations': 1, 'hashes': []}


def finalize(tier: str, seed: int, counters: Dict[str, Any], evaluations: int, distinct: int) -> Dict[str, Any]:
    inconclusive = []
    n_ops = len(BIN)
    if counters.get('operator_pairs', 0) != n_ops * n_ops:
        inconclusive.append(f'operator pairs covered: {counters.get("operator_pairs", 0)} of {n_ops * n_ops}')
    for key in ('origin/pairs', 'origin/unary-binary', 'origin/ternary', 'origin/literals', 'expected_rejections'):
        if not counters.get(key):
            inconclusive.append(f'{key} never evaluated')
    if not any(k.startswith('origin/random/') and 'param' in k for k in counters):
        inconclusive.append('no random expression was folded at the macro-parameter stage')
    if not any(k.startswith('origin/random/') and 'label' in k for k in counters):
        inconclusive.append('no random expression was folded at the label stage')
    return {
        'coverage': {
            'rule': 'EXHAUSTIVE: every ordered pair of the 19 binary operators x operand triples from {-3,-1,0,1,2,5,2^64+1} '
                    'written without parentheses (the expected tree comes from the frozen operator table); every unary x '
                    'binary combination in 4 shapes; two-level ?: nests and ?: against every binary operator; every literal '
                    'notation. RANDOM: trees to depth 6, unparsed with minimal/random/full parentheses, each identifier bound '
                    'as a parse-time constant, a macro parameter or a label expression (the three folding stages). value '
                    'observed through 180 bits + sign + overflow flag of the assembled words. evaluation = one expression',
            'exhaustive': True,
        },
        'inconclusive': inconclusive,
        'assumptions': ['spec/operators.json (precedence, associativity, semantics) is the documented operator set',
                        'expressions without a value (division by zero, negative shift/exponent, #negative) belong to C14'],
    }
