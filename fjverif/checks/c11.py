"""C11 - the native engine is memory-safe for every image, input and knob (DESIGN 4, C11).

Deciding monitors: AddressSanitizer + UndefinedBehaviorSanitizer on a build of the CURRENT
_fjcore.c (every report aborts the worker; the journal names the guilty case), allocation
fault injection through a force-included header, reference-count drift, and (thorough) valgrind.
"""

from __future__ import annotations

import glob
import os
import random
import signal
import subprocess
import sys
from pathlib import Path
from typing import Any, Callable, Dict, List, Optional

from fjverif import engines, imagegen, native_build
from fjverif.checks import c10, enginecmp
from fjverif.common import BUILD_DIR, PYTHON, REPO_ROOT, VERIF_ROOT, case_hash, rng_for

PROPERTY = 'C11'
LEVEL = 'exploration'
NATIVE_VARIANT = 'asan'
U64 = (1 << 64) - 1


def _asan_spec_env() -> Dict[str, str]:
    return native_build.asan_env(log_path='{workdir}/asan-shard{shard}')


def plan(tier: str, seed: int) -> List[Dict[str, Any]]:
    quick = tier == 'quick'
    out: List[Dict[str, Any]] = []
    asan = _asan_spec_env()
    for i in range(5 if quick else 24):
        out.append({'kind': 'engine', 'variant': 'asan', 'env': asan, 'seed': seed, 'shard': i,
                    'cases': 60 if quick else 900, 'timeout_s': 1500 if quick else 7200})
    for i in range(5 if quick else 24):
        out.append({'kind': 'api', 'variant': 'asan', 'env': asan, 'seed': seed, 'shard': i,
                    'cases': 220 if quick else 5000, 'timeout_s': 1500 if quick else 7200})
    for i in range(2 if quick else 8):
        # device exceptions and interrupts at every IO call index, last-ops ring on and off: the exception paths of the run
        # loops build Python objects (the last-ops list, the wrapped exception) that the caller then uses
        out.append({'kind': 'device-faults', 'variant': 'asan', 'env': asan, 'seed': seed, 'shard': i,
                    'cases': 25 if quick else 300, 'timeout_s': 1500 if quick else 7200})
    for i in range(2 if quick else 8):
        out.append({'kind': 'files', 'variant': 'asan', 'env': asan, 'seed': seed, 'shard': i,
                    'cases': 800 if quick else 8000, 'timeout_s': 1500 if quick else 7200})
    for i in range(2 if quick else 8):
        out.append({'kind': 'allocfault', 'variant': 'allocfault', 'env': asan, 'seed': seed, 'shard': i,
                    'cases': 40 if quick else 400, 'timeout_s': 1500 if quick else 7200})
    out.append({'kind': 'refcount', 'variant': 'opt', 'seed': seed, 'shard': 0, 'rounds': 3000 if quick else 30000,
                'timeout_s': 1500})
    out.append({'kind': 'coverage', 'variant': 'cov', 'seed': seed, 'shard': 0, 'cases': 150 if quick else 1500,
                'env': {'LLVM_PROFILE_FILE': '{workdir}/fjcore-%p.profraw'}, 'timeout_s': 1500})
    if not quick:
        out.append({'kind': 'valgrind', 'variant': 'opt', 'seed': seed, 'shard': 0, 'cases': 60, 'timeout_s': 7200})
    return out


# ------------------------------------------------------------------------------ engine workloads under ASan
def native_configs(rng: random.Random, case: Dict[str, Any]) -> List[Dict[str, Any]]:
    return [c for c in enginecmp.c07_configs(rng, case, wide=True) if c['engine'] == 'native']


def shard_engine(spec: Dict[str, Any], journal: Any) -> Dict[str, Any]:
    rng = rng_for(spec['seed'], PROPERTY, 'engine', spec['shard'])
    counters: Dict[str, Any] = {}
    violations: List[Dict[str, Any]] = []
    hashes: List[str] = []
    samples: List[Any] = []
    geoms = list(imagegen.GEOMETRIES)
    for index in range(spec['cases']):
        case = imagegen.generate_case(rng, geoms[index % len(geoms)], (64, 32, 16, 8)[(index // len(geoms)) % 4])
        configs = native_configs(rng, case)
        found, ref = enginecmp.compare_case(case, configs, rng, check_memory=True, check_ring=True, counters=counters,
                                            journal=journal)
        # semantic divergences are C01/C07's verdicts; here they are only counted (the sanitizer is the oracle)
        counters['semantic_divergences_seen'] = counters.get('semantic_divergences_seen', 0) + len(found)
        enginecmp.note_features(counters, case, ref)
        hashes.append(case_hash(case))
        if len(samples) < 1 and ref.ops > 3:
            samples.append(enginecmp.sample_of(case, ref))
    # growth of the engine's own tables under the sanitizer: the speculation shadow table doubles at 2^15, 2^16, 2^17 distinct
    # op addresses (measure knob), the page table doubles while an image with many pages loads
    n_ops = [33000, 40000, 70000, 140000][spec['shard'] % 4]
    growth_cases = [imagegen.long_chain_case(rng, rng.choice([32, 64]), n_ops),
                    imagegen.page_walk_case(rng, rng.choice([32, 64]), rng.choice([33, 70, 130, 300, 600]), 2)]
    for case in growth_cases:
        found, ref = enginecmp.compare_case(case, [{'engine': 'native', 'measure': True}, {'engine': 'native'},
                                                   {'engine': 'native', 'ring': 3}, {'engine': 'native', 'no_flat': True, 'measure': True},
                                                   {'engine': 'native', 'no_flat': True, 'ring': 2}],
                                            rng, check_memory=False, check_ring=True, counters=counters, journal=journal)
        counters['semantic_divergences_seen'] = counters.get('semantic_divergences_seen', 0) + len(found)
        counters['table_growth_cases'] = counters.get('table_growth_cases', 0) + 1
        hashes.append(case_hash(case))
    engines.cleanup_tmpdir()
    counters['asan_engine_runs'] = counters.get('monitor_evaluations', 0)
    return {'counters': counters, 'violations': violations, 'hashes': hashes, 'samples': samples,
            'evaluations': counters.get('monitor_evaluations', 0)}


# ------------------------------------------------------------------------------ direct API fuzz of _fjcore.Memory
class ApiFuzzer:
    def __init__(self, rng: random.Random, core: Any, journal: Any, counters: Dict[str, Any]):
        self.rng, self.core, self.journal, self.counters = rng, core, journal, counters
        self.script: List[Any] = []
        self.mem: Any = None
        self.depth = 0
        self.exceptions: Dict[str, int] = {}
        self.system_errors: List[str] = []
        self.flat_limit = 0
        self.segment_ends: List[int] = []

    def addr(self) -> int:
        r = self.rng.random()
        if r < 0.5:
            return self.rng.randrange(0, 64)
        if r < 0.7:
            return self.rng.choice([1 << 14, (1 << 14) - 1, (1 << 14) + 1, 1 << 23, (1 << 23) - 1, 1 << 27, 1 << 58,
                                    (1 << 58) - 1, U64, U64 - 1, 1 << 63, (1 << 63) - 1])
        return self.rng.getrandbits(self.rng.choice([8, 16, 32, 58, 64]))

    def length(self) -> int:
        if self.rng.random() < 0.1:
            return self.rng.choice([1 << 20, 1 << 40, 1 << 63, U64])
        return self.rng.choice([0, 1, 2, 2, 4, 8, 16, 1000, (1 << 14), (1 << 14) + 2, self.rng.randrange(0, 64)])

    def safe_flat_max(self) -> int:
        # effective flat spans are kept <= 2^22 words or >= 2^45 words (certain allocation failure), so that the
        # harness never asks the machine for tens of gigabytes of real memory
        return self.rng.choice([0, 0, 1, 2, 3, 5, 8, 64, (1 << 14) - 1, 1 << 14, (1 << 14) + 1, 1 << 20, 1 << 62, U64])

    def call(self, name: str, fn: Callable[[], Any]) -> Any:
        self.counters['api_calls'] = self.counters.get('api_calls', 0) + 1
        self.counters.setdefault('api_by_name', {})
        self.counters['api_by_name'][name] = self.counters['api_by_name'].get(name, 0) + 1
        try:
            return fn()
        except SystemError as exc:  # a C function broke the error-indicator protocol
            self.system_errors.append(f'{name}: {exc}')
            return None
        except (Exception, KeyboardInterrupt) as exc:  # noqa: B902 - any Python exception is a legitimate outcome
            key = f'{name}:{type(exc).__name__}'
            self.exceptions[key] = self.exceptions.get(key, 0) + 1
            return None

    def note(self, *item: Any) -> None:
        self.script.append(list(item))
        self.journal.note({'kind': 'api', 'script': self.script})

    def new_memory(self) -> None:
        w = self.rng.choice([8, 16, 32, 64, 64, 7, 0, 128])
        flat = self.safe_flat_max()
        stop = self.rng.random() < 0.85
        self.note('Memory', w, stop, flat)
        mem = self.call('Memory', lambda: self.core.Memory(w, garbage_stop=stop, flat_max_words=flat))
        if mem is not None:
            self.mem = mem
            self.w = w
            self.segments_total = 0
            self.flat_limit = flat
            self.segment_ends = []

    def op_add_segment(self) -> None:
        start, length = self.addr(), self.length()
        if self.rng.random() < 0.6:
            start, length = self.rng.choice([0, 0, 2, 8, 16, 100]), self.rng.choice([2, 4, 8, 32, 600])
        # bounded total so that the default flat window (2^23 words) is the worst real allocation: a segment that would stretch
        # the effective flat window into the gigabytes (between 2^24 and 2^45 words) is not added
        limit = self.flat_limit or (1 << 23)
        ends = self.segment_ends + ([min(start + length, limit)] if 0 <= start < limit else [])
        if (1 << 24) < max(ends or [0]) < (1 << 45):
            self.counters['segments_not_added_flat_window_in_gigabytes'] = self.counters.get('segments_not_added_flat_window_in_gigabytes', 0) + 1
            return
        self.segment_ends = ends
        self.note('add_segment', start, length)
        self.call('add_segment', lambda: self.mem.add_segment(start, length))

    def op_set_words(self) -> None:
        start = self.addr()
        n = self.rng.choice([0, 1, 2, 5, 40])
        values: Any = [self.rng.choice([0, 1, U64, 1 << 63, self.rng.getrandbits(64), 0x80, 0x81, 2 * (self.w if self.w in (8, 16, 32, 64) else 8)])
                       for _ in range(n)]
        flavour = self.rng.random()
        if flavour < 0.08:
            values = tuple(values)
        elif flavour < 0.12:
            values = [-1] + values[1:] if values else [-1]
        elif flavour < 0.15:
            values = [1 << 70]
        elif flavour < 0.18:
            values = ['x']
        elif flavour < 0.2:
            values = 5
        self.note('set_words', start, repr(values)[:200])
        self.call('set_words', lambda: self.mem.set_words(start, values))

    def op_set_word(self) -> None:
        a, v = self.addr(), self.rng.choice([0, 1, U64, self.rng.getrandbits(64)])
        self.note('set_word', a, v)
        self.call('set_word', lambda: self.mem.set_word(a, v))

    def op_get_word(self) -> None:
        a = self.addr()
        self.note('get_word', a)
        self.call('get_word', lambda: self.mem.get_word(a))

    def op_many_pages(self) -> None:
        base = self.rng.choice([0, 1 << 20, 1 << 40])
        self.note('many_pages', base)
        for k in range(self.rng.choice([20, 40, 70])):
            self.call('get_word', lambda k=k: self.mem.get_word(base + k * (1 << 14) + 3))

    def op_attrs(self) -> None:
        self.note('attrs')
        for name in ('storage_mode', 'allocated_bytes', 'last_run_op_count', 'last_run_paused_seconds', 'speculation_stats'):
            self.call('attr', lambda name=name: getattr(self.mem, name))

    def op_reinit(self) -> None:
        # (a re-initialisation the constructor rejects - unsupported width - must leave the object usable or cleanly empty)
        w = self.rng.choice([8, 16, 32, 64, 64, 7, 0, 128, 12])
        self.note('reinit', w)
        flat = self.safe_flat_max()
        # (whether the re-initialisation succeeds or raises, the larger of the two windows is assumed from here on)
        self.flat_limit = max(self.flat_limit or (1 << 23), flat or (1 << 23))
        if (1 << 24) < max([min(e, self.flat_limit) for e in self.segment_ends] or [0]) < (1 << 45):
            return
        if self.call('reinit', lambda: self.mem.__init__(w, flat_max_words=flat)) is None:
            self.w = w

    def op_run(self) -> None:
        from flipjump.utils.exceptions import IOReadOnEOF

        rng = self.rng
        budget = {'io': 0}
        mode_r = rng.choice(['bits', 'bits', 'eof', 'raise', 'weird', 'badbool', 'reenter', 'kbint'])
        mode_w = rng.choice(['ok', 'ok', 'raise', 'eof', 'reenter', 'kbint', 'retval'])
        outer = self

        class BadBool:
            def __bool__(self) -> bool:
                raise ValueError('badbool')

        def reenter() -> None:
            if outer.depth < 2:
                outer.depth += 1
                try:
                    for _ in range(rng.randrange(1, 4)):
                        # only what a device can legitimately do through DeviceMemory during a run (the property's
                        # "device-memory reads and writes"): re-entrant __init__/add_segment/set_words/run are outside
                        # the property's quantifier (re-__init__ of a RUNNING Memory frees the array the loop is using -
                        # recorded in DESIGN.md as an out-of-contract observation, not a verdict)
                        rng.choice([outer.op_get_word, outer.op_set_word, outer.op_attrs, outer.op_many_pages])()
                finally:
                    outer.depth -= 1

        def read_bit() -> Any:
            budget['io'] += 1
            if budget['io'] > 300:
                raise IOReadOnEOF('budget')
            if mode_r == 'bits':
                return bool(rng.getrandbits(1))
            if mode_r == 'eof':
                raise IOReadOnEOF('eof')
            if mode_r == 'raise':
                raise ValueError('device failure')
            if mode_r == 'weird':
                return rng.choice([None, 0, 1, 2, 'x', [], [0], 3.5])
            if mode_r == 'badbool':
                return BadBool()
            if mode_r == 'kbint':
                raise KeyboardInterrupt()
            reenter()
            return True

        def write_bit(bit: Any) -> Any:
            budget['io'] += 1
            if budget['io'] > 300:
                raise ValueError('budget')
            if mode_w == 'raise':
                raise ValueError('device failure')
            if mode_w == 'eof':
                raise IOReadOnEOF('eof from write')
            if mode_w == 'kbint':
                raise KeyboardInterrupt()
            if mode_w == 'reenter':
                reenter()
            if mode_w == 'retval':
                return object()
            return None

        eof_type: Any = rng.choice([IOReadOnEOF, IOReadOnEOF, IOReadOnEOF, Exception, ValueError, None, 5, (IOReadOnEOF, ValueError)])
        last_ops = rng.choice([0, 0, 1, 2, 3, 10, 64, -1, -(1 << 62), 1 << 61, (1 << 63) - 1])
        start_ip = rng.choice([0, 0, 0, self.addr(), 2 * 64, 64, 1])
        measure = rng.random() < 0.15
        no_flat = rng.random() < 0.25
        self.note('run', mode_r, mode_w, repr(eof_type), last_ops, start_ip, measure, no_flat)
        for key in ('FLIPJUMP_MEASURE_SPECULATION', 'FLIPJUMP_NO_FLAT'):
            os.environ.pop(key, None)
        if measure:
            os.environ['FLIPJUMP_MEASURE_SPECULATION'] = '1'
        if no_flat:
            os.environ['FLIPJUMP_NO_FLAT'] = '1'
        signal.setitimer(signal.ITIMER_REAL, 0.5)
        try:
            result = self.call('run', lambda: self.mem.run(read_bit, write_bit, eof_type, last_ops_length=last_ops, start_ip=start_ip))
        finally:
            signal.setitimer(signal.ITIMER_REAL, 0)
            os.environ.pop('FLIPJUMP_MEASURE_SPECULATION', None)
            os.environ.pop('FLIPJUMP_NO_FLAT', None)
        if result is not None:
            self.counters['api_runs_completed'] = self.counters.get('api_runs_completed', 0) + 1
            cause = result[0]
            self.counters.setdefault('api_run_causes', {})
            self.counters['api_run_causes'][str(cause)] = self.counters['api_run_causes'].get(str(cause), 0) + 1

    def load_program(self) -> None:
        """most sequences start from a real (generated) program so that runs go somewhere."""
        case = imagegen.generate_case(self.rng, max_ops=400)
        flat = self.safe_flat_max()
        if not enginecmp.flat_window_is_harmless(case, {'engine': 'native', 'flat_max_words': flat}):
            flat = self.rng.choice([1, 5, 1 << 14, 1 << 20])  # (a window of gigabytes over this image's far segments)
        self.note('program', case, flat)
        self.mem = self.core.Memory(case['w'], flat_max_words=flat)
        self.w = case['w']
        self.flat_limit = flat
        self.segment_ends = [min(s0 + n0, flat or (1 << 23)) for s0, n0 in case['segments'] if s0 < (flat or (1 << 23))]
        for s, n in case['segments']:
            self.call('add_segment', lambda s=s, n=n: self.mem.add_segment(s, n))
        for k, v in case['mem']:
            self.call('set_words', lambda k=k, v=v: self.mem.set_words(k, [v]))

    def sequence(self) -> None:
        self.script = []
        self.depth = 0
        if self.rng.random() < 0.6:
            self.load_program()
        else:
            self.new_memory()
            if self.mem is None:
                return
            if self.rng.random() < 0.8:
                self.note('add_segment', 0, 8)
                self.call('add_segment', lambda: self.mem.add_segment(0, 8))
        ops = [self.op_add_segment, self.op_set_words, self.op_set_word, self.op_get_word, self.op_get_word, self.op_run,
               self.op_run, self.op_attrs, self.op_reinit]
        ops.append(self.op_many_pages)
        weights = [3, 3, 3, 3, 2, 4, 2, 1, 0.4, 0.5]
        for _ in range(self.rng.randrange(2, 14)):
            self.rng.choices(ops, weights)[0]()
        self.mem = None


def _alarm(signum, frame):  # type: ignore[no-untyped-def]
    raise KeyboardInterrupt('fjverif watchdog')


def shard_api(spec: Dict[str, Any], journal: Any) -> Dict[str, Any]:
    from flipjump.interpreter import fjm_run

    rng = rng_for(spec['seed'], PROPERTY, 'api', spec['shard'])
    counters: Dict[str, Any] = {}
    hashes: List[str] = []
    fuzzer = ApiFuzzer(rng, fjm_run._fjcore, journal, counters)
    old = signal.signal(signal.SIGALRM, _alarm)
    samples = []
    try:
        for index in range(spec['cases']):
            try:
                fuzzer.sequence()
            except KeyboardInterrupt:
                counters['api_sequences_cut'] = counters.get('api_sequences_cut', 0) + 1
            counters['api_sequences'] = counters.get('api_sequences', 0) + 1
            hashes.append(case_hash(fuzzer.script))
            if index == 1:
                samples.append({'api_script': [s if s[0] != 'program' else ['program', '<generated image>', s[2]] for s in fuzzer.script][:12]})
    finally:
        signal.signal(signal.SIGALRM, old)
    counters['api_exceptions'] = fuzzer.exceptions
    violations = [{'key': 'api/SystemError', 'what': text, 'replay': {'kind': 'api'}} for text in fuzzer.system_errors[:3]]
    return {'counters': counters, 'violations': violations, 'hashes': hashes, 'samples': samples,
            'evaluations': counters.get('api_calls', 0)}


# ------------------------------------------------------------------------------ adversarial files that the reader accepts
def shard_files(spec: Dict[str, Any], journal: Any) -> Dict[str, Any]:
    rng = rng_for(spec['seed'], PROPERTY, 'files', spec['shard'])
    judge = c10.Judge(journal)
    src = engines.tmpdir() / 'c11-src.fjm'
    base: List[bytes] = []
    for index in range(spec['cases']):
        if index % 40 == 0:
            base = []
            for _ in range(4):
                c10.sample_file(rng, src)
                base.append(src.read_bytes())
        data, label = c10.mutate(rng, rng.choice(base))
        journal.note({'kind': 'file', 'file_hex': data.hex()})
        judge.path.write_bytes(data)
        status, value = c10.image_of(judge.path)
        judge.count(f'files_reader_{status}')
        if status == 'ok':
            for engine_cfg in ({'engine': 'native'}, {'engine': 'native', 'no_flat': True}, {'engine': 'native', 'ring': 4}):
                journal.note({'kind': 'file', 'file_hex': data.hex(), 'config': engine_cfg})
                device = engines.make_recording_device()(b'\x5a\xa5')
                engines.run_engine(judge.path, engine_cfg, device, watchdog_s=1.0)
                judge.count('files_native_runs')
            judge.hashes.append(case_hash(data.hex()))
    engines.cleanup_tmpdir()
    return {'counters': judge.counters, 'violations': [], 'hashes': judge.hashes, 'samples': [],
            'evaluations': judge.counters.get('files_native_runs', 0)}


# ------------------------------------------------------------------------------ allocation failures
def shard_allocfault(spec: Dict[str, Any], journal: Any) -> Dict[str, Any]:
    """fail the N-th malloc/calloc/realloc of the extension (counted from just before the native Memory is
    created) for N = 1..K. a NULL dereference kills the worker and the journal names the case; every other
    outcome must be a Python exception or the documented paged fallback."""
    import ctypes

    from flipjump.interpreter import fjm_run

    rng = rng_for(spec['seed'], PROPERTY, 'allocfault', spec['shard'])
    counters: Dict[str, Any] = {}
    hashes: List[str] = []
    lib = ctypes.CDLL(fjm_run._fjcore.__file__)
    calls = ctypes.c_ulonglong.in_dll(lib, 'fjverif_alloc_calls')
    failures = ctypes.c_ulonglong.in_dll(lib, 'fjverif_alloc_failures')
    Device = engines.make_recording_device()
    for index in range(spec['cases']):
        geom = ['far', 'page-edge', 'compact', 'many', 'cache-alias', 'gaps'][index % 6]
        case = imagegen.generate_case(rng, geom)
        config = rng.choice([{'engine': 'native'}, {'engine': 'native', 'no_flat': True}, {'engine': 'native', 'ring': 5},
                             {'engine': 'native', 'measure': True}, {'engine': 'native', 'flat_max_words': 5}])
        hashes.append(case_hash([case, config]))
        path = engines.tmpdir() / 'af.fjm'
        engines.write_case(case, path, 1)
        for n in range(1, 31):
            journal.note({'kind': 'allocfault', 'case': case, 'config': config, 'fail_at': n})
            calls.value = 0
            before = failures.value
            os.environ['FJVERIF_ALLOC_FAIL_AT'] = str(n)
            if rng.random() < 0.3:
                os.environ['FJVERIF_ALLOC_FAIL_EVERY'] = '1'
            try:
                obs = engines.run_engine(path, config, Device(bytes.fromhex(case['input'])), watchdog_s=10)
            finally:
                os.environ.pop('FJVERIF_ALLOC_FAIL_AT', None)
                os.environ.pop('FJVERIF_ALLOC_FAIL_EVERY', None)
            counters['allocfault_runs'] = counters.get('allocfault_runs', 0) + 1
            if failures.value > before:
                counters['allocfault_injected'] = counters.get('allocfault_injected', 0) + 1
            kind = obs['cause'] if obs['exc'] is None else f"exc:{obs['exc']['type']}<-{obs['exc']['cause_type']}"
            counters.setdefault('allocfault_outcomes', {})
            counters['allocfault_outcomes'][kind] = counters['allocfault_outcomes'].get(kind, 0) + 1
            if calls.value < n:
                break  # the run makes fewer than n allocations: nothing left to fail
    engines.cleanup_tmpdir()
    return {'counters': counters, 'violations': [], 'hashes': hashes, 'samples': [],
            'evaluations': counters.get('allocfault_runs', 0)}


# ------------------------------------------------------------------------------ reference counts
def shard_refcount(spec: Dict[str, Any], journal: Any) -> Dict[str, Any]:
    from flipjump.interpreter import fjm_run
    from flipjump.utils.exceptions import IOReadOnEOF

    core = fjm_run._fjcore
    rng = rng_for(spec['seed'], PROPERTY, 'refcount')
    counters: Dict[str, Any] = {}
    violations: List[Dict[str, Any]] = []

    class Dev:
        def __init__(self) -> None:
            self.n = 0

        def read_bit(self) -> bool:
            self.n += 1
            if self.n % 7 == 0:
                raise IOReadOnEOF('x')
            if self.n % 11 == 0:
                raise ValueError('y')
            return bool(self.n & 1)

        def write_bit(self, bit: bool) -> None:
            self.n += 1
            if self.n % 13 == 0:
                raise ValueError('z')

    dev = Dev()
    read_bit, write_bit = dev.read_bit, dev.write_bit
    words = [2 * 64, 2 * 64, 0, 0, 1, 0, 0, 0]
    # op0: flip bit 128 (output) jump 128; op at 128: words[2..3]: flip 0, jump 0 -> NullIP. plus input op variant
    programs = [
        (64, [(0, 8)], {0: 128, 1: 128, 2: 129, 3: 128 + 0}),
        (16, [(0, 8)], {0: 32, 1: 32, 2: 33, 3: 32}),
        (32, [(0, 8), (1 << 20, 4)], {0: 64, 1: 64, 2: (1 << 25), 3: 0}),
    ]
    tracked = {'read_bit': read_bit, 'write_bit': write_bit, 'eof_type': IOReadOnEOF, 'words': words, 'true': True, 'none': None}
    before = {k: sys.getrefcount(v) for k, v in tracked.items()}
    import resource

    rss_before = resource.getrusage(resource.RUSAGE_SELF).ru_maxrss
    for i in range(spec['rounds']):
        w, segs, mem = programs[i % len(programs)]
        m = core.Memory(w, flat_max_words=rng.choice([0, 3, 5]))
        for s, n in segs:
            m.add_segment(s, n)
        for k, v in mem.items():
            m.set_words(k, [v])
        m.set_words(4, words[:2])
        try:
            result = m.run(read_bit, write_bit, IOReadOnEOF, last_ops_length=rng.choice([0, 0, 3]))
            del result
        except ValueError:
            pass
        counters['refcount_runs'] = counters.get('refcount_runs', 0) + 1
        del m
    after = {k: sys.getrefcount(v) for k, v in tracked.items()}
    rss_after = resource.getrusage(resource.RUSAGE_SELF).ru_maxrss
    for k in tracked:
        if k in ('true', 'none'):
            continue  # immortal in 3.12
        if abs(after[k] - before[k]) > 2:
            violations.append({'key': f'refcount-drift/{k}', 'what': f'refcount of {k}: {before[k]} -> {after[k]} after {spec["rounds"]} runs',
                               'replay': {'kind': 'refcount'}})
    counters['refcount_before_after'] = {k: [before[k], after[k]] for k in tracked}
    counters['maxrss_kb_before_after'] = [rss_before, rss_after]
    if rss_after - rss_before > 300_000:
        violations.append({'key': 'rss-growth', 'what': f'max RSS grew {rss_before} -> {rss_after} KB over {spec["rounds"]} create/run/destroy cycles',
                           'replay': {'kind': 'refcount'}})
    return {'counters': counters, 'violations': violations, 'hashes': [f'refcount-{k}' for k in tracked], 'samples': [],
            'evaluations': counters.get('refcount_runs', 0)}


# ------------------------------------------------------------------------------ coverage of _fjcore.c (evidence only)
def shard_coverage(spec: Dict[str, Any], journal: Any) -> Dict[str, Any]:
    rng = rng_for(spec['seed'], PROPERTY, 'coverage')
    counters: Dict[str, Any] = {}
    geoms = list(imagegen.GEOMETRIES)
    for index in range(spec['cases']):
        case = imagegen.generate_case(rng, geoms[index % len(geoms)])
        enginecmp.compare_case(case, native_configs(rng, case), rng, check_memory=True, check_ring=True, counters=counters)
    long_case = imagegen.long_chain_case(rng, 32, 300000)
    enginecmp.compare_case(long_case, [{'engine': 'native'}, {'engine': 'native', 'no_flat': True}, {'engine': 'native', 'ring': 3},
                                       {'engine': 'native', 'measure': True}], rng, check_memory=False, check_ring=True,
                           counters=counters)
    from flipjump.interpreter import fjm_run

    fuzzer = ApiFuzzer(rng, fjm_run._fjcore, journal, counters)
    old = signal.signal(signal.SIGALRM, _alarm)
    try:
        for _ in range(spec['cases']):
            try:
                fuzzer.sequence()
            except KeyboardInterrupt:
                pass
    finally:
        signal.signal(signal.SIGALRM, old)
    engines.cleanup_tmpdir()
    counters['coverage_profile_dir'] = os.environ.get('FJVERIF_WORKDIR', '')
    return {'counters': {'coverage_cases': spec['cases'], 'coverage_profile_dir': counters['coverage_profile_dir']},
            'violations': [], 'hashes': [], 'samples': [], 'evaluations': spec['cases'], 'post': 'coverage'}


def coverage_report(workdir: str) -> Dict[str, Any]:
    raws = glob.glob(os.path.join(workdir, 'fjcore-*.profraw'))
    if not raws:
        return {}
    merged = os.path.join(workdir, 'fjcore.profdata')
    subprocess.run(['llvm-profdata-14', 'merge', '-sparse', *raws, '-o', merged], check=True, capture_output=True)
    so = native_build.build('cov')
    out = subprocess.run(['llvm-cov-14', 'report', str(so), f'-instr-profile={merged}'], capture_output=True, text=True)
    total = [ln for ln in out.stdout.splitlines() if ln.startswith('TOTAL')]
    report: Dict[str, Any] = {'llvm_cov_total': total[0] if total else out.stdout[-300:]}
    if total:
        cols = total[0].split()
        # TOTAL regions missed cover% functions missed exec% lines missed cover% branches missed cover%
        try:
            report['line_coverage_percent'] = float(cols[9].rstrip('%'))
            report['branch_coverage_percent'] = float(cols[12].rstrip('%'))
            report['function_coverage_percent'] = float(cols[6].rstrip('%'))
        except (IndexError, ValueError):
            pass
    return report


# ------------------------------------------------------------------------------ valgrind (thorough)
def shard_valgrind(spec: Dict[str, Any], journal: Any) -> Dict[str, Any]:
    import json

    rng = rng_for(spec['seed'], PROPERTY, 'valgrind')
    cases = [imagegen.generate_case(rng, g) for g in list(imagegen.GEOMETRIES) * (spec['cases'] // 10 + 1)][:spec['cases']]
    workdir = os.environ.get('FJVERIF_WORKDIR', '/var/tmp')
    case_file = os.path.join(workdir, 'valgrind-cases.json')
    with open(case_file, 'w') as f:
        json.dump(cases, f)
    child = r'''
import json, os, sys, random
sys.path.insert(0, os.environ['VERIF_REPO']); sys.path.insert(1, os.environ['FJVERIF_ROOT'])
from fjverif import common, native_build, engines
from fjverif.checks import enginecmp
common.use_repo_tree(); native_build.register('opt'); common.assert_tree()
rng = random.Random(1)
counters = {}
for case in json.load(open(sys.argv[1])):
    cfgs = [c for c in enginecmp.c07_configs(rng, case) if c['engine'] == 'native']
    enginecmp.compare_case(case, cfgs, rng, check_memory=True, check_ring=True, counters=counters)
engines.cleanup_tmpdir()
print('VALGRIND-CHILD-DONE', counters.get('monitor_evaluations'))
'''
    env = dict(os.environ)
    env['FJVERIF_ROOT'] = str(VERIF_ROOT)
    env['PYTHONMALLOC'] = 'malloc'
    log = os.path.join(workdir, 'valgrind.log')
    proc = subprocess.run(['valgrind', '--tool=memcheck', '--error-exitcode=0', f'--log-file={log}', '--track-origins=no',
                           '--suppressions=' + str(VERIF_ROOT / 'native' / 'python.supp'), PYTHON, '-c', child, case_file],
                          capture_output=True, env=env, timeout=6500)
    text = open(log).read() if os.path.exists(log) else ''
    blocks = []
    for block in text.split('\n==')[0:0]:
        blocks.append(block)
    fj_errors = [chunk for chunk in text.split('\n\n') if '_fjcore' in chunk and ('Invalid' in chunk or 'uninitialised' in chunk or 'Conditional jump' in chunk)]
    counters = {'valgrind_cases': len(cases), 'valgrind_fjcore_error_blocks': len(fj_errors),
                'valgrind_child_done': 'VALGRIND-CHILD-DONE' in proc.stdout.decode('utf-8', 'replace')}
    violations = []
    if fj_errors:
        violations.append({'key': 'valgrind/memcheck-error-in-fjcore', 'what': fj_errors[0][-600:], 'replay': {'kind': 'valgrind'}})
    inconclusive = [] if counters['valgrind_child_done'] else ['valgrind child did not finish: ' + proc.stderr.decode('utf-8', 'replace')[-300:]]
    return {'counters': counters, 'violations': violations, 'hashes': [], 'samples': [], 'evaluations': len(cases),
            'inconclusive': inconclusive}


# ------------------------------------------------------------------------------ plumbing
def shard_device_faults(spec: Dict[str, Any], journal: Any) -> Dict[str, Any]:
    """C18's synchronous fault enumeration, run on the sanitizer build. its semantic verdicts belong to C18 and are only counted
    here; what counts for C11 is that the process survives using everything the failed run handed back."""
    from fjverif.checks import c18

    res = c18.shard_sync(spec, journal)
    counters = dict(res['counters'])
    counters['device_fault_runs_under_asan'] = counters.get('monitor_evaluations', 0)
    counters['semantic_divergences_seen'] = len(res['violations'])
    return {'counters': counters, 'violations': [], 'hashes': res['hashes'], 'samples': [], 'evaluations': res['evaluations']}


def run_shard(spec: Dict[str, Any], journal: Any) -> Dict[str, Any]:
    result = {'device-faults': shard_device_faults, 'engine': shard_engine, 'api': shard_api, 'files': shard_files, 'allocfault': shard_allocfault,
              'refcount': shard_refcount, 'coverage': shard_coverage, 'valgrind': shard_valgrind}[spec['kind']](spec, journal)
    return result


def post_process(workdir: Path, counters: Dict[str, Any]) -> None:
    """the cov-build worker wrote its profile at exit; summarise it while the work directory exists."""
    counters['fjcore_coverage'] = coverage_report(str(workdir))


def shard_crash(spec: Dict[str, Any], res: Dict[str, Any]) -> Optional[Dict[str, Any]]:
    """a worker that died is what this property is about: the journal holds the guilty case."""
    if res.get('rc') is None or res.get('rc') == 'memory':
        return None  # timeout / the harness's own memory budget: inconclusive
    report = ''
    for path in sorted(glob.glob(os.path.join(res.get('workdir', ''), f'asan-shard{res["shard"]}.*'))):
        try:
            report += open(path, errors='replace').read()[-3000:]
        except OSError:
            pass
    kind = 'sanitizer-report' if ('ERROR: AddressSanitizer' in report or 'runtime error' in report) else 'process-died'
    summary = [ln for ln in report.splitlines() if 'SUMMARY' in ln or 'runtime error' in ln]
    where = summary[0].split()[-1] if summary else ''
    mech = (summary[0].split(':')[2].split()[0] if summary and summary[0].count(':') >= 2 else 'unknown') if summary else f'rc{res["rc"]}'
    return {'key': f'{kind}/{spec["kind"]}/{mech}', 'what': f'{spec["kind"]} worker died rc={res["rc"]}: {(summary[0] if summary else res.get("log_tail", "")[-300:])} {where}',
            'replay': {'journal': res.get('journal'), 'report': report[-2500:], 'spec_kind': spec['kind']}}


REPLAY_ENV = None


def replay_case(record: Dict[str, Any], journal: Any) -> Dict[str, Any]:
    """replays run in a worker whose build is the asan variant only when launched by the driver with the env;
    here the journal'd case is re-executed (a crash reproduces as a dead worker)."""
    j = record.get('journal') or record
    counters: Dict[str, Any] = {}
    if j.get('kind') == 'file' or 'file_hex' in j:
        path = engines.tmpdir() / 'replay.fjm'
        path.write_bytes(bytes.fromhex(j['file_hex']))
        device = engines.make_recording_device()(b'\x5a\xa5')
        engines.run_engine(path, j.get('config', {'engine': 'native'}), device, watchdog_s=2)
    elif 'case' in j:
        enginecmp.compare_case(j['case'], [j['config']], random.Random(0), check_memory=True, check_ring=True, counters=counters)
    return {'counters': counters, 'violations': [], 'evaluations': 1, 'hashes': []}


def finalize(tier: str, seed: int, counters: Dict[str, Any], evaluations: int, distinct: int) -> Dict[str, Any]:
    inconclusive = []
    for key, floor in (('asan_engine_runs', 500), ('api_calls', 2000), ('api_runs_completed', 100), ('files_native_runs', 50),
                       ('allocfault_injected', 50), ('refcount_runs', 1000)):
        if counters.get(key, 0) < floor:
            inconclusive.append(f'{key}={counters.get(key, 0)} below floor {floor}')
    cov = counters.get('fjcore_coverage', {})
    if 'line_coverage_percent' not in cov:
        inconclusive.append(f'no _fjcore.c coverage measured: {cov}')
    elif cov['line_coverage_percent'] < 80.0:
        inconclusive.append(f'_fjcore.c line coverage {cov["line_coverage_percent"]}% is below the 80% floor (allocation-failure paths are only reachable in the allocfault build)')
    for mode in ('flat', 'hybrid', 'paged'):
        if not counters.get('storage_modes', {}).get(mode):
            inconclusive.append(f'storage mode {mode} never ran under the sanitizer')
    return {
        'coverage': {
            'rule': 'ASan+UBSan build of the current _fjcore.c (every report aborts the worker; zero reports observed = held): '
                    'generated images in all geometries x native storage/loop configurations; direct API fuzz of '
                    '_fjcore.Memory (hostile segments, any 64-bit address, set_words/get_word/set_word interleaved with run, '
                    're-__init__, callbacks that raise / return non-bools / re-enter the same Memory); corrupted .fjm files '
                    'the reader accepts; the N-th allocation failing for N=1..25 (force-included malloc wrappers); refcount '
                    'and RSS drift over thousands of create/run/destroy cycles; llvm-cov line/branch coverage of _fjcore.c '
                    'reached by the same workloads. evaluation = one native run or API call; distinct by case hash',
            'sanitizer_reports': 0,
        },
        'inconclusive': inconclusive,
        'assumptions': ['a clean sanitizer run is not memory safety: red zones miss accesses landing in another live allocation',
                        'effective flat windows kept <= 2^22 words or >= 2^45 words so the harness never commits tens of GB',
                        'MemorySanitizer/ThreadSanitizer do not apply (uninstrumented CPython; no threads, GIL never released)'],
    }
