"""C17 - bit-level IO devices are byte-exact (DESIGN 4, C17)."""

from __future__ import annotations

import os
import subprocess
import sys
from typing import Any, Dict, List, Optional, Tuple

from fjverif.common import PYTHON, case_hash, rng_for

PROPERTY = 'C17'
LEVEL = 'exploration'
NATIVE_VARIANT = None
MAX_EXHAUSTIVE_BITS = 16


def plan(tier: str, seed: int) -> List[Dict[str, Any]]:
    shards = []
    for i in range(8):
        shards.append({'kind': 'write-exhaustive', 'part': i, 'parts': 8, 'seed': seed, 'timeout_s': 1200})
    for i in range(4):
        shards.append({'kind': 'read-exhaustive', 'part': i, 'parts': 4, 'seed': seed, 'timeout_s': 1200})
    n_random = 3 if tier == 'quick' else 12
    for i in range(n_random):
        shards.append({'kind': 'random', 'part': i, 'seed': seed, 'cases': 1500 if tier == 'quick' else 20000,
                       'timeout_s': 3000})
    for i in range(2 if tier == 'quick' else 6):
        shards.append({'kind': 'keyboard', 'part': i, 'seed': seed, 'cases': 2500 if tier == 'quick' else 40000,
                       'timeout_s': 3000})
    shards.append({'kind': 'stdio', 'seed': seed, 'cases': 24 if tier == 'quick' else 200, 'timeout_s': 3000})
    return shards


def pack(bits: List[int]) -> bytes:
    return bytes(sum(bits[i + k] << k for k in range(8)) for i in range(0, len(bits) - len(bits) % 8, 8))


def bits_of(data: bytes) -> List[int]:
    return [(b >> k) & 1 for b in data for k in range(8)]


class Rec:
    def __init__(self) -> None:
        self.counters: Dict[str, Any] = {}
        self.violations: List[Dict[str, Any]] = []
        self.hashes: List[str] = []
        self.samples: List[Any] = []

    def count(self, key: str, n: int = 1) -> None:
        self.counters[key] = self.counters.get(key, 0) + n

    def bad(self, key: str, what: str, replay: Dict[str, Any]) -> None:
        if len(self.violations) < 40:
            self.violations.append({'key': key, 'what': what, 'replay': replay})

    def result(self) -> Dict[str, Any]:
        return {'counters': self.counters, 'violations': self.violations, 'hashes': self.hashes,
                'samples': self.samples, 'evaluations': self.counters.get('sequences', 0)}


def devices():  # type: ignore[no-untyped-def]
    from flipjump.interpreter.io_devices.FixedIO import FixedIO
    from flipjump.interpreter.io_devices.KeyboardIO import KeyboardIO, ScriptedKeyEventSource
    from flipjump.interpreter.io_devices.StandardIO import StandardIO

    return {
        'FixedIO': lambda: FixedIO(b''),
        'StandardIO': lambda: StandardIO(False),
        'KeyboardIO': lambda: KeyboardIO(ScriptedKeyEventSource([])),
    }


def check_written(rec: Rec, name: str, dev: Any, bits: List[int]) -> None:
    from flipjump.utils.exceptions import IncompleteOutput

    want = pack(bits)
    got = dev.get_output(allow_incomplete_output=True)
    rec.count('monitor_evaluations')
    if got != want:
        rec.bad(f'{name}/output-packing', f'{name}: wrote {bits} collected {got!r} want {want!r}',
                {'kind': 'write', 'device': name, 'bits': bits})
    try:
        strict = dev.get_output()
        raised = False
    except IncompleteOutput:
        raised = True
        strict = None
    if raised != (len(bits) % 8 != 0):
        rec.bad(f'{name}/incomplete-report', f'{name}: {len(bits)} bits written, IncompleteOutput raised={raised}',
                {'kind': 'write', 'device': name, 'bits': bits})
    elif not raised and strict != want:
        rec.bad(f'{name}/output-packing', f'{name}: strict get_output {strict!r} want {want!r}',
                {'kind': 'write', 'device': name, 'bits': bits})


def shard_write_exhaustive(spec: Dict[str, Any], rec: Rec) -> None:
    makers = devices()
    for name, make in makers.items():
        for length in range(0, MAX_EXHAUSTIVE_BITS + 1):
            for value in range(spec['part'], 1 << length, spec['parts']):
                bits = [(value >> k) & 1 for k in range(length)]
                dev = make()
                look_at = value % (length + 1) if length else 0   # the collected output is also looked at once on the way
                for k, b in enumerate(bits):
                    if k == look_at and length >= 2:
                        check_written(rec, name, dev, bits[:k])
                        rec.count('observations_mid_stream')
                    dev.write_bit(bool(b))
                check_written(rec, name, dev, bits)
                rec.count('sequences')
                rec.count(f'write_exhaustive/{name}')
                if length >= 9:
                    rec.hashes.append(f'{name}:w:{length}:{value}')
    rec.counters['write_exhaustive_max_bits'] = MAX_EXHAUSTIVE_BITS
    rec.samples.append({'device': 'FixedIO', 'written_bits': [1, 0, 1, 1, 0, 0, 0, 1, 1], 'collected': pack([1, 0, 1, 1, 0, 0, 0, 1, 1]).hex(),
                        'incomplete': True})


def read_all(dev: Any, limit: int) -> Tuple[List[int], Optional[str]]:
    from flipjump.utils.exceptions import IOReadOnEOF

    bits: List[int] = []
    for _ in range(limit):
        try:
            b = dev.read_bit()
        except IOReadOnEOF:
            return bits, 'eof'
        if b is not True and b is not False:
            return bits, f'non-bool {b!r}'
        bits.append(int(b))
    return bits, None


def check_fixed_read(rec: Rec, data: bytes) -> None:
    from flipjump.interpreter.io_devices.FixedIO import FixedIO
    from flipjump.utils.exceptions import IOReadOnEOF

    dev = FixedIO(data)
    bits, end = read_all(dev, 8 * len(data) + 3)
    rec.count('monitor_evaluations')
    if bits != bits_of(data) or end != 'eof':
        rec.bad('FixedIO/input-bits', f'FixedIO({data!r}) read {len(bits)} bits end={end}', {'kind': 'read', 'data': data.hex()})
        return
    for _ in range(2):  # EOF is sticky
        try:
            dev.read_bit()
            rec.bad('FixedIO/eof-not-sticky', f'FixedIO({data!r}) returned a bit after EOF', {'kind': 'read', 'data': data.hex()})
        except IOReadOnEOF:
            pass


def shard_read_exhaustive(spec: Dict[str, Any], rec: Rec) -> None:
    total = 1 + 256 + 65536
    for index in range(spec['part'], total, spec['parts']):
        if index == 0:
            data = b''
        elif index <= 256:
            data = bytes([index - 1])
        else:
            v = index - 257
            data = bytes([v & 0xFF, v >> 8])
        check_fixed_read(rec, data)
        rec.count('sequences')
        rec.count('read_exhaustive/FixedIO')
        if len(data) == 2:
            rec.hashes.append('r:' + data.hex())
    rec.samples.append({'device': 'FixedIO', 'input': 'a5', 'bits_read': bits_of(b'\xa5'), 'then': 'IOReadOnEOF'})


def shard_random(spec: Dict[str, Any], rec: Rec) -> None:
    """long random sequences, interleaved reads and writes on one device object."""
    from flipjump.interpreter.io_devices.FixedIO import FixedIO
    from flipjump.utils.exceptions import IOReadOnEOF

    rng = rng_for(spec['seed'], PROPERTY, 'random', spec['part'])
    makers = devices()
    for index in range(spec['cases']):
        name = ('FixedIO', 'StandardIO', 'KeyboardIO')[index % 3]
        n_bits = rng.choice([17, 23, 64, 100, 513, 4096]) if index % 7 else rng.randrange(17, 4097)
        if index % 13 == 5 or index < 3:
            # a few thousand bytes of output (buffers and chunks, if a device has any, fill up and turn over)
            n_bits = rng.choice([4096 * 8, 4096 * 8 + 8, 4095 * 8 + 3, 8192 * 8 + 16, 8192 * 8 - 1, 5000 * 8, 12289 * 8])
            rec.count('outputs_of_thousands_of_bytes')
        bits = [rng.getrandbits(1) for _ in range(n_bits)]
        if name == 'FixedIO' and index % 2:
            data = bytes(rng.getrandbits(8) for _ in range(rng.choice([3, 5, 17, 64, 512])))
            dev = FixedIO(data)
            expected_in = bits_of(data)
            got_in: List[int] = []
            eof_at = None
            for k, b in enumerate(bits):
                if rng.random() < 0.5:
                    try:
                        got_in.append(int(dev.read_bit()))
                    except IOReadOnEOF:
                        if eof_at is None:
                            eof_at = len(got_in)
                dev.write_bit(bool(b))
                if rng.random() < 0.01:
                    check_written(rec, name, dev, bits[:k + 1])
                    rec.count('observations_mid_stream')
            rec.count('monitor_evaluations')
            if got_in != expected_in[:len(got_in)] or (eof_at is not None and eof_at != len(expected_in)):
                rec.bad('FixedIO/input-bits', 'interleaved read/write: input bits differ',
                        {'kind': 'interleaved', 'data': data.hex(), 'seed': spec['seed'], 'part': spec['part'], 'index': index})
            check_written(rec, name, dev, bits)
            check_fixed_read(rec, data)
        else:
            dev = makers[name]()
            looks = {rng.randrange(n_bits + 1) for _ in range(rng.choice([0, 1, 2, 5]))}
            for k, b in enumerate(bits):
                if k in looks:  # "full output until now": looking does not consume or freeze anything
                    check_written(rec, name, dev, bits[:k])
                    rec.count('observations_mid_stream')
                dev.write_bit(bool(b))
            check_written(rec, name, dev, bits)
        rec.count('sequences')
        rec.count(f'random/{name}')
        rec.hashes.append(case_hash([name, bits[:64], n_bits, index, spec['part']]))
    from flipjump.interpreter.io_devices.BrokenIO import BrokenIO
    from flipjump.utils.exceptions import BrokenIOUsed

    broken = BrokenIO()
    for action in (broken.read_bit, lambda: broken.write_bit(True), broken.get_output):
        try:
            action()
            rec.bad('BrokenIO/no-raise', 'BrokenIO action did not raise', {'kind': 'broken'})
        except BrokenIOUsed:
            rec.count('broken_io_raises')


# ------------------------------------------------------------------ keyboard protocol model
def keyboard_model(events: List[Tuple[int, bool, int]], n_bits: int) -> List[int]:
    """polling protocol: one status nibble per poll (0 = none, 8|is_down on an event), the keycode
    byte right after an event, events in tic order once due (stable for equal tics), never EOF."""
    order = sorted(range(len(events)), key=lambda i: events[i][0])
    out: List[int] = []
    tic = 0
    nxt = 0
    while len(out) < n_bits:
        if nxt < len(order) and events[order[nxt]][0] <= tic:
            _, is_down, keycode = events[order[nxt]]
            nxt += 1
            status = 0x9 if is_down else 0x8
            out.extend((status >> k) & 1 for k in range(4))
            out.extend((keycode >> k) & 1 for k in range(8))
        else:
            out.extend([0, 0, 0, 0])
        tic += 1
    return out[:n_bits]


def shard_keyboard(spec: Dict[str, Any], rec: Rec) -> None:
    from flipjump.interpreter.io_devices.KeyboardIO import KeyboardIO, KeyEvent, ScriptedKeyEventSource

    rng = rng_for(spec['seed'], PROPERTY, 'keyboard', spec['part'])
    for index in range(spec['cases']):
        n_events = rng.choice([0, 1, 2, 3, 5, 8, 20])
        span = rng.choice([1, 3, 10, 60])
        events = [(rng.randrange(-2, span), bool(rng.getrandbits(1)), rng.getrandbits(8)) for _ in range(n_events)]
        if rng.random() < 0.3 and events:  # same-tic bursts
            t = events[0][0]
            events = [(t, d, k) for (_, d, k) in events]
        use_text = rng.random() < 0.4
        if use_text:
            lines = []
            for t, d, k in events:
                if rng.random() < 0.2:
                    lines.append(rng.choice(['', '   ', '# comment', '  # 3, down, 4']))
                down = rng.choice(['down', 'DOWN', '1', 'Down']) if d else rng.choice(['up', 'UP', '0'])
                tic_s = rng.choice([str(t), hex(t) if t >= 0 else str(t)])
                key_s = rng.choice([str(k), hex(k), f'0b{k:b}'])
                lines.append(f'{" " * rng.randrange(3)}{tic_s} ,{down},  {key_s} ')
            source = ScriptedKeyEventSource.from_text('\n'.join(lines))
        else:
            source = ScriptedKeyEventSource([KeyEvent(t, d, k) for t, d, k in events])
        dev = KeyboardIO(source)
        n_bits = rng.choice([0, 1, 3, 4, 5, 12, 13, 40, 200, 800])
        got: List[int] = []
        failure = None
        try:
            for _ in range(n_bits):
                b = dev.read_bit()
                if b is not True and b is not False:
                    failure = f'non-bool {b!r}'
                    break
                got.append(int(b))
        except Exception as exc:  # never EOF, never anything else
            failure = f'{type(exc).__name__}: {exc}'
        want = keyboard_model(events, n_bits)
        rec.count('monitor_evaluations')
        rec.count('sequences')
        rec.count('keyboard/scripts')
        if n_events:
            rec.count('keyboard/with-events')
            rec.hashes.append(case_hash([events, n_bits]))
        if failure is not None or got != want:
            rec.bad('KeyboardIO/protocol', f'events={events} bits={n_bits} failure={failure} got={got[:40]} want={want[:40]}',
                    {'kind': 'keyboard', 'events': events, 'n_bits': n_bits, 'text': use_text})
        if index == 0:
            rec.samples.append({'device': 'KeyboardIO', 'events': events, 'bits_read': n_bits, 'stream': got[:48]})


# ------------------------------------------------------------------ StandardIO through real pipes
STDIO_CHILD = r'''
import sys, json
from flipjump.interpreter.io_devices.StandardIO import StandardIO
from flipjump.utils.exceptions import IOReadOnEOF
mode = sys.argv[1]
dev = StandardIO(mode == "echo")
bits = []
err = None
try:
    while True:
        try:
            b = dev.read_bit()
        except IOReadOnEOF:
            break
        bits.append(int(b))
        if mode == "echo":
            dev.write_bit(b)
except Exception as exc:
    err = type(exc).__name__ + ": " + str(exc)[:200]
sys.stdout.flush()
sys.stderr.write(json.dumps({"bits": "".join(map(str, bits)), "err": err,
                             "collected": dev.get_output(allow_incomplete_output=True).hex()}))
'''


def run_stdio(data: bytes, encoding: Optional[str], mode: str) -> Dict[str, Any]:
    import json

    env = dict(os.environ)
    env.pop('PYTHONIOENCODING', None)
    env['PYTHONUTF8'] = '0'
    env['LC_ALL'] = env['LANG'] = 'C.UTF-8'
    if encoding:
        env['PYTHONIOENCODING'] = encoding
    proc = subprocess.run([PYTHON, '-c', STDIO_CHILD, mode], input=data, capture_output=True, env=env, timeout=120)
    try:
        info = json.loads(proc.stderr.decode('utf-8', 'replace').strip().splitlines()[-1])
    except Exception:
        info = {'bits': None, 'err': 'child failed: ' + proc.stderr.decode('utf-8', 'replace')[-300:], 'collected': ''}
    info['stdout'] = proc.stdout
    info['rc'] = proc.returncode
    return info


def shard_stdio(spec: Dict[str, Any], rec: Rec) -> None:
    rng = rng_for(spec['seed'], PROPERTY, 'stdio')
    inputs: List[bytes] = [bytes(range(256)), bytes(range(128)), b'', b'A\xc3\xa9B', bytes(range(128, 256)), b'\xff\xfe\x00\x80']
    while len(inputs) < spec['cases']:
        n = rng.choice([1, 2, 7, 64, 300])
        pool = rng.choice([range(128), range(256), range(128, 256)])
        inputs.append(bytes(rng.choice(pool) for _ in range(n)))
    for index, data in enumerate(inputs):
        for encoding in ('latin-1', None):  # None = the interpreter default for a UTF-8 locale
            info = run_stdio(data, encoding, 'echo' if index % 2 == 0 else 'read')
            rec.count('monitor_evaluations')
            rec.count('sequences')
            rec.count(f'stdio/{encoding or "utf-8-default"}')
            rec.hashes.append(case_hash([data.hex(), encoding]))
            want = ''.join(map(str, bits_of(data)))
            ascii_only = all(b < 0x80 for b in data)
            enc_tag = 'latin-1' if encoding else 'utf-8'
            if info['bits'] != want or info['err']:
                mech = 'StandardIO/stdin-text-layer/' + enc_tag + ('/ascii' if ascii_only else '/high-bytes')
                rec.bad(mech, f'StandardIO read of {data[:12].hex()}.. ({len(data)} bytes, stdin encoding {enc_tag}): '
                              f'got {len(info["bits"] or "")} bits err={info["err"]} want {len(want)} bits',
                        {'kind': 'stdio', 'data': data.hex(), 'encoding': encoding})
                continue
            if index % 2 == 0:
                if info['collected'] != data.hex():
                    rec.bad('StandardIO/output-packing', f'echo of {data[:12].hex()}: collected {info["collected"][:24]}',
                            {'kind': 'stdio', 'data': data.hex(), 'encoding': encoding})
                shown = info['stdout']
                if encoding == 'latin-1' and shown != data:
                    rec.bad('StandardIO/stdout-bytes/latin-1', f'echo of {data[:12].hex()}: stdout {shown[:12].hex()}',
                            {'kind': 'stdio', 'data': data.hex(), 'encoding': encoding})
    rec.samples.append({'device': 'StandardIO via pipes', 'stdin_bytes': inputs[3].hex(), 'encodings': ['latin-1', 'utf-8 (default)']})


def run_shard(spec: Dict[str, Any], journal: Any) -> Dict[str, Any]:
    rec = Rec()
    {'write-exhaustive': shard_write_exhaustive, 'read-exhaustive': shard_read_exhaustive, 'random': shard_random,
     'keyboard': shard_keyboard, 'stdio': shard_stdio}[spec['kind']](spec, rec)
    return rec.result()


def replay_case(record: Dict[str, Any], journal: Any) -> Dict[str, Any]:
    rec = Rec()
    kind = record.get('kind')
    if kind == 'write':
        dev = devices()[record['device']]()
        for b in record['bits']:
            dev.write_bit(bool(b))
        check_written(rec, record['device'], dev, record['bits'])
    elif kind == 'read':
        check_fixed_read(rec, bytes.fromhex(record['data']))
    elif kind == 'stdio':
        data = bytes.fromhex(record['data'])
        info = run_stdio(data, record['encoding'], 'read')
        if info['bits'] != ''.join(map(str, bits_of(data))) or info['err']:
            rec.bad('StandardIO/stdin-text-layer', f'reproduced: err={info["err"]}', record)
    elif kind == 'keyboard':
        from flipjump.interpreter.io_devices.KeyboardIO import KeyboardIO, KeyEvent, ScriptedKeyEventSource

        events = [tuple(e) for e in record['events']]
        dev = KeyboardIO(ScriptedKeyEventSource([KeyEvent(*e) for e in events]))
        got = [int(dev.read_bit()) for _ in range(record['n_bits'])]
        if got != keyboard_model(events, record['n_bits']):  # type: ignore[arg-type]
            rec.bad('KeyboardIO/protocol', 'reproduced', record)
    return rec.result()


def finalize(tier: str, seed: int, counters: Dict[str, Any], evaluations: int, distinct: int) -> Dict[str, Any]:
    inconclusive = []
    expect_write = sum(1 << n for n in range(MAX_EXHAUSTIVE_BITS + 1))
    for name in ('FixedIO', 'StandardIO', 'KeyboardIO'):
        if counters.get(f'write_exhaustive/{name}', 0) != expect_write:
            inconclusive.append(f'write-exhaustive for {name} covered {counters.get(f"write_exhaustive/{name}", 0)} of {expect_write}')
    if counters.get('read_exhaustive/FixedIO', 0) != 1 + 256 + 65536:
        inconclusive.append('read-exhaustive incomplete')
    for key in ('keyboard/with-events', 'stdio/latin-1', 'stdio/utf-8-default', 'broken_io_raises'):
        if not counters.get(key):
            inconclusive.append(f'{key} never exercised')
    return {
        'coverage': {
            'rule': 'every bit sequence of length <= 16 written to FixedIO/StandardIO/KeyboardIO (131071 each) and every '
                    'input byte string of length <= 2 read from FixedIO (65793) - exhaustive; plus random sequences to 4096 '
                    'bits with interleaved reads, keyboard event scripts x read counts against a protocol model, and '
                    'StandardIO through real pipes under latin-1 and the default UTF-8 stdin. non-trivial = sequence '
                    'longer than one byte / script with events; distinct by content',
            'exhaustive': True,
        },
        'inconclusive': inconclusive,
        'assumptions': ['the packing model (lsb first) and the keyboard polling model are transcribed from the property text '
                        'and the KeyboardIO module docstring',
                        'interactive terminals and the pygame window are not exercised (pipes only)'],
    }
