"""C13 - assembly output is a pure function of its inputs (DESIGN 4, C13)."""

from __future__ import annotations

import json
import os
import random
import shutil
import subprocess
from pathlib import Path
from typing import Any, Dict, List, Optional, Tuple

from fjverif import primgen
from fjverif.checks import c14
from fjverif.common import PYTHON, REPO_ROOT, VERIF_ROOT, case_hash, rng_for

PROPERTY = 'C13'
LEVEL = 'exploration'
NATIVE_VARIANT = None

CHILD = r'''
import contextlib, hashlib, io, json, os, sys
sys.path.insert(0, os.environ['VERIF_REPO']); sys.path.insert(1, os.environ['FJVERIF_ROOT'])
from fjverif import common
common.use_repo_tree()
from pathlib import Path
import flipjump
from flipjump.fjm.fjm_consts import FJMVersion
spec = json.loads(open(sys.argv[1]).read())
if spec.get('chdir'):
    os.chdir(spec['chdir'])
results = []
def assemble(item, out_dir, tag):
    if spec.get('same_paths'):
        tag = 'shared'   # every assembly of this process writes over the files of the one before it
    out = Path(out_dir) / f'{tag}.fjm'
    dbg = Path(out_dir) / f'{tag}.fjd'
    for p in (out, dbg):
        if p.exists() and not spec.get('same_paths'):
            p.unlink()
    kw = {}
    if item.get('max_recursion_depth'):
        kw['max_recursion_depth'] = item['max_recursion_depth']
    try:
        with contextlib.redirect_stdout(io.StringIO()):
            if item.get('low_level'):
                # the assembler's own entry point, with the paths exactly as given (relative to the current directory)
                from flipjump.assembler import assembler
                from flipjump.fjm.fjm_writer import Writer
                writer = Writer(out, item['w'], FJMVersion(item.get('version', 3)))
                tuples = []
                if item.get('with_stl_tuples'):
                    from flipjump.utils.functions import get_file_tuples
                    tuples = get_file_tuples([], no_stl=False)     # (s1, <stl file>), ... as the quickstart functions build them
                names = item.get('short_names') or [f'f{k + 1}' for k in range(len(item['files']))]
                assembler.assemble(tuples + [(names[k], Path(f)) for k, f in enumerate(item['files'])], item['w'], writer,
                                   warning_as_errors=item.get('werror', True), debugging_file_path=dbg, print_time=False, **kw)
            else:
                flipjump.assemble([Path(f) for f in item['files']], out, memory_width=item['w'], use_stl=item['stl'],
                                  fjm_version=FJMVersion(item.get('version', 3)), warning_as_errors=item.get('werror', True),
                                  debugging_file_path=dbg, print_time=False, **kw)
        return {'ok': True, 'fjm': hashlib.sha256(out.read_bytes()).hexdigest(), 'fjd': hashlib.sha256(dbg.read_bytes()).hexdigest(),
                'fjm_size': out.stat().st_size}
    except flipjump.FlipJumpException as exc:
        return {'ok': False, 'error': type(exc).__name__}
    except BaseException as exc:
        return {'ok': False, 'error': 'RAW:' + type(exc).__name__}
for index, item in enumerate(spec['history']):
    results.append(assemble(item, spec['out_dir'], f'h{index}'))
probe = assemble(spec['probe'], spec['out_dir'], 'probe')
print('FJVERIF-RESULT ' + json.dumps({'history': results, 'probe': probe}))
'''


def plan(tier: str, seed: int) -> List[Dict[str, Any]]:
    quick = tier == 'quick'
    n = 16 if quick else 32
    return [{'seed': seed, 'shard': i, 'histories': 9 if quick else 150, 'timeout_s': 1500 if quick else 7200} for i in range(n)]


def corpus_sources() -> List[Dict[str, Any]]:
    root = REPO_ROOT / 'programs'
    out = []
    for rel, w, stl in (('print_tests/hello_world.fj', 64, True), ('print_tests/cat.fj', 64, True), ('sanity_checks/rep.fj', 64, True),
                        ('simple_math_checks/nadd.fj', 64, True), ('sanity_checks/macro_rep_hygiene.fj', 64, True),
                        ('print_tests/hello_no-stl.fj', 64, False), ('sanity_checks/simple.fj', 64, False), ('quine16.fj', 16, True),
                        ('print_tests/hello_world.fj', 32, True), ('sanity_checks/testbit.fj', 64, True),
                        ('func_tests/func1.fj', 64, True), ('print_tests/hexprint.fj', 32, True)):
        if (root / rel).exists():
            out.append({'files': [str(root / rel)], 'w': w, 'stl': stl, 'name': rel})
    multi = [root / 'multi_comp' / n for n in ('defs.fj', 'a.fj', 'b.fj', 'c.fj')]
    if all(p.exists() for p in multi):
        out.append({'files': [str(p) for p in multi], 'w': 64, 'stl': True, 'name': 'multi_comp'})
    return out


def layout_variants(rng: random.Random, scratch: Path, count: int) -> List[Dict[str, Any]]:
    """small stl programs whose library tables land at DIFFERENT addresses (every corpus program starts with
    stl.startup_and_init_all, which pins them): shared stl expressions resolve to other values from one program to the next."""
    out = []
    for k in range(count):
        w = rng.choice([64, 64, 32])
        filler = ';\n' * rng.choice([1, 2, 3, 7, 20, 64])
        body = rng.choice(['stl.output "layout!\\n"\n', 'hex.print_as_digit v, 0\n', 'hex.add 2, v, v\nhex.print_as_digit v, 0\n'])
        inits = rng.choice(['hex.init\n', 'hex.init\nstl.ptr_init\n', 'stl.ptr_init\nhex.init\n'])
        text = f'stl.startup\n;fjv_go\n{filler}fjv_go:\n;fjv_after\n{inits}fjv_after:\n{body}stl.loop\nv: hex.vec 2, 0x35\n'
        path = scratch / f'layout{k}.fj'
        path.write_text(text)
        out.append({'files': [str(path)], 'w': w, 'stl': True, 'name': f'layout-variant-{k}'})
    # a source that only WARNS (its outcome depends on the warning mode, in every process alike), one whose macro body holds a
    # 300-term expression (needs the default recursion limit), and flat programs of more than 2^16 data words
    mac = scratch / 'macro_calls.fj'
    mac.write_text('def mc a @ here {\n  here:\n  ;a\n  mc2 here\n}\ndef mc2 b @ back {\n  back:\n  ;b\n}\n;\nmc 0\nrep(3, i) mc i\n')
    out.append({'files': [str(mac)], 'w': rng.choice([16, 32, 64]), 'stl': False, 'name': 'macro-calls-no-stl'})
    # two stl programs that use the same spelling differently: a constant in one, a label in the other
    ca = scratch / 'const_a.fj'
    ca.write_text('stl.startup\nfjc = 3\nfjd = 64\n;fjc*dw\nstl.loop\n')
    out.append({'files': [str(ca)], 'w': 64, 'stl': True, 'name': 'stl-with-constants'})
    cb = scratch / 'const_b.fj'
    cb.write_text('stl.startup\n;fjc\nfjd = 128\nfjc: ;fjd\nstl.loop\n')
    out.append({'files': [str(cb)], 'w': 64, 'stl': True, 'name': 'stl-same-spelling-as-label'})
    segs = scratch / 'segments.fj'
    segs.write_text(';\n' + ''.join(f'segment {(k + 1) * 4096}\ns{k}: ;s{k}\nwflip s{k} + 64, 5\n' for k in range(7)))
    out.append({'files': [str(segs)], 'w': 64, 'stl': False, 'name': 'seven-segments'})
    warn = scratch / 'warns.fj'
    warn.write_text('def wm a, b {\n  ;a\n}\n;\nwm 1, 2\n')
    out.append({'files': [str(warn)], 'w': rng.choice([16, 32, 64]), 'stl': False, 'name': 'warning-bearing'})
    deep = scratch / 'deep.fj'
    deep.write_text('def dm x {\n  ;x' + '+1' * 300 + '\n}\n;\ndm 5\n')
    out.append({'files': [str(deep)], 'w': 64, 'stl': False, 'name': 'deep-expression'})
    for k, n_ops in enumerate([rng.randrange(33000, 45000), rng.randrange(60000, 90000)]):
        big = scratch / f'big{k}.fj'
        big.write_text(f'def bt i {{\n  ;i*{2 * 64}\n}}\n;\nrep({n_ops}, i) bt i\n')
        out.append({'files': [str(big)], 'w': 64, 'stl': False, 'name': f'big-flat-{k}'})
    return out


def late_failure(rng: random.Random, src: Dict[str, Any], scratch: Path, index: int) -> Dict[str, Any]:
    """a REAL program (stl and all) that fails only in the last stage, after its shared expressions were resolved."""
    tail = rng.choice([';fjverif_never_declared_label\n', 'fjverif_l0:\n;1/(fjverif_l0-fjverif_l0)\n', 'segment 0\n;\n;\n',
                       'wflip fjverif_never_declared_label, 1\n', 'fjverif_l1:\n;1<<(fjverif_l1-fjverif_l1-1)\n'])
    path = scratch / f'late{index}.fj'
    path.write_text(tail)
    return dict(src, files=list(src['files']) + [str(path)], werror=rng.random() < 0.5, version=rng.randrange(4),
                name='fail:last-stage-after-' + str(src.get('name', 'program')))


class Judge:
    def __init__(self, journal: Any, workdir: Path):
        self.journal = journal
        self.workdir = workdir
        self.counters: Dict[str, Any] = {}
        self.violations: List[Dict[str, Any]] = []
        self.hashes: List[str] = []
        self.fresh_cache: Dict[str, Dict[str, Any]] = {}
        self.env = dict(os.environ)
        self.env['FJVERIF_ROOT'] = str(VERIF_ROOT)

    def count(self, key: str, n: int = 1) -> None:
        self.counters[key] = self.counters.get(key, 0) + n

    def child(self, spec: Dict[str, Any], hashseed: str = '0') -> Optional[Dict[str, Any]]:
        out_dir = self.workdir / f'out{self.counters.get("children", 0)}'
        out_dir.mkdir(parents=True, exist_ok=True)
        self.count('children')
        spec = dict(spec, out_dir=str(out_dir))
        spec_file = out_dir / 'spec.json'
        spec_file.write_text(json.dumps(spec))
        env = dict(self.env, PYTHONHASHSEED=hashseed)
        try:
            proc = subprocess.run([PYTHON, '-c', CHILD, str(spec_file)], capture_output=True, env=env, timeout=600, cwd=str(out_dir))
        except subprocess.TimeoutExpired:
            shutil.rmtree(out_dir, ignore_errors=True)
            self.count('children_timed_out')
            return None
        shutil.rmtree(out_dir, ignore_errors=True)
        for line in proc.stdout.decode('utf-8', 'replace').splitlines():
            if line.startswith('FJVERIF-RESULT '):
                return json.loads(line[len('FJVERIF-RESULT '):])
        self.counters.setdefault('child_failures', [])
        if len(self.counters['child_failures']) < 3:
            self.counters['child_failures'].append(proc.stderr.decode('utf-8', 'replace')[-300:])
        return None

    def fresh(self, probe: Dict[str, Any]) -> Optional[Dict[str, Any]]:
        key = case_hash(probe)
        if key not in self.fresh_cache:
            res = self.child({'history': [], 'probe': probe})
            if res is None:
                return None
            self.fresh_cache[key] = res['probe']
        return self.fresh_cache[key]


def history_item(rng: random.Random, sources: List[Dict[str, Any]], scratch: Path, index: int) -> Dict[str, Any]:
    r = rng.random()
    if r < 0.35:
        src = rng.choice(sources)
        item = dict(src, werror=rng.random() < 0.6, version=rng.randrange(4))
        if rng.random() < 0.2:
            item['max_recursion_depth'] = rng.choice([5, 40, 900, 5000])
        if rng.random() < 0.15 and item['stl']:
            item['w'] = rng.choice([16, 32, 64])  # the stl at another width (may fail to fit - a failing history step)
        return item
    if r < 0.43:  # failures that happen while parser/preprocessor state is "open" (inside a namespace, deep in a macro, mid-rep)
        text = rng.choice([
            'ns q {\n  def m {\n    ;\n  }\n  ;1 +\n}\n', 'ns a {\nns b {\n;`\n}\n}\n', 'ns outer {\n  x:\n  ;nolabel\n', 'ns z {\n ;\n',
            'def r a {\n  rep(3, i) r2 a+i\n}\ndef r2 b {\n  ;b/0\n}\n;\nr 5\n', 'def d {\n  d\n}\n;\nd\n',
            'ns p {\n  def f {\n    .g\n  }\n  def g {\n    ..nope\n  }\n}\n;\np.f\n', 'K = 5\nns c {\n  K = 6\n  ;K\n  ;(\n}\n'])
        path = scratch / f'open{index}.fj'
        path.write_text(text)
        stl = rng.random() < 0.3
        return {'files': [str(path)], 'w': 64 if stl else rng.choice([16, 32, 64]), 'stl': stl, 'werror': True, 'name': 'fail:open-state',
                'max_recursion_depth': rng.choice([None, 20, 900])}
    if r < 0.6:  # failing inputs of the C14 classes
        case = rng.choice(c14.grammar_cases(rng))
        path = scratch / f'fail{index}.fj'
        text = case.get('text')
        if text is None:
            path = scratch / 'missing.fj'
        elif isinstance(text, bytes):
            path.write_bytes(text)
        else:
            path.write_text(text)
        stl = rng.random() < 0.4 and not case.get('bounded')   # (the work of a "bounded" case is bounded at ITS width only)
        return {'files': [str(path)], 'w': 64 if stl else case['w'], 'stl': stl, 'werror': True, 'name': 'fail:' + case['class'],
                'max_recursion_depth': case.get('max_recursion_depth')}
    if r < 0.68:
        return late_failure(rng, rng.choice(sources), scratch, index)
    if r < 0.8:
        prog = primgen.generate(rng, flaws=rng.random() < 0.3)
        path = scratch / f'gen{index}.fj'
        path.write_text(prog.text())
        return {'files': [str(path)], 'w': prog.w, 'stl': False, 'werror': rng.random() < 0.5, 'name': 'generated'}
    w = rng.choice([16, 32, 64])
    path = scratch / f'macro{index}.fj'
    path.write_text(rng.choice(c14.MACRO_SNIPPETS) + '\n'.join(primgen.generate(rng, w, 4, flaws=False).lines) + '\n')
    stl = rng.random() < 0.3 and w == 64
    return {'files': [str(path)], 'w': w, 'stl': stl, 'werror': rng.random() < 0.5, 'name': 'macro-snippet'}


def run_shard(spec: Dict[str, Any], journal: Any) -> Dict[str, Any]:
    rng = rng_for(spec['seed'], PROPERTY, spec['shard'])
    workdir = Path(os.environ.get('FJVERIF_WORKDIR', '/var/tmp')) / f'c13-{spec["shard"]}'
    scratch = workdir / 'src'
    scratch.mkdir(parents=True, exist_ok=True)
    judge = Judge(journal, workdir)
    sources = corpus_sources() + layout_variants(rng, scratch, 6)
    samples: List[Any] = []
    for index in range(spec['histories']):
        probe_src = rng.choice(sources)
        probe = dict(probe_src, werror=rng.random() < 0.7, version=rng.choice([3, 3, 1, 2, 0]))
        history = [history_item(rng, sources, scratch, index * 20 + k) for k in range(rng.choice([1, 2, 3, 5, 8, 12]))]
        if rng.random() < 0.3:
            history.append(dict(probe))  # the very same program twice
        if rng.random() < 0.3:  # the step right before the probe fails in the LAST stage, in a program of the probe's width
            same_w = [s for s in sources if s['w'] == probe['w'] and s['stl'] == probe['stl']]
            history.append(late_failure(rng, rng.choice(same_w), scratch, index * 20 + 19))
            judge.count('probe_right_after_a_last_stage_failure')
        r = rng.random()
        by_name = {src['name']: src for src in sources}
        if r < 0.1 and 'deep-expression' in by_name:
            # a call that asked for a small recursion depth, then a probe that needs the default one
            probe = dict(by_name['deep-expression'], werror=True, version=rng.choice([1, 3]))
            probe_src = by_name['deep-expression']
            history.append(dict(rng.choice([src for src in sources if not src['stl']]), werror=False, version=1,
                                max_recursion_depth=rng.choice([5, 40, 50, 120]), name='small-recursion-depth-call'))
            judge.count('targeted/deep-probe-after-a-small-depth-call')
        elif r < 0.2 and 'big-flat-0' in by_name:
            # a big image written by the same process before a smaller (still > 2^16 words) one
            probe = dict(by_name['big-flat-0'], werror=True, version=rng.choice([1, 3, 0, 2]))
            probe_src = by_name['big-flat-0']
            history.append(dict(by_name['big-flat-1'], werror=True, version=probe['version']))
            judge.count('targeted/big-image-after-a-bigger-one')
        elif r < 0.3 and 'warning-bearing' in by_name:
            # the same warning-bearing source, first with warnings tolerated (or already refused once), then as errors
            probe = dict(by_name['warning-bearing'], werror=True, version=rng.choice([1, 3]))
            probe_src = by_name['warning-bearing']
            history.append(dict(probe, werror=rng.random() < 0.5))
            judge.count('targeted/warning-source-again-as-errors')
        elif 0.38 <= r < 0.46 and 'stl-with-constants' in by_name:
            # the FIRST stl program of the process defines constants; the probe spells a label (and a constant) the same way
            werror = rng.random() < 0.5
            probe = dict(by_name['stl-same-spelling-as-label'], werror=werror, version=rng.choice([1, 3]))
            probe_src = by_name['stl-same-spelling-as-label']
            history.insert(0, dict(by_name['stl-with-constants'], werror=werror, version=1))
            judge.count('targeted/constants-of-the-first-stl-program')
        elif 0.46 <= r < 0.54:
            # the probe's own file assembled a moment ago as the SECOND file of another list (it was "f2" then, it is "f1" now)
            candidates = [src for src in sources if not src['stl'] and src['name'].startswith(('layout', 'macro', 'deep', 'warning'))] or \
                [src for src in sources if not src['stl']]
            probe_src = rng.choice(candidates)
            probe = dict(probe_src, werror=False, version=rng.choice([1, 3]))
            prelude = scratch / 'prelude.fj'
            prelude.write_text('// a file of comments only\n\n')
            history.append(dict(probe, files=[str(prelude)] + list(probe['files']), name='same-file-second-in-the-list'))
            judge.count('targeted/same-file-under-another-short-name')
        elif 0.54 <= r < 0.60:
            # an expression deeper than the default depth allows (refused in a fresh process), right after a call that asked for a
            # much larger depth and FAILED (or succeeded): what the earlier call asked for is its own business
            too_deep = scratch / 'too_deep.fj'
            nesting = rng.choice([600, 700, 900])
            too_deep.write_text('td:;' + '(1+' * nesting + 'td' + ')' * nesting + f' - {nesting}\n')
            probe_src = {'files': [str(too_deep)], 'w': 64, 'stl': False, 'name': 'expression-deeper-than-the-default-depth'}
            probe = dict(probe_src, werror=True, version=rng.choice([1, 3]))
            failing = scratch / 'fails_at_large_depth.fj'
            failing.write_text(rng.choice([';never_declared_label_x\n', 'def d {\n  d\n}\n;\nd\n', ';(\n', ';\n', 'x:\nx:\n', ';1/0\n', 'nomacro 5\n']))
            history.append({'files': [str(failing)], 'w': rng.choice([16, 64]), 'stl': False, 'werror': True, 'name': 'call-with-a-large-depth',
                            'max_recursion_depth': rng.choice([3000, 5000, 8000])})
            judge.count('targeted/too-deep-probe-after-a-large-depth-call')
        elif 0.60 <= r < 0.66:
            # a file list in which a user file repeats the short name of a library file (refused), after the library was assembled
            # in this process (the library prefix may come from the parse cache the second time)
            user = scratch / 'repeats_a_short_name.fj'
            user.write_text('stl.startup\nstl.loop\n')
            w, werror = rng.choice([64, 32]), rng.random() < 0.5
            probe_src = {'files': [str(user)], 'w': w, 'stl': True, 'name': 'user-file-named-like-a-library-file'}
            probe = dict(probe_src, werror=werror, version=rng.choice([1, 3]), low_level=True, with_stl_tuples=True,
                         short_names=[rng.choice(['s1', 's2', 's5'])])
            history.append(dict(rng.choice([src for src in sources if src['stl'] and src['w'] == w]), werror=werror, version=1))
            if rng.random() < 0.5:
                history.append(dict(history[-1]))
            judge.count('targeted/repeated-short-name-after-the-library-was-cached')
        elif r < 0.38 and 'seven-segments' in by_name:
            # a program with many segments (many assembler-declared labels), assembled under another string-hash seed
            probe = dict(by_name['seven-segments'], werror=True, version=rng.choice([1, 3]))
            probe_src = by_name['seven-segments']
            judge.count('targeted/many-segments-under-another-hash-seed')
        journal.note({'probe': probe, 'history': history})
        fresh = judge.fresh(probe)
        if fresh is None:
            judge.count('fresh_probe_child_failed')
            continue
        if not fresh['ok']:
            # a probe that a fresh process REJECTS must be rejected, with the same exception class, after any history as well
            judge.count('probes_rejected_fresh')
            res = judge.child({'history': history, 'probe': probe}, hashseed=rng.choice(['0', '1', '12345']))
            judge.count('monitor_evaluations')
            judge.count('histories')
            if res is not None:
                got = res['probe']
                if got['ok'] or got.get('error') != fresh.get('error'):
                    if sum(1 for v in judge.violations if v['key'] == 'outcome-depends-on-history') < 3:
                        judge.violations.append({'key': 'outcome-depends-on-history',
                                                 'what': f'probe {probe_src["name"]} (werror={probe["werror"]}): a fresh process gives {fresh.get("error")}, after history '
                                                         f'{[h.get("name") for h in history]} it gives {"a file" if got["ok"] else got.get("error")}',
                                                 'replay': {'probe': probe, 'history': history}})
            continue
        same_paths = rng.random() < 0.3
        if same_paths:
            judge.count('histories_writing_over_the_same_output_paths')
        res = judge.child({'history': history, 'probe': probe, 'same_paths': same_paths},
                          hashseed=rng.choice(['1', '12345', '99']) if probe_src['name'] == 'seven-segments' else rng.choice(['0', '1', '12345']))
        judge.count('monitor_evaluations')
        judge.count('histories')
        if res is None:
            judge.count('history_child_failed')
            continue
        steps_ok = sum(1 for h in res['history'] if h['ok'])
        judge.count('history_steps_ok', steps_ok)
        judge.count('history_steps_failed', len(res['history']) - steps_ok)
        for h, item in zip(res['history'], history):
            if not h['ok'] and h['error'].startswith('RAW:'):
                judge.count('history_raw_exceptions')
            if item['stl']:
                judge.count(f'stl_cache_exposure/w{item["w"]}/werror{int(bool(item.get("werror", True)))}')
        got = res['probe']

        def bad(key: str, what: str) -> None:
            if sum(1 for v in judge.violations if v['key'] == key) < 3:
                judge.violations.append({'key': key, 'what': what, 'replay': {'probe': probe, 'history': history}})

        names = [h.get('name') for h in history]
        if not got['ok']:
            bad('probe-fails-after-history', f'probe {probe_src["name"]} fails ({got["error"]}) after history {names}')
        elif got['fjm'] != fresh['fjm']:
            bad('fjm-bytes-depend-on-history', f'probe {probe_src["name"]} w={probe["w"]}: .fjm differs after history {names}')
        elif got['fjd'] != fresh['fjd']:
            bad('fjd-bytes-depend-on-history', f'probe {probe_src["name"]} w={probe["w"]}: .fjd differs after history {names}')
        judge.hashes.append(case_hash([probe, history]))
        # other directories / hash seeds / a copy of the sources elsewhere, each in a fresh process
        if index % 4 == 0:
            copy_dir = workdir / f'copy{index}'
            copy_dir.mkdir(exist_ok=True)
            copied = []
            for f in probe['files']:
                dst = copy_dir / Path(f).name
                shutil.copy(f, dst)
                copied.append(str(dst))
            moved = judge.child({'history': [], 'probe': dict(probe, files=copied), 'chdir': str(copy_dir)}, hashseed='777')
            judge.count('fresh_other_directory')
            if moved and moved['probe']['ok'] and (moved['probe']['fjm'] != fresh['fjm'] or moved['probe']['fjd'] != fresh['fjd']):
                bad('bytes-depend-on-directory-or-hashseed', f'probe {probe_src["name"]}: bytes differ from another directory / hash seed')
            if not probe['stl']:
                # relative paths, a process that changed its directory AFTER importing the library, the assembler's own entry point
                rel = judge.child({'history': [], 'probe': dict(probe, files=[Path(f).name for f in copied], low_level=True),
                                   'chdir': str(copy_dir)}, hashseed='0')
                judge.count('relative_paths_after_a_change_of_directory')
                if rel and (not rel['probe']['ok'] or rel['probe']['fjm'] != fresh['fjm']):
                    bad('result-depends-on-the-directory-at-import-time', f'probe {probe_src["name"]}: relative paths after a chdir give '
                        f'{"another image" if rel["probe"]["ok"] else rel["probe"].get("error")}')
            shutil.rmtree(copy_dir, ignore_errors=True)
        if len(samples) < 1:
            samples.append({'probe': probe_src['name'], 'w': probe['w'], 'history': names, 'fresh_sha256': fresh['fjm'][:16]})
    shutil.rmtree(workdir, ignore_errors=True)
    return {'counters': judge.counters, 'violations': judge.violations, 'hashes': judge.hashes, 'samples': samples,
            'evaluations': judge.counters.get('monitor_evaluations', 0)}


def replay_case(record: Dict[str, Any], journal: Any) -> Dict[str, Any]:
    workdir = Path(os.environ.get('FJVERIF_WORKDIR', '/var/tmp')) / 'c13-replay'
    workdir.mkdir(parents=True, exist_ok=True)
    judge = Judge(journal, workdir)
    fresh = judge.fresh(record['probe'])
    res = judge.child({'history': record['history'], 'probe': record['probe']})
    violations = []
    if fresh and res and fresh['ok'] and (not res['probe']['ok'] or res['probe']['fjm'] != fresh['fjm'] or res['probe']['fjd'] != fresh['fjd']):
        violations.append({'key': 'bytes-depend-on-history', 'what': 'reproduced', 'replay': record})
    shutil.rmtree(workdir, ignore_errors=True)
    return {'counters': judge.counters, 'violations': violations, 'evaluations': 1, 'hashes': []}


def finalize(tier: str, seed: int, counters: Dict[str, Any], evaluations: int, distinct: int) -> Dict[str, Any]:
    inconclusive = []
    if counters.get('children_timed_out'):
        inconclusive.append(f'{counters["children_timed_out"]} assembling child processes exceeded 600 s')
    if counters.get('histories', 0) < 40:
        inconclusive.append(f'only {counters.get("histories", 0)} histories compared')
    if counters.get('history_steps_failed', 0) < 20:
        inconclusive.append('too few failing assemblies inside histories')
    exposures = [k for k in counters if k.startswith('stl_cache_exposure/')]
    if len(exposures) < 3:
        inconclusive.append(f'stl cache exercised in too few (width, warning-mode) states: {exposures}')
    if not counters.get('fresh_other_directory'):
        inconclusive.append('no fresh-process run from another directory')
    return {
        'coverage': {
            'rule': 'histories of 1-13 assemble() calls in ONE process (corpus and generated programs at w=16/32/64, stl on/off, '
                    'warning modes, failing inputs of every C14 class, recursion depths 5..5000, the stl at widths it does not '
                    'fit, the same program twice) followed by a probe; the probe .fjm and .fjd sha256 must equal those of the '
                    'probe assembled in a fresh process (PYTHONHASHSEED 0/1/12345/777, another working directory, a copy of the '
                    'sources in another directory). evaluation = one history; distinct by (probe, history)',
        },
        'inconclusive': inconclusive,
        'assumptions': ['observed at the files only; nothing internal to the parser cache is inspected'],
    }
