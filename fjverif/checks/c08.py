"""C08 - pointer, stack and call/return macros address exactly the pointed cell (DESIGN 4, C08; 3.7).

Monitor: fjverif/stlmon/ptrmon.py (word-level model of three far-apart sub-buffers, the stack, every variable, every pointer
variable and sp, compared at every SYNC; control flow by sync-point ids).  Oracle: fjverif/stlmon/spec_ptr.py (transcribed doc comments).
"""

from __future__ import annotations

from typing import Any, Dict, List

from fjverif import engines
from fjverif.common import rng_for
from fjverif.stlmon import ptrmon, spec_ptr

PROPERTY = 'C08'
LEVEL = 'exploration'
NATIVE_VARIANT = 'opt'
SPECS = spec_ptr.SPECS
SHARDS = 16
CONTROL_FAMILIES = ('call', 'fcall')


def recipes(tier: str, seed: int) -> List[Dict[str, Any]]:
    quick = tier == 'quick'
    rng = rng_for(seed, PROPERTY, 'plan', tier)
    out: List[Dict[str, Any]] = []
    index = 0
    # (1) pair programs: every documented macro, both applications through different pointers, all cells / random cell pairs
    for k, spec in enumerate(SPECS):
        if spec.family in CONTROL_FAMILIES:
            continue
        widths = (32, 64) if spec.ns == 'hex' else (16, 32, 64)
        n_values = list(spec.n_values)
        if quick:
            if spec.ns == 'hex':
                widths = (widths[(k + seed) % 2],)
            if len(n_values) > 1:
                # one odd and one even length (hexes travel in pairs through the byte macros: the last one of an odd length is alone)
                odd, even = [n for n in n_values if n % 2], [n for n in n_values if n % 2 == 0]
                n_values = ([rng.choice(odd)] if odd else []) + ([rng.choice(even)] if even else [])
        for w in widths:
            for n in n_values:
                cost = (1.6 if w == 64 else 1.2) + (0.4 * n if n else 0)
                out.append({'kind': 'pair', 'key': spec.key, 'w': w, 'n': n or None, 'index': index, 'cost': cost})
                index += 1
    # (2) random sequence programs over shared pointers / variables, balanced push/pop inside
    for i in range(18 if quick else 160):
        w = (32, 64)[i % 2]
        length = (10, 20, 40, 14, 28)[i % 5]
        out.append({'kind': 'sequence', 'ns': 'hex', 'w': w, 'length': length, 'index': index, 'cost': 1.0 + length * (0.13 if w == 64 else 0.09)})
        index += 1
    for i in range(7 if quick else 60):
        w = (32, 64, 16, 32, 64, 16, 32)[i % 7]
        length = {16: (2, 3), 32: (10, 16), 64: (10, 14)}[w][i % 2]
        out.append({'kind': 'sequence', 'ns': 'bit', 'w': w, 'length': length, 'index': index, 'cost': 0.8 + length * (0.25 if w == 64 else 0.1)})
        index += 1
    # (3) call nests (stl.call with and without stack parameters, stl.return, stl.fcall / stl.fret) to depth 6
    depths = [1, 2, 3, 4, 5, 6, 6, 6, 4, 6, 3, 6] if quick else [1 + i % 6 for i in range(60)] + [6] * 12
    for i, depth in enumerate(depths):
        w = (32, 64)[i % 2]
        out.append({'kind': 'calls', 'w': w, 'depth': depth, 'index': index, 'cost': 2.0 + depth * (1.6 if w == 64 else 1.1)})
        index += 1
    for r in out:
        r['seed'], r['tier'] = seed, tier
    return out


def plan(tier: str, seed: int) -> List[Dict[str, Any]]:
    items = sorted(recipes(tier, seed), key=lambda r: -r['cost'])
    shards = SHARDS if tier == 'quick' else 4 * SHARDS
    bins: List[List[Dict[str, Any]]] = [[] for _ in range(shards)]
    load = [0.0] * shards
    for r in items:                                     # longest-processing-time first
        k = load.index(min(load))
        bins[k].append(r)
        load[k] += r['cost']
    return [{'kind': 'recipes', 'recipes': b, 'tier': tier, 'seed': seed, 'timeout_s': 1500 if tier == 'quick' else 14000} for b in bins if b]


def run_shard(spec: Dict[str, Any], journal: Any) -> Dict[str, Any]:
    rec = ptrmon.Recorder(PROPERTY)
    for recipe in spec['recipes']:
        ptrmon.run_recipe(rec, recipe, journal)
    engines.cleanup_tmpdir()
    return {'counters': rec.counters, 'violations': rec.violations, 'hashes': rec.hashes, 'samples': rec.samples,
            'evaluations': rec.counters.get('applications_monitored', 0)}


def replay_case(record: Dict[str, Any], journal: Any) -> Dict[str, Any]:
    """re-generates the program from its recipe (seed, kind, index ...) and re-runs the monitor on it; the replay file also
    carries the program text, the operand values and the documented expectation of the failing application."""
    recipe = (record or {}).get('recipe')
    if not recipe:
        return {'counters': {}, 'violations': [], 'evaluations': 0, 'hashes': [], 'inconclusive': ['the replay record carries no recipe']}
    rec = ptrmon.Recorder(PROPERTY)
    ptrmon.run_recipe(rec, recipe, journal)
    engines.cleanup_tmpdir()
    return {'counters': rec.counters, 'violations': rec.violations, 'hashes': rec.hashes, 'samples': rec.samples,
            'evaluations': rec.counters.get('applications_monitored', 0)}


def finalize(tier: str, seed: int, counters: Dict[str, Any], evaluations: int, distinct: int) -> Dict[str, Any]:
    inconclusive: List[str] = []
    macros = counters.get('macros', {})
    missing = sorted({s.key for s in SPECS} - set(macros))
    if missing:
        inconclusive.append(f'macros never monitored: {missing}')
    families = counters.get('families', {})
    lost = sorted(set(spec_ptr.FAMILIES) - set(families))
    if lost:
        inconclusive.append(f'macro families never monitored: {lost}')
    for width in ('hex/32', 'hex/64', 'bit/16', 'bit/32', 'bit/64'):
        if not counters.get('width', {}).get(width):
            inconclusive.append(f'no program ran at {width}')
    if tier != 'quick':
        for s in SPECS:
            for w in ((32, 64) if s.ns == 'hex' else (16, 32, 64)):
                if not counters.get('macro_widths', {}).get(f'{s.key}@{w}'):
                    inconclusive.append(f'{s.key} never monitored at w={w}')
    floor = 100000 if tier == 'quick' else 2000000
    if counters.get('applications_monitored', 0) < floor:
        inconclusive.append(f'only {counters.get("applications_monitored", 0)} monitored applications (floor {floor})')
    for key in ('pair_programs', 'sequence_programs', 'calls_programs', 'fast_engine_slices', 'ptr_jumps_monitored'):
        if not counters.get(key):
            inconclusive.append(f'counter {key} is zero')
    deepest = max([int(k) for k in counters.get('call_depths', {})] or [0])
    if deepest < 6:
        inconclusive.append(f'call nests reached depth {deepest} only (6 wanted)')
    for region in ('near', 'mid', 'high', 'stack'):
        if not counters.get('target_regions', {}).get(region):
            inconclusive.append(f'no pointer was ever aimed into the {region} region')
    if counters.get('programs_with_harness_error'):
        inconclusive.append(f'{counters["programs_with_harness_error"]} programs stopped on a harness error: {counters.get("harness_errors")}')
    bad = counters.get('programs_not_assembled', 0) + counters.get('programs_discarded_by_generator', 0)
    if bad * 4 > counters.get('programs_generated', 1):
        inconclusive.append(f'{bad} of {counters.get("programs_generated")} generated programs were discarded / did not assemble: '
                            f'{counters.get("assembly_errors")}')
    return {
        'coverage': {
            'rule': 'SYNC-monitored runs of the real library on the real interpreter. every program declares three sub-buffers (next to the '
                    'code, in a segment at 0x0AA5A580 and in a segment near the top of the address space, so that cell addresses differ in '
                    'nearly every address digit), the stack, data variables and pointer variables. at EVERY sync point (one before every '
                    'macro application, also inside called functions and in ptr_jump landing stubs) the monitor compares the flip word and '
                    'the jump word of EVERY buffer cell, stack cell, variable cell, pointer cell and of sp with a word-level model advanced '
                    'by the transcribed doc comments (spec_ptr.py), and the id of the sync point with the one the model expects (call / '
                    'return / fcall / fret / ptr_jump). at the top of each pass it pokes fresh cell bytes, operand values, a start depth for '
                    'sp and pointer targets: pair programs (the same macro through two pointers) walk a shuffled list of ALL ordered pairs of '
                    'target cells, sequence programs (10-40 applications, balanced push/pop, shared pointers) and call nests (depth 1-6, '
                    'call with and without stack parameters, fcall) draw them at random. evaluation = one monitored macro application; '
                    'distinct = distinct programs',
            'macros_in_spec_table': len({s.macro for s in SPECS}),
            'spec_entries': len(SPECS),
            'not_covered': spec_ptr.NOT_COVERED,
        },
        'inconclusive': inconclusive,
        'assumptions': [
            'the spec table (fjverif/stlmon/spec_ptr.py) is my transcription of the doc comments',
            'a hex-typed access through a pointer concerns the 4 hex data bits of the pointed cell only; a byte-typed one the 8 data bits '
            '(stack.fj:93 says so for pop_hex); zero_ptr ("*ptr = 0") clears the 8 data bits',
            'hex.push n, odd n: the upper hex of the last pushed cell is unspecified ("as bytes" vs "= hex[:n]") - observed value adopted',
            'hex.push n: the formula line says "sp += n", the prose, both notes and pop n say M=(n+1)/2 cells - M is used',
            'the VALUE of the return address that stl.call pushes is not documented: learned per call site at its first execution (must be a '
            'dw-aligned op address) and required to be identical afterwards; after the return the cell is 0 (pop_ret_address: stack[sp--] = 0)',
            'what stl.fcall/fret leave in ret_reg, and what any macro leaves in the library scratch (hex.pointers.read_byte, nth_ptr, to_flip, '
            'to_jump and their _var copies) is unspecified: not compared',
            'bit.ptr_inc has no formula line; modelled as the mirror of bit.ptr_dec ("ptr[:n] -= 2w")',
            'not generated (documented as unsafe / assumed away): unaligned pointers where "dw-aligned"/"w-aligned" is assumed, pointers to cells '
            'that are not plain hex/byte/bit variables for the reading and writing macros, overlapping operands, returning / popping on an empty '
            'stack, pushing beyond the stack, pop_ret_address with another address than the pushed one, fret without the matching fcall',
        ],
    }
