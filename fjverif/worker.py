"""shard worker: python -m fjverif.worker <PROP> <spec.json> <out.json> <journal.json>"""

from __future__ import annotations

import json
import os
import sys
import traceback

from fjverif.common import Inconclusive, jdump
from pathlib import Path


class Journal:
    """the case about to be executed is written out BEFORE executing it, so that a segfault or
    a sanitizer abort leaves the guilty case on disk."""

    def __init__(self, path: str):
        self.path = path

    def note(self, case) -> None:  # type: ignore[no-untyped-def]
        tmp = self.path + '.tmp'
        with open(tmp, 'w') as f:
            json.dump(case, f, default=str)
        os.replace(tmp, self.path)


def main() -> int:
    prop, spec_path, out_path, journal_path = sys.argv[1:5]
    with open(spec_path) as f:
        spec = json.load(f)
    from fjverif import common

    common.use_repo_tree()
    import importlib

    check = importlib.import_module(f'fjverif.checks.{prop.lower()}')
    variant = spec.get('variant', getattr(check, 'NATIVE_VARIANT', None))
    try:
        if variant:
            from fjverif import native_build

            native_build.register(variant)
        if getattr(check, 'NEEDS_TREE', True):
            common.assert_tree(native_expected=bool(variant))
        journal = Journal(journal_path)
        if 'replay' in spec:
            result = check.replay_case(spec['replay'], journal)
        else:
            result = check.run_shard(spec, journal)
    except Inconclusive as exc:
        result = {'inconclusive': [str(exc)], 'evaluations': 0}
    except Exception:
        result = {'inconclusive': ['worker exception: ' + traceback.format_exc()[-1500:]], 'evaluations': 0}
    if sys.flags.optimize and isinstance(result.get('counters'), dict):
        result['counters']['shards_run_under_python_O'] = 1
    jdump(result, Path(out_path))
    return 0


if __name__ == '__main__':
    sys.exit(main())
