"""
Shared plumbing: where the tree under test lives, how it gets imported, seeds, hashing.

Nothing in here decides a property.
"""

from __future__ import annotations

import hashlib
import json
import os
import random
import sys
from pathlib import Path
from typing import Any

VERIF_ROOT = Path(__file__).resolve().parent.parent
REPO_ROOT = Path(os.environ.get('VERIF_REPO', '/repo')).resolve()
BUILD_DIR = VERIF_ROOT / '.build'
DEPS_DIR = VERIF_ROOT / '.deps'
REPLAY_DIR = Path(os.environ.get('VERIF_REPLAY_DIR', VERIF_ROOT / 'replays'))
EVIDENCE_DIR = Path(os.environ.get('VERIF_EVIDENCE_DIR', VERIF_ROOT / 'evidence'))
PYTHON = '/venv/bin/python'


class Inconclusive(Exception):
    """the deciding monitor could not be applied (never folded into held / violated)."""


def seed_value() -> int:
    try:
        return int(os.environ.get('VERIF_SEED', '0'))
    except ValueError:
        return 0


def rng_for(*parts: Any) -> random.Random:
    """deterministic PRNG keyed by strings/ints (stable across processes and hash seeds)."""
    key = ':'.join(str(p) for p in parts)
    return random.Random(int.from_bytes(hashlib.sha256(key.encode()).digest()[:8], 'little'))


def case_hash(obj: Any) -> str:
    return hashlib.sha256(json.dumps(obj, sort_keys=True, default=str).encode()).hexdigest()[:16]


def use_repo_tree() -> None:
    """make `import flipjump` resolve to the tree under test (a sys.path entry beats the
    editable-install finder), and verify it did."""
    root = str(REPO_ROOT)
    if root in sys.path:
        sys.path.remove(root)
    sys.path.insert(0, root)
    for name in [n for n in sys.modules if n == 'flipjump' or n.startswith('flipjump.')]:
        module_file = getattr(sys.modules[name], '__file__', None) or ''
        if name != 'flipjump.interpreter._fjcore' and not module_file.startswith(root):
            raise Inconclusive(f'{name} already imported from {module_file}, not from {root}')


def assert_tree(native_expected: bool = True) -> None:
    import flipjump  # noqa: F401
    from flipjump.interpreter import fjm_run

    if not str(Path(flipjump.__file__).resolve()).startswith(str(REPO_ROOT)):
        raise Inconclusive(f'flipjump imported from {flipjump.__file__}, expected under {REPO_ROOT}')
    if native_expected:
        core = fjm_run._fjcore
        if core is None:
            raise Inconclusive('native engine did not load')
        if not str(Path(core.__file__).resolve()).startswith(str(BUILD_DIR)):
            raise Inconclusive(f'native engine loaded from {core.__file__}, expected a build under {BUILD_DIR}')


def jdump(obj: Any, path: Path) -> None:
    path.parent.mkdir(parents=True, exist_ok=True)
    tmp = path.with_suffix(path.suffix + f'.tmp{os.getpid()}')
    with open(tmp, 'w') as f:
        json.dump(obj, f, indent=1, sort_keys=True, default=str)
    os.replace(tmp, path)
