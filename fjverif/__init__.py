"""fjverif - runtime monitors for tomhea/flip-jump (see /verif/DESIGN.md)."""
