#!/bin/sh
# setup_cmd: offline only. Builds the native-engine variants from /repo's current _fjcore.c and installs
# the contract libraries beside the repository's interpreter (git-ignored .deps).
set -e
cd "$(dirname "$0")"
mkdir -p .deps .build evidence replays
/venv/bin/pip install --quiet --no-index --find-links /opt/veriftools/wheels --target .deps icontract deal >/dev/null 2>&1 || echo "setup: icontract/deal not installed (contract tier will report inconclusive)"
PYTHONPATH=. /venv/bin/python -m fjverif.native_build opt asan cov allocfault
echo "setup done"
